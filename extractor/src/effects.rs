//! The order of the effectful operations of `ThreadedRodeo::try_get_or_intern` and
//! `try_get_or_intern_static`, in evaluation order (post-order over the expression tree): which map is
//! looked at, where the shard lock is taken, the second lookup, the arena store, the key fetch and its
//! check, and the two inserts.  The interleaving model steps through exactly these operations.

use crate::{lean, parse_file, toks};
use std::path::Path;
use syn::visit::Visit;

fn squash(s: &str) -> String {
    s.chars().filter(|c| !c.is_whitespace()).collect()
}

struct V {
    out: Vec<String>,
    /// names bound to the shard write guard (`let mut <name> = ….write()`) and to a vacant map entry
    /// (`Entry::Vacant(<name>)`), whatever they are called
    guards: Vec<String>,
    vacants: Vec<String>,
}

impl<'ast> Visit<'ast> for V {
    fn visit_local(&mut self, l: &'ast syn::Local) {
        if let (syn::Pat::Ident(p), Some(init)) = (&l.pat, &l.init) {
            let it = squash(&toks(&*init.expr));
            if it.starts_with("self.map.shards()") && it.ends_with(".write()") {
                self.guards.push(p.ident.to_string());
            }
        }
        syn::visit::visit_local(self, l);
    }
    fn visit_arm(&mut self, a: &'ast syn::Arm) {
        let pt = squash(&toks(&a.pat));
        if let Some(rest) = pt.strip_prefix("Entry::Vacant(") {
            if let Some(name) = rest.strip_suffix(")") {
                self.vacants.push(name.trim_start_matches("mut").to_string());
            }
        }
        syn::visit::visit_arm(self, a);
    }
    fn visit_expr_method_call(&mut self, m: &'ast syn::ExprMethodCall) {
        // children first: evaluation order
        syn::visit::visit_expr_method_call(self, m);
        let recv = squash(&toks(&*m.receiver));
        let name = m.method.to_string();
        let e = match name.as_str() {
            "get" if recv == "self.map" => Some(".fastGet"),
            "write" if recv.starts_with("self.map.shards()") => Some(".lockShard"),
            "find_or_find_insert_slot" => Some(".recheck"),
            "entry" if recv == "self.map" => Some(".lockEntry"),
            "store_str" if recv == "self.arena" => Some(".store"),
            "fetch_add" if recv == "self.key" => Some(".keyFetch"),
            "insert" if recv == "self.strings" => Some(".stringsInsert"),
            "insert_in_slot" | "insert" if self.guards.contains(&recv) || self.vacants.contains(&recv) => Some(".mapInsert"),
            // anything else that touches the two maps, the counter or the arena is not understood
            _ if (recv.starts_with("self.map") && !matches!(name.as_str(), "hasher" | "hash_one" | "determine_shard" | "shards" | "get" | "unwrap"))
                || recv.starts_with("self.strings")
                || recv.starts_with("self.key")
                || recv.starts_with("self.arena")
                || ((self.guards.contains(&recv) || self.vacants.contains(&recv)) && name != "find_or_find_insert_slot") =>
            {
                self.out.push(format!("(.other {})", lean::s(&format!("{recv}.{name}"))));
                None
            }
            _ => None,
        };
        if let Some(e) = e {
            self.out.push(e.to_string());
        }
    }
    fn visit_expr_call(&mut self, c: &'ast syn::ExprCall) {
        syn::visit::visit_expr_call(self, c);
        let f = squash(&toks(&*c.func));
        if f.ends_with("::try_from_usize") && !crate::is_own_key_check(&f) {
            self.out.push(format!("(.other {})", lean::s(&format!("key check on another type: {f}"))));
        } else if f.ends_with("::try_from_usize") {
            self.out.push(".keyCheck".into());
        }
    }
    fn visit_expr_return(&mut self, r: &'ast syn::ExprReturn) {
        syn::visit::visit_expr_return(self, r);
        // a way out of the function before the string has been looked up at all (a string that is already
        // present must be found whatever else holds)
        if !self.out.iter().any(|e| e == ".fastGet" || e == ".lockEntry" || e == ".recheck") {
            self.out.push(format!("(.other {})", lean::s(&format!("return before the lookup: {}", squash(&toks(r))))));
        }
    }
    fn visit_expr_try(&mut self, t: &'ast syn::ExprTry) {
        syn::visit::visit_expr_try(self, t);
        if !self.out.iter().any(|e| e == ".fastGet" || e == ".lockEntry" || e == ".recheck") {
            self.out.push(format!("(.other {})", lean::s(&format!("`?` before the lookup: {}", squash(&toks(t))))));
        }
    }
}

fn effects_of(file: &syn::File, name: &str) -> Vec<String> {
    for item in &file.items {
        if let syn::Item::Impl(im) = item {
            if im.trait_.is_some() || !squash(&toks(&*im.self_ty)).starts_with("ThreadedRodeo<") {
                continue;
            }
            for it in &im.items {
                if let syn::ImplItem::Fn(f) = it {
                    if f.sig.ident == name {
                        let mut v = V { out: Vec::new(), guards: Vec::new(), vacants: Vec::new() };
                        v.visit_block(&f.block);
                        return v.out;
                    }
                }
            }
        }
    }
    vec!["(.other \"function not found\")".into()]
}

/// Effects of the single-threaded `Rodeo::try_get_or_intern(_static)`: hash, probe, key check, store,
/// push, table insert.
struct R {
    out: Vec<String>,
}

impl<'ast> Visit<'ast> for R {
    fn visit_expr_method_call(&mut self, m: &'ast syn::ExprMethodCall) {
        syn::visit::visit_expr_method_call(self, m);
        let recv = squash(&toks(&*m.receiver));
        let name = m.method.to_string();
        let e = match name.as_str() {
            "hash_one" if recv == "hasher" => Some(".hashOne"),
            "store_str" if recv == "arena" => Some(".store"),
            "push" if recv == "strings" => Some(".stringsPush"),
            "len" if recv == "strings" => None,
            "as_ref" | "ok_or_else" | "into_key" => None,
            _ if recv == "strings" || recv == "map" || recv == "arena" || recv == "hasher" || recv.starts_with("self.") => {
                self.out.push(format!("(.other {})", lean::s(&format!("{recv}.{name}"))));
                None
            }
            _ => None,
        };
        if let Some(e) = e {
            self.out.push(e.to_string());
        }
    }
    fn visit_expr_call(&mut self, c: &'ast syn::ExprCall) {
        syn::visit::visit_expr_call(self, c);
        let f = squash(&toks(&*c.func));
        if f.ends_with("::try_from_usize") && !crate::is_own_key_check(&f) {
            self.out.push(format!("(.other {})", lean::s(&format!("key check on another type: {f}"))));
        } else if f.ends_with("::try_from_usize") {
            self.out.push(".keyCheck".into());
        } else if f == "get_string_entry_mut" {
            self.out.push(".probe".into());
        } else if f == "insert_string" {
            self.out.push(".tableInsert".into());
        } else if crate::hashes::is_hash_helper(&f) {
            self.out.push(".hashOne".into());
        }
    }
    fn visit_expr_assign(&mut self, a: &'ast syn::ExprAssign) {
        syn::visit::visit_expr_assign(self, a);
        self.out.push(format!("(.other {})", lean::s(&squash(&toks(a)))));
    }
    fn visit_expr_return(&mut self, r: &'ast syn::ExprReturn) {
        syn::visit::visit_expr_return(self, r);
        // a way out of the function before the string has been looked up at all
        if !self.out.iter().any(|e| e == ".probe") {
            self.out.push(format!("(.other {})", lean::s(&format!("return before the lookup: {}", squash(&toks(r))))));
        }
    }
    fn visit_expr_try(&mut self, t: &'ast syn::ExprTry) {
        syn::visit::visit_expr_try(self, t);
        if !self.out.iter().any(|e| e == ".probe") {
            self.out.push(format!("(.other {})", lean::s(&format!("`?` before the lookup: {}", squash(&toks(t))))));
        }
    }
    fn visit_expr_index(&mut self, a: &'ast syn::ExprIndex) {
        syn::visit::visit_expr_index(self, a);
        self.out.push(format!("(.other {})", lean::s(&squash(&toks(a)))));
    }
}

fn rodeo_effects(file: &syn::File, name: &str) -> Vec<String> {
    for item in &file.items {
        if let syn::Item::Impl(im) = item {
            if im.trait_.is_some() || !squash(&toks(&*im.self_ty)).starts_with("Rodeo<") {
                continue;
            }
            for it in &im.items {
                if let syn::ImplItem::Fn(f) = it {
                    if f.sig.ident == name {
                        let mut v = R { out: Vec::new() };
                        v.visit_block(&f.block);
                        return v.out;
                    }
                }
            }
        }
    }
    vec!["(.other \"function not found\")".into()]
}

/// Body shapes of the small functions the model mirrors literally: `clear` (what is cleared, in which
/// order) and the three conversions (which fields move where).
///
/// Locals are resolved, not matched by name: a destructuring `let Self { a, b: x, c: _, .. } = self;`
/// binds names to fields, `let x = <field>;` and `let x = AnyArena::Arena(<field>);` are aliases (the
/// wrapping is checked by rustc: the constructors take an `AnyArena`), and `self.<field>` is the field.
struct Fields {
    env: Vec<(String, String)>,
}

fn field_lean(f: &str) -> Option<&'static str> {
    match f {
        "map" => Some(".map"),
        "hasher" => Some(".hasher"),
        "strings" => Some(".strings"),
        "arena" | "__arena" => Some(".arena"),
        _ => None,
    }
}

impl Fields {
    /// the field an expression denotes, if it is nothing but a field of `self`
    fn resolve(&self, e: &syn::Expr) -> Option<&'static str> {
        match e {
            syn::Expr::Paren(p) => self.resolve(&p.expr),
            syn::Expr::Group(g) => self.resolve(&g.expr),
            syn::Expr::Path(p) if p.path.segments.len() == 1 && p.qself.is_none() => {
                let id = p.path.segments[0].ident.to_string();
                self.env.iter().rev().find(|(n, _)| *n == id).and_then(|(_, f)| field_lean(f))
            }
            syn::Expr::Field(f) if squash(&toks(&*f.base)) == "self" => field_lean(&squash(&toks(&f.member))),
            syn::Expr::Call(c) if squash(&toks(&*c.func)) == "AnyArena::Arena" && c.args.len() == 1 => match self.resolve(&c.args[0]) {
                Some(".arena") => Some(".arena"),
                _ => None,
            },
            _ => None,
        }
    }
    /// `let <Ty> { .. } = self;` / `let x = <field expr>;`  ->  true when understood
    fn bind(&mut self, l: &syn::Local) -> bool {
        let Some(init) = &l.init else { return false };
        if init.diverge.is_some() {
            return false;
        }
        match &l.pat {
            syn::Pat::Struct(ps) if squash(&toks(&*init.expr)) == "self" => {
                for fp in &ps.fields {
                    let member = squash(&toks(&fp.member));
                    match &*fp.pat {
                        syn::Pat::Ident(pi) if pi.subpat.is_none() && pi.by_ref.is_none() => self.env.push((pi.ident.to_string(), member)),
                        syn::Pat::Wild(_) => {}
                        _ => return false,
                    }
                }
                true
            }
            syn::Pat::Ident(pi) if pi.subpat.is_none() && pi.by_ref.is_none() => match self.resolve(&init.expr) {
                Some(f) => {
                    self.env.push((pi.ident.to_string(), f.trim_start_matches('.').to_string()));
                    true
                }
                None => false,
            },
            _ => false,
        }
    }
}

fn body_shape(path: &Path, ty_prefix: &str, name: &str) -> String {
    if !path.exists() {
        return "(.other \"file missing\")".into();
    }
    let file = parse_file(path);
    for item in &file.items {
        if let syn::Item::Impl(im) = item {
            if im.trait_.is_some() || !squash(&toks(&*im.self_ty)).starts_with(ty_prefix) {
                continue;
            }
            for it in &im.items {
                if let syn::ImplItem::Fn(f) = it {
                    if f.sig.ident != name {
                        continue;
                    }
                    let whole = || format!("(.other {})", lean::s(&f.block.stmts.iter().map(|s| squash(&toks(s))).collect::<Vec<_>>().join(" ")));
                    let mut env = Fields { env: Vec::new() };
                    if name == "clear" {
                        // bindings, then a sequence of `<field>.clear();`
                        let mut fields = Vec::new();
                        for st in &f.block.stmts {
                            match st {
                                syn::Stmt::Local(l) => {
                                    if !env.bind(l) {
                                        return whole();
                                    }
                                }
                                syn::Stmt::Expr(syn::Expr::MethodCall(m), Some(_)) if m.method == "clear" && m.args.is_empty() => match env.resolve(&m.receiver) {
                                    Some(fl) => fields.push(fl.to_string()),
                                    None => return whole(),
                                },
                                _ => return whole(),
                            }
                        }
                        return format!("(.clears {})", lean::list_inline(&fields));
                    }
                    // conversions: bindings, then `unsafe { X::new(args) }` (or without `unsafe`)
                    let n = f.block.stmts.len();
                    for (i, st) in f.block.stmts.iter().enumerate() {
                        match st {
                            syn::Stmt::Local(l) if i + 1 < n => {
                                if !env.bind(l) {
                                    return whole();
                                }
                            }
                            syn::Stmt::Expr(e, None) if i + 1 == n => {
                                let mut e = e;
                                if let syn::Expr::Unsafe(u) = e {
                                    if u.block.stmts.len() != 1 {
                                        return whole();
                                    }
                                    let syn::Stmt::Expr(inner, None) = &u.block.stmts[0] else { return whole() };
                                    e = inner;
                                }
                                let syn::Expr::Call(c) = e else { return whole() };
                                let ctor = match squash(&toks(&*c.func)).as_str() {
                                    "RodeoReader::new" => ".readerNew",
                                    "RodeoResolver::new" => ".resolverNew",
                                    _ => return whole(),
                                };
                                let mut args = Vec::new();
                                for a in &c.args {
                                    match env.resolve(a) {
                                        Some(fl) => args.push(fl.to_string()),
                                        None => return whole(),
                                    }
                                }
                                return format!("(.moves ({ctor} {}))", lean::list_inline(&args));
                            }
                            _ => return whole(),
                        }
                    }
                    return whole();
                }
            }
        }
    }
    "(.other \"function not found\")".into()
}

pub fn emit(src: &Path, out: &mut String) {
    let path = src.join("threaded_rodeo.rs");
    let (a, b) = if path.exists() {
        let file = parse_file(&path);
        (effects_of(&file, "try_get_or_intern"), effects_of(&file, "try_get_or_intern_static"))
    } else {
        (vec![], vec![])
    };
    out.push_str("/-- Effects of `ThreadedRodeo::try_get_or_intern`, in evaluation order. -/\n");
    out.push_str(&format!("def internEffects : List Effect := {}\n\n", lean::list_inline(&a)));
    out.push_str("/-- Effects of `ThreadedRodeo::try_get_or_intern_static`, in evaluation order. -/\n");
    out.push_str(&format!("def internStaticEffects : List Effect := {}\n\n", lean::list_inline(&b)));
    let rpath = src.join("rodeo.rs");
    let (ra, rb) = if rpath.exists() {
        let file = parse_file(&rpath);
        (rodeo_effects(&file, "try_get_or_intern"), rodeo_effects(&file, "try_get_or_intern_static"))
    } else {
        (vec![], vec![])
    };
    out.push_str("/-- Effects of `Rodeo::try_get_or_intern`, in evaluation order. -/\n");
    out.push_str(&format!("def rodeoInternEffects : List REffect := {}\n\n", lean::list_inline(&ra)));
    out.push_str("/-- Effects of `Rodeo::try_get_or_intern_static`, in evaluation order. -/\n");
    out.push_str(&format!("def rodeoInternStaticEffects : List REffect := {}\n\n", lean::list_inline(&rb)));
    out.push_str("/-- Bodies of `Rodeo::clear`, `Rodeo::into_reader`, `Rodeo::into_resolver`, `RodeoReader::into_resolver`. -/\n");
    out.push_str(&format!("def rodeoClearBody : BodyShape := {}\n", body_shape(&rpath, "Rodeo<", "clear")));
    out.push_str(&format!("def rodeoIntoReaderBody : BodyShape := {}\n", body_shape(&rpath, "Rodeo<", "into_reader")));
    out.push_str(&format!("def rodeoIntoResolverBody : BodyShape := {}\n", body_shape(&rpath, "Rodeo<", "into_resolver")));
    out.push_str(&format!("def readerIntoResolverBody : BodyShape := {}\n\n", body_shape(&src.join("reader.rs"), "RodeoReader<", "into_resolver")));
}
