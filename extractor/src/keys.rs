//! `keys.rs`: the four `unsafe impl Key` blocks, their structs, `Default` impls and the serde macro.

use crate::{lean, parse_file, toks};
use std::path::Path;
use syn::{Expr, ImplItem, Item, Stmt};

fn ty_of(name: &str) -> String {
    match name {
        "u8" | "NonZeroU8" => ".u8".into(),
        "u16" | "NonZeroU16" => ".u16".into(),
        "u32" | "NonZeroU32" => ".u32".into(),
        "usize" | "NonZeroUsize" => ".usize".into(),
        other => format!("(.other {})", lean::s(other)),
    }
}

/// Single trailing expression of a block, looking through `unsafe { .. }` and nested blocks.
fn tail_expr(block: &syn::Block) -> Option<&Expr> {
    if block.stmts.len() != 1 {
        return None;
    }
    match &block.stmts[0] {
        Stmt::Expr(e, None) => Some(peel(e)),
        _ => None,
    }
}

fn peel(e: &Expr) -> &Expr {
    match e {
        Expr::Unsafe(u) => tail_expr(&u.block).unwrap_or(e),
        Expr::Block(b) if b.label.is_none() => tail_expr(&b.block).unwrap_or(e),
        Expr::Paren(p) => peel(&p.expr),
        Expr::Group(g) => peel(&g.expr),
        _ => e,
    }
}

thread_local! {
    /// locals of `into_usize` that hold the field of `self` (`let Self { key } = self;`)
    static KEY_LOCALS: std::cell::RefCell<Vec<String>> = std::cell::RefCell::new(Vec::new());
    /// local `const` / `let` names of the function being translated -> their (already translated) value
    static ALIASES: std::cell::RefCell<std::collections::HashMap<String, String>> = std::cell::RefCell::new(std::collections::HashMap::new());
}

fn kexpr(e: &Expr, param: &str) -> String {
    let e = peel(e);
    match e {
        Expr::Path(p) => {
            let segs: Vec<String> = p.path.segments.iter().map(|s| s.ident.to_string()).collect();
            if segs.len() == 1 && segs[0] == param {
                ".var".into()
            } else if let Some(a) = (segs.len() == 1).then(|| ALIASES.with(|m| m.borrow().get(&segs[0]).cloned())).flatten() {
                a
            } else if segs.len() == 2 && segs[1] == "MAX" {
                format!("(.tmax {})", ty_of(&segs[0]))
            } else {
                format!("(.unknown {})", lean::s(&toks(e)))
            }
        }
        Expr::Lit(l) => match &l.lit {
            syn::Lit::Int(i) if i.suffix().is_empty() => match i.base10_parse::<u128>() {
                Ok(n) => format!("(.lit {n})"),
                Err(_) => format!("(.unknown {})", lean::s(&toks(e))),
            },
            _ => format!("(.unknown {})", lean::s(&toks(e))),
        },
        Expr::Cast(c) => format!("(.cast {} {})", kexpr(&c.expr, param), ty_of(&toks(&c.ty))),
        // `usize::from(e)` (and the like): `From` between integer types exists only where it is lossless,
        // i.e. it is the widening cast
        Expr::Call(c) if c.args.len() == 1 && matches!(&*c.func, Expr::Path(p) if p.path.segments.len() == 2 && p.path.segments[1].ident == "from"
            && matches!(p.path.segments[0].ident.to_string().as_str(), "usize" | "u64" | "u32" | "u16" | "u128")) => {
            let Expr::Path(p) = &*c.func else { unreachable!() };
            format!("(.cast {} {})", kexpr(&c.args[0], param), ty_of(&p.path.segments[0].ident.to_string()))
        }
        Expr::Binary(b) => match b.op {
            syn::BinOp::Add(_) => format!("(.add {} {})", kexpr(&b.left, param), kexpr(&b.right, param)),
            syn::BinOp::Sub(_) => format!("(.sub {} {})", kexpr(&b.left, param), kexpr(&b.right, param)),
            _ => format!("(.unknown {})", lean::s(&toks(e))),
        },
        // `self.key.get()`
        Expr::MethodCall(m) if m.method == "get" && m.args.is_empty() && toks(&m.receiver) == "self . key" && param == "self" => {
            ".var".into()
        }
        // `key.get()` after `let Self { key } = self;`
        Expr::MethodCall(m) if m.method == "get" && m.args.is_empty() && param == "self"
            && KEY_LOCALS.with(|k| k.borrow().iter().any(|n| *n == toks(&m.receiver))) => ".var".into(),
        _ => format!("(.unknown {})", lean::s(&toks(e))),
    }
}

struct KeyFacts {
    name: String,
    backing: String,
    cmp: String,
    lhs: String,
    rhs: String,
    store: String,
    load: String,
}

fn unknown_spec(name: &str, why: &str) -> KeyFacts {
    let u = format!("(.unknown {})", lean::s(why));
    KeyFacts {
        name: name.into(),
        backing: format!("(.other {})", lean::s(why)),
        cmp: ".other".into(),
        lhs: u.clone(),
        rhs: u.clone(),
        store: u.clone(),
        load: u,
    }
}

/// `Some(Self { key: NonZeroX::new_unchecked(EXPR) })` -> (backing, EXPR); `lets` are the `let` bindings
/// that precede it (for `let key = …; Some(Self { key })`)
fn some_self_key<'a>(e: &'a Expr, lets: &[(String, &'a Expr)]) -> Option<(String, &'a Expr)> {
    let e = peel(e);
    let Expr::Call(call) = e else { return None };
    if toks(&call.func) != "Some" || call.args.len() != 1 {
        return None;
    }
    let Expr::Struct(st) = peel(&call.args[0]) else { return None };
    if toks(&st.path) != "Self" || st.fields.len() != 1 || st.rest.is_some() {
        return None;
    }
    let f = &st.fields[0];
    if toks(&f.member) != "key" {
        return None;
    }
    let mut fexpr = peel(&f.expr);
    if let Expr::Path(pp) = fexpr {
        if pp.path.segments.len() == 1 {
            let n = pp.path.segments[0].ident.to_string();
            if let Some((_, init)) = lets.iter().find(|(k, _)| *k == n) {
                fexpr = peel(init);
            }
        }
    }
    let Expr::Call(inner) = fexpr else { return None };
    let Expr::Path(fp) = &*inner.func else { return None };
    let segs: Vec<String> = fp.path.segments.iter().map(|s| s.ident.to_string()).collect();
    if segs.len() != 2 || segs[1] != "new_unchecked" || inner.args.len() != 1 {
        return None;
    }
    Some((ty_of(&segs[0]), &inner.args[0]))
}

/// What `try_from_usize` returns, as a decision tree over the comparisons it makes.
enum Out<'a> {
    NoneV,
    /// `Some(Self { key: NonZeroX::new_unchecked(E) })`: (backing type, E translated)
    SomeV(String, String),
    /// condition (with the local bindings visible at that point), value if it holds, value otherwise
    Ite(&'a Expr, std::collections::HashMap<String, String>, Box<Out<'a>>, Box<Out<'a>>),
}

fn bind_local<'a>(l: &'a syn::Local, param: &str, lets: &mut Vec<(String, &'a Expr)>) -> Option<()> {
    let pat = match &l.pat {
        syn::Pat::Type(pt) => &*pt.pat,
        p => p,
    };
    let syn::Pat::Ident(pi) = pat else { return None };
    let init = l.init.as_ref()?;
    if init.diverge.is_some() {
        return None;
    }
    let name = pi.ident.to_string();
    // a rebinding hides the earlier one
    lets.retain(|(k, _)| *k != name);
    lets.push((name.clone(), &*init.expr));
    let v = kexpr(&init.expr, param);
    ALIASES.with(|m| {
        let mut m = m.borrow_mut();
        if v.contains(".unknown") {
            m.remove(&name);
        } else {
            m.insert(name, v);
        }
    });
    Some(())
}

/// Value returned once control enters this statement list (bindings made inside do not leak out).
fn eval_stmts<'a>(stmts: &'a [Stmt], param: &str, lets: &mut Vec<(String, &'a Expr)>) -> Option<Out<'a>> {
    let saved_aliases = ALIASES.with(|m| m.borrow().clone());
    let saved: Vec<(String, &'a Expr)> = lets.clone();
    let r = (|| {
        for (idx, st) in stmts.iter().enumerate() {
            let last = idx + 1 == stmts.len();
            match st {
                Stmt::Item(Item::Const(c)) => {
                    let v = kexpr(&c.expr, param);
                    ALIASES.with(|m| m.borrow_mut().insert(c.ident.to_string(), v));
                }
                Stmt::Local(l) => bind_local(l, param, lets)?,
                // `if C { …; return X; }` followed by more statements: the block has type `()` or `!`, so
                // whatever it yields is a returned value
                Stmt::Expr(Expr::If(i), _) if !last && i.else_branch.is_none() => {
                    let aliases = ALIASES.with(|m| m.borrow().clone());
                    let then_o = eval_stmts(&i.then_branch.stmts, param, lets)?;
                    let rest_o = eval_stmts(&stmts[idx + 1..], param, lets)?;
                    return Some(Out::Ite(&i.cond, aliases, Box::new(then_o), Box::new(rest_o)));
                }
                Stmt::Expr(e, _) if last => return eval_out(e, param, lets),
                _ => return None,
            }
        }
        None
    })();
    *lets = saved;
    ALIASES.with(|m| *m.borrow_mut() = saved_aliases);
    r
}

fn eval_out<'a>(e: &'a Expr, param: &str, lets: &mut Vec<(String, &'a Expr)>) -> Option<Out<'a>> {
    match e {
        Expr::Paren(p) => eval_out(&p.expr, param, lets),
        Expr::Group(g) => eval_out(&g.expr, param, lets),
        Expr::Unsafe(u) => eval_stmts(&u.block.stmts, param, lets),
        Expr::Block(b) if b.label.is_none() => eval_stmts(&b.block.stmts, param, lets),
        Expr::Return(r) => eval_out(r.expr.as_deref()?, param, lets),
        Expr::Path(_) if toks(e) == "None" => Some(Out::NoneV),
        Expr::If(i) => {
            let (_, els) = i.else_branch.as_ref()?;
            let aliases = ALIASES.with(|m| m.borrow().clone());
            let a = eval_stmts(&i.then_branch.stmts, param, lets)?;
            let b = eval_out(els, param, lets)?;
            Some(Out::Ite(&i.cond, aliases, Box::new(a), Box::new(b)))
        }
        // `match C { true => A, false => B }` (either arm may be `_`)
        Expr::Match(m) if m.arms.len() == 2 && m.arms.iter().all(|a| a.guard.is_none()) => {
            let pat = |a: &syn::Arm| -> String { toks(&a.pat) };
            let (p0, p1) = (pat(&m.arms[0]), pat(&m.arms[1]));
            let (t, f) = match (p0.as_str(), p1.as_str()) {
                ("true", "false") | ("true", "_") => (0, 1),
                ("false", "true") | ("false", "_") => (1, 0),
                _ => return None,
            };
            let aliases = ALIASES.with(|m| m.borrow().clone());
            let a = eval_out(&m.arms[t].body, param, lets)?;
            let b = eval_out(&m.arms[f].body, param, lets)?;
            Some(Out::Ite(&m.expr, aliases, Box::new(a), Box::new(b)))
        }
        _ => {
            let (backing, store) = some_self_key(e, &lets[..])?;
            Some(Out::SomeV(backing, kexpr(store, param)))
        }
    }
}

fn key_impl(imp: &syn::ItemImpl) -> KeyFacts {
    let name = toks(&imp.self_ty);
    let mut load = None;
    let mut tri = None;
    for it in &imp.items {
        if let ImplItem::Fn(f) = it {
            let fname = f.sig.ident.to_string();
            if fname == "into_usize" {
                // leading `let x = <expr>;` bindings are substituted
                ALIASES.with(|m| m.borrow_mut().clear());
                KEY_LOCALS.with(|m| m.borrow_mut().clear());
                let mut ok = true;
                let n = f.block.stmts.len();
                for (idx, st) in f.block.stmts.iter().enumerate() {
                    if idx + 1 == n {
                        break;
                    }
                    match st {
                        Stmt::Local(l) => {
                            let pat = match &l.pat {
                                syn::Pat::Type(pt) => &*pt.pat,
                                p => p,
                            };
                            match (pat, &l.init) {
                                // `let Self { key } = self;` / `let Self { key: k } = self;`
                                (syn::Pat::Struct(ps), Some(init))
                                    if toks(&ps.path) == "Self" && ps.fields.len() == 1 && ps.rest.is_none()
                                        && toks(&ps.fields[0].member) == "key" && toks(peel(&init.expr)) == "self" =>
                                {
                                    match &*ps.fields[0].pat {
                                        syn::Pat::Ident(pi) if pi.by_ref.is_none() && pi.subpat.is_none() => {
                                            KEY_LOCALS.with(|m| m.borrow_mut().push(pi.ident.to_string()));
                                        }
                                        _ => ok = false,
                                    }
                                }
                                (syn::Pat::Ident(pi), Some(init)) => {
                                    let v = kexpr(&init.expr, "self");
                                    ALIASES.with(|m| m.borrow_mut().insert(pi.ident.to_string(), v));
                                }
                                _ => ok = false,
                            }
                        }
                        _ => ok = false,
                    }
                }
                load = Some(match (ok, f.block.stmts.last()) {
                    (true, Some(Stmt::Expr(e, None))) => kexpr(peel(e), "self"),
                    _ => format!("(.unknown {})", lean::s(&toks(&f.block))),
                });
                ALIASES.with(|m| m.borrow_mut().clear());
                KEY_LOCALS.with(|m| m.borrow_mut().clear());
            } else if fname == "try_from_usize" {
                let param = f
                    .sig
                    .inputs
                    .iter()
                    .find_map(|a| match a {
                        syn::FnArg::Typed(t) => Some(toks(&t.pat)),
                        _ => None,
                    })
                    .unwrap_or_default();
                tri = Some((|| {
                    ALIASES.with(|m| m.borrow_mut().clear());
                    // the body is read as a decision tree (see `Out`): any mix of `if`/`else`, `match` on a
                    // comparison with `true`/`false` arms, early `return`, and local bindings in any block
                    let mut lets: Vec<(String, &Expr)> = Vec::new();
                    let out = eval_stmts(&f.block.stmts, &param, &mut lets)?;
                    // (success condition as (cmp, lhs, rhs), the `Some(..)` expression)
                    let norm = |c: &Expr, negate: bool| -> Option<(&'static str, String, String)> {
                        let Expr::Binary(b) = peel(c) else { return None };
                        let (l, r) = (kexpr(&b.left, &param), kexpr(&b.right, &param));
                        // success means: (negate ? !C : C), expressed with < or <=
                        Some(match (&b.op, negate) {
                            (syn::BinOp::Lt(_), false) => (".lt", l, r),
                            (syn::BinOp::Le(_), false) => (".le", l, r),
                            (syn::BinOp::Gt(_), false) => (".lt", r, l),
                            (syn::BinOp::Ge(_), false) => (".le", r, l),
                            (syn::BinOp::Lt(_), true) => (".le", r, l),
                            (syn::BinOp::Le(_), true) => (".lt", r, l),
                            (syn::BinOp::Gt(_), true) => (".le", l, r),
                            (syn::BinOp::Ge(_), true) => (".lt", l, r),
                            (syn::BinOp::Ne(_), false) | (syn::BinOp::Eq(_), true) => if r < l { (".ne", r, l) } else { (".ne", l, r) },
                            _ => return None,
                        })
                    };
                    // exactly one comparison decides between the one `Some(..)` and `None`
                    let Out::Ite(c, aliases, a, b) = out else { return None };
                    ALIASES.with(|m| *m.borrow_mut() = aliases);
                    let (cond, (backing, store)) = match (*a, *b) {
                        (Out::SomeV(bk, st), Out::NoneV) => (norm(c, false)?, (bk, st)),
                        (Out::NoneV, Out::SomeV(bk, st)) => (norm(c, true)?, (bk, st)),
                        _ => return None,
                    };
                    Some((backing, cond.0.to_string(), cond.1, cond.2, store))
                })());
            }
        }
    }
    match (load, tri) {
        (Some(load), Some(Some((backing, cmp, lhs, rhs, store)))) => KeyFacts { name, backing, cmp, lhs, rhs, store, load },
        _ => unknown_spec(&name, "unrecognised Key impl"),
    }
}

pub fn emit(src: &Path, out: &mut String) {
    let file = parse_file(&src.join("keys.rs"));
    let mut specs = Vec::new();
    for item in &file.items {
        if let Item::Impl(imp) = item {
            if imp.unsafety.is_some() {
                if let Some((_, path, _)) = &imp.trait_ {
                    if path.segments.last().map(|s| s.ident == "Key").unwrap_or(false) {
                        specs.push(key_impl(imp));
                    }
                }
            }
        }
    }
    // struct facts
    let struct_facts = |name: &str| -> (bool, bool, String) {
        for item in &file.items {
            if let Item::Struct(st) = item {
                if st.ident == name {
                    let mut derives = String::new();
                    let mut transparent = false;
                    for a in &st.attrs {
                        let t = toks(a);
                        if a.path().is_ident("derive") {
                            derives.push_str(&t);
                        }
                        if a.path().is_ident("repr") && t.contains("transparent") {
                            transparent = true;
                        }
                    }
                    let d = ["PartialEq", "Eq", "PartialOrd", "Ord"].iter().all(|w| {
                        derives.split(|c: char| !c.is_alphanumeric()).any(|x| x == *w)
                    });
                    let fields: Vec<String> = st.fields.iter().map(|f| format!("{}:{}", f.ident.as_ref().map(|i| i.to_string()).unwrap_or_default(), toks(&f.ty))).collect();
                    let one_field = fields.len() == 1 && fields[0].starts_with("key:");
                    let fty = st.fields.iter().next().map(|f| toks(&f.ty)).unwrap_or_default();
                    return (d && one_field, transparent, fty);
                }
            }
        }
        (false, false, String::new())
    };
    // Default impls: `Self::try_from_usize(N).unwrap()`
    let default_idx = |name: &str| -> Option<u128> {
        for item in &file.items {
            if let Item::Impl(imp) = item {
                if toks(&imp.self_ty) == name && imp.trait_.as_ref().map(|(_, p, _)| toks(p) == "Default").unwrap_or(false) {
                    for it in &imp.items {
                        if let ImplItem::Fn(f) = it {
                            if f.sig.ident == "default" {
                                let sq = |x: &str| -> String { x.chars().filter(|c| !c.is_whitespace()).collect() };
                                let mut t = match f.block.stmts.last() {
                                    Some(Stmt::Expr(e, None)) => sq(&toks(peel(e))),
                                    _ => String::new(),
                                };
                                // `let k = <call>; k.unwrap()` / `k.expect(..)`
                                for st in &f.block.stmts {
                                    if let Stmt::Local(l) = st {
                                        let pat = match &l.pat {
                                            syn::Pat::Type(pt) => &*pt.pat,
                                            p => p,
                                        };
                                        if let (syn::Pat::Ident(pi), Some(init)) = (pat, &l.init) {
                                            let name = pi.ident.to_string();
                                            if t == format!("{name}.unwrap()") || t.starts_with(&format!("{name}.expect(")) {
                                                t = format!("{}.unwrap()", sq(&toks(&*init.expr)));
                                            }
                                        }
                                    }
                                }
                                for pre in ["Self::try_from_usize(", "<SelfasKey>::try_from_usize(", "Key::try_from_usize("] {
                                    let post = ").unwrap()";
                                    if t.starts_with(pre) && t.ends_with(post) {
                                        return t[pre.len()..t.len() - post.len()].trim().parse().ok();
                                    }
                                }
                            }
                        }
                    }
                }
            }
        }
        None
    };
    // serde macro: definition must pass the raw value through; invocation lists `Key => NonZeroT`
    let mut serde_pairs: Vec<(String, String)> = Vec::new();
    let mut serde_body_ok = false;
    for item in &file.items {
        if let Item::Macro(m) = item {
            let t = toks(&m.mac.tokens);
            if m.ident.as_ref().map(|i| i == "impl_serde").unwrap_or(false) {
                // macro_rules! impl_serde { … }
                let sq: String = t.chars().filter(|c| !c.is_whitespace()).collect();
                // (the field may be a macro parameter: `self.$field`, `Self { $field: x }`)
                let sq = sq.replace("self.$field", "self.key").replace("Self{$field:inner}", "Self{key}").replace("Self{$field:key}", "Self{key}").replace("Ok(inner)=>Ok(Self{key})", "Ok(key)=>Ok(Self{key})").replace("letinner=", "letkey=").replace("Ok(Self{$field:inner})", "Ok(Self{key})");
                // the raw NonZero is handed to / taken from serde unchanged, in any of these spellings
                let ser = ["{self.key.serialize(serializer)}", "{letSelf{key}=self;Serialize::serialize(key,serializer)}",
                           "{Serialize::serialize(&self.key,serializer)}", "{letSelf{key}=self;key.serialize(serializer)}"];
                let de = ["{letkey=<$ty>::deserialize(deserializer)?;Ok(Self{key})}",
                          "{letkey=<$tyasDeserialize<'de>>::deserialize(deserializer)?;Ok(Self{key})}",
                          "{match<$tyasDeserialize<'de>>::deserialize(deserializer){Ok(key)=>Ok(Self{key}),Err(error)=>Err(error),}}",
                          "{match<$ty>::deserialize(deserializer){Ok(key)=>Ok(Self{key}),Err(error)=>Err(error),}}",
                          "{<$ty>::deserialize(deserializer).map(|key|Self{key})}"];
                serde_body_ok = ser.iter().any(|x| sq.contains(x)) && de.iter().any(|x| sq.contains(x));
            } else if toks(&m.mac.path) == "impl_serde" {
                for part in t.split(',') {
                    let kv: Vec<&str> = part.split("=>").map(|x| x.trim()).collect();
                    if kv.len() == 2 && !kv[0].is_empty() {
                        // `Spur => NonZeroU32` or `Spur . key => NonZeroU32`
                        let ty_name = kv[0].split('.').next().unwrap_or("").trim();
                        serde_pairs.push((ty_name.to_string(), kv[1].to_string()));
                    }
                }
            }
        }
    }

    let mut items = Vec::new();
    for k in &specs {
        let (derives, transparent, fty) = struct_facts(&k.name);
        let serde_raw = serde_body_ok && serde_pairs.iter().any(|(a, b)| *a == k.name && *b == fty);
        items.push(format!(
            "{{ name := {}, backing := {}, guardCmp := {}, guardLhs := {}, guardRhs := {},\n      store := {}, load := {},\n      defaultIdx := {}, derivesOrdEq := {}, reprTransparent := {}, serdeRaw := {} }}",
            lean::s(&k.name), k.backing, k.cmp, k.lhs, k.rhs, k.store, k.load,
            lean::opt_nat(default_idx(&k.name)), lean::boolean(derives), lean::boolean(transparent), lean::boolean(serde_raw)
        ));
    }
    out.push_str("/-- `unsafe impl Key` blocks of keys.rs, in source order. -/\n");
    out.push_str(&format!("def keySpecs : List KeySpec := {}\n\n", lean::list(&items)));
}

#[allow(dead_code)]
pub fn debug_macros(src: &Path) {
    let file = parse_file(&src.join("keys.rs"));
    for item in &file.items {
        if let Item::Macro(m) = item {
            eprintln!("MACRO ident={:?} path={} tokens={}", m.ident.as_ref().map(|i| i.to_string()), toks(&m.mac.path), &toks(&m.mac.tokens).chars().take(900).collect::<String>());
        }
    }
}
