//! `Rodeo::try_clone`, `try_clone_from` and their shared helper `clone_strings_into` as effect sequences in
//! evaluation order (the model's `Rodeo.tryClone` / `tryCloneFrom` mirror them): how the new arena is sized and
//! limited, that the target is cleared first and takes over the source's hasher, and the copy loop
//! (store, push, hash, probe, key check on the position, insert).

use crate::{lean, parse_file, toks};
use std::path::Path;
use syn::visit::Visit;
use syn::Expr;

fn squash(s: &str) -> String {
    s.chars().filter(|c| !c.is_whitespace()).collect()
}

struct V {
    out: Vec<String>,
    /// the slice being copied (`source` in the helper, `self.strings` / `source.strings` in the callers)
    loop_index: Vec<String>,
    /// locals bound to the total length of the source's strings (`required_capacity`)
    required: Vec<String>,
    /// locals bound to the plain sum of the lengths
    sums: Vec<String>,
    /// every `let <ident> = <expr>;` (squashed), for resolving hoisted arguments
    lets: std::collections::HashMap<String, String>,
}

/// `self.strings.iter()[.copied()].map(<len of the item>).sum[::<usize>]()`
fn is_sum_of_lengths(t: &str) -> bool {
    let Some(rest) = t.strip_prefix("self.strings.iter()") else { return false };
    let rest = rest.strip_prefix(".copied()").unwrap_or(rest);
    let Some(rest) = rest.strip_prefix(".map(") else { return false };
    let Some(close) = rest.find(").sum") else { return false };
    let f = &rest[..close];
    let tail = &rest[close + 1..];
    let f_ok = f == "str::len" || {
        // `|x|x.len()`
        let mut it = f.splitn(3, '|');
        matches!((it.next(), it.next(), it.next()), (Some(""), Some(b), Some(body)) if body == format!("{b}.len()"))
    };
    f_ok && (tail == ".sum::<usize>()" || tail == ".sum()")
}

impl V {
    fn push(&mut self, e: &str) {
        self.out.push(e.to_string());
    }
    fn other(&mut self, t: &str) {
        self.out.push(format!("(.other {})", lean::s(t)));
    }
}

impl<'ast> Visit<'ast> for V {
    fn visit_expr_closure(&mut self, _c: &'ast syn::ExprClosure) {}
    fn visit_local(&mut self, l: &'ast syn::Local) {
        let (pat, ty_ok) = match &l.pat {
            syn::Pat::Type(pt) => (&*pt.pat, true),
            p => (p, true),
        };
        // `let (a, b) = (x, y);`
        if let (syn::Pat::Tuple(pt), Some(init)) = (pat, &l.init) {
            if let Expr::Tuple(et) = &*init.expr {
                if pt.elems.len() == et.elems.len() {
                    for (p, e) in pt.elems.iter().zip(et.elems.iter()) {
                        if let syn::Pat::Ident(pi) = p {
                            self.lets.insert(pi.ident.to_string(), squash(&toks(e)));
                        }
                    }
                }
            }
        }
        if let (syn::Pat::Ident(pi), Some(init), true) = (pat, &l.init, ty_ok) {
            let name = pi.ident.to_string();
            let t = squash(&toks(&*init.expr));
            self.lets.insert(name.clone(), t.clone());
            if is_sum_of_lengths(&t) {
                self.sums.push(name);
                return;
            }
            // `NonZeroUsize::new(<sum>).unwrap_or(Capacity::default().bytes)`, also as a `match` on the Option
            let is_sum = |x: &str| is_sum_of_lengths(x) || self.sums.iter().any(|s| s == x);
            let default_ok = |d: &str| d == "Capacity::default().bytes" || d == "Capacity::default().bytes()";
            let mut required = false;
            if let Some(inner) = t.strip_prefix("NonZeroUsize::new(") {
                if let Some(pos) = inner.rfind(").unwrap_or(") {
                    let d = inner[pos + ").unwrap_or(".len()..].strip_suffix(')').unwrap_or("");
                    required = is_sum(&inner[..pos]) && default_ok(d);
                }
            }
            if let Expr::Match(m) = &*init.expr {
                let scrut = squash(&toks(&*m.expr));
                if let Some(inner) = scrut.strip_prefix("NonZeroUsize::new(").and_then(|x| x.strip_suffix(')')) {
                    if is_sum(inner) && m.arms.len() == 2 {
                        let arms: Vec<(String, String)> = m.arms.iter().map(|a| (squash(&toks(&a.pat)), squash(&toks(&*a.body)))).collect();
                        let some_ok = arms.iter().any(|(p, b)| p.strip_prefix("Some(").and_then(|x| x.strip_suffix(')')).map(|x| x == b).unwrap_or(false));
                        let none_ok = arms.iter().any(|(p, b)| p == "None" && default_ok(b));
                        required = some_ok && none_ok;
                    }
                }
            }
            if required {
                self.required.push(name);
                self.push(".sumLengths");
                return;
            }
        }
        syn::visit::visit_local(self, l);
    }
    fn visit_expr_for_loop(&mut self, f: &'ast syn::ExprForLoop) {
        let it = squash(&toks(&*f.expr));
        if it == "source.iter().enumerate()" {
            if let syn::Pat::Tuple(t) = &*f.pat {
                if let Some(syn::Pat::Ident(pi)) = t.elems.first() {
                    self.loop_index.push(pi.ident.to_string());
                }
            }
        } else {
            self.other(&format!("for over {it}"));
        }
        self.push(".loopBegin");
        self.visit_block(&f.body);
        self.push(".loopEnd");
    }
    fn visit_expr_return(&mut self, r: &'ast syn::ExprReturn) {
        let t = r.expr.as_ref().map(|e| squash(&toks(&**e))).unwrap_or_default();
        self.other(&format!("return {t}"));
    }
    fn visit_expr_try(&mut self, t: &'ast syn::ExprTry) {
        syn::visit::visit_expr_try(self, t);
        match &*t.expr {
            Expr::MethodCall(m) if m.method == "ok_or_else" || m.method == "ok_or" => self.push(".reject"),
            _ => self.push(".propagate"),
        }
    }
    fn visit_expr_assign(&mut self, a: &'ast syn::ExprAssign) {
        let t = squash(&toks(a));
        if t == "self.hasher=source.hasher.clone()" {
            self.push(".takeHasher");
        } else {
            syn::visit::visit_expr_assign(self, a);
            self.other(&t);
        }
    }
    fn visit_expr_call(&mut self, c: &'ast syn::ExprCall) {
        syn::visit::visit_expr_call(self, c);
        let f = squash(&toks(&*c.func));
        if f.ends_with("::try_from_usize") && !crate::is_own_key_check(&f) {
            self.other(&format!("key check on another type: {f}"));
        } else if f.ends_with("::try_from_usize") && c.args.len() == 1 {
            let a = squash(&toks(&c.args[0]));
            self.out.push(format!("(.keyCheck {})", if self.loop_index.contains(&a) { ".loopIndex" } else { ".other" }));
        } else if f == "Arena::new" && c.args.len() == 2 {
            let b = squash(&toks(&c.args[0]));
            let mut m = squash(&toks(&c.args[1]));
            // a limit that was hoisted into a local
            for _ in 0..3 {
                if let Some(init) = self.lets.get(&m) {
                    m = init.clone();
                }
            }
            let ok = self.required.iter().any(|r| {
                b == *r
                    && (m == format!("max(self.arena.max_memory_usage,{r}.get())")
                        || m == format!("max({r}.get(),self.arena.max_memory_usage)")
                        || m == format!("self.arena.max_memory_usage.max({r}.get())")
                        || m == format!("core::cmp::max(self.arena.max_memory_usage,{r}.get())"))
            });
            if ok {
                self.push(".arenaSizedToContent");
            } else {
                self.other(&format!("Arena::new({b},{m})"));
            }
        } else if f == "clone_strings_into" {
            self.push(".copyAll");
        } else if f == "get_string_entry_mut" {
            self.push(".probe");
        } else if f == "insert_string" {
            self.push(".tableInsert");
        } else if f.ends_with("::with_capacity") || f.ends_with("::with_capacity_and_hasher") {
            let mut a = c.args.first().map(|a| squash(&toks(a))).unwrap_or_default();
            for _ in 0..3 {
                if let Some(init) = self.lets.get(&a) {
                    a = init.clone();
                }
            }
            if a == "self.strings.len()" || a == "self.map.len()" {
                self.push(".presizeExact");
            } else {
                self.other(&format!("{f}({a})"));
            }
        } else if crate::hashes::is_hash_helper(&f) {
            self.push(".hashOne");
        }
    }
    fn visit_expr_method_call(&mut self, m: &'ast syn::ExprMethodCall) {
        syn::visit::visit_expr_method_call(self, m);
        let recv = squash(&toks(&*m.receiver));
        let name = m.method.to_string();
        match (recv.as_str(), name.as_str()) {
            // (whatever the arena / vector parameters are called)
            (_, "store_str") => self.push(".store"),
            (r, "push") if !r.starts_with("self.") => self.push(".stringsPush"),
            (_, "hash_one") => self.push(".hashOne"),
            ("self", "clear") => self.push(".clearTarget"),
            ("self.hasher", "clone") => self.push(".cloneHasher"),
            ("self.strings", "try_reserve") | ("self.map.raw_table_mut()", "try_reserve") => self.push(".reserve"),
            ("self.strings" | "self.map" | "self.arena" | "strings" | "map" | "arena", "clear" | "push" | "insert" | "remove" | "truncate" | "drain" | "retain" | "extend") => {
                self.other(&format!("{recv}.{name}"))
            }
            _ => {}
        }
    }
}

fn effects(file: &syn::File, name: &str) -> Vec<String> {
    let mut found: Option<&syn::Block> = None;
    for item in &file.items {
        match item {
            syn::Item::Fn(f) if f.sig.ident == name => found = Some(&f.block),
            syn::Item::Impl(im) if im.trait_.is_none() && squash(&toks(&*im.self_ty)).starts_with("Rodeo<") => {
                for it in &im.items {
                    if let syn::ImplItem::Fn(f) = it {
                        if f.sig.ident == name {
                            found = Some(&f.block);
                        }
                    }
                }
            }
            _ => {}
        }
    }
    match found {
        Some(b) => {
            let mut v = V { out: Vec::new(), loop_index: Vec::new(), required: Vec::new(), sums: Vec::new(), lets: Default::default() };
            v.visit_block(b);
            // `copy(..)?; Ok(())` and returning `copy(..)` as the function's value are the same thing
            if let Some(syn::Stmt::Expr(Expr::Call(c), None)) = b.stmts.last() {
                if squash(&toks(&*c.func)) == "clone_strings_into" && v.out.last().map(|e| e == ".copyAll").unwrap_or(false) {
                    v.out.push(".propagate".into());
                }
            }
            v.out
        }
        None => vec!["(.other \"function not found\")".into()],
    }
}

pub fn emit(src: &Path, out: &mut String) {
    let path = src.join("rodeo.rs");
    if !path.exists() {
        return;
    }
    let file = parse_file(&path);
    for (def, name) in [("cloneCopyEffects", "clone_strings_into"), ("tryCloneEffects", "try_clone"), ("tryCloneFromEffects", "try_clone_from")] {
        out.push_str(&format!("/-- Effects of `{name}` (rodeo.rs), in evaluation order. -/\n"));
        out.push_str(&format!("def {def} : List CEffect := {}\n\n", lean::list_inline(&effects(&file, name))));
    }
}
