//! Census of conditional compilation in the library (outside test modules and verification hooks).
//!
//! The harness builds the crate with `multi-threaded,serialize`; the pinned suite uses default features.
//! Model and theorems are about one body of code, so code that differs between feature configurations is
//! outside them.  Today the only gates are import blocks (`compile! { if #[feature ..] { use ..; } }`), whole
//! serde impls (`#[cfg(feature = "serialize")]`) and optional-dependency impls; none sits inside a function
//! body.  Anything else is reported as `.other` (item level) or listed in `bodyGates`.

use crate::{lean, toks};
use std::path::Path;
use syn::visit::Visit;

fn squash(s: &str) -> String {
    s.chars().filter(|c| !c.is_whitespace()).collect()
}

fn cfg_of(attrs: &[syn::Attribute]) -> Vec<String> {
    attrs
        .iter()
        .filter(|a| a.path().is_ident("cfg"))
        .map(|a| squash(&toks(a)))
        .collect()
}

fn is_test_or_hook(c: &str) -> bool {
    c.contains("cfg(test)") || c.contains("lasso_verif") || c == "#[cfg(miri)]" || c == "#[cfg(not(miri))]"
}

struct Body {
    file: String,
    func: String,
    out: Vec<String>,
}

impl Body {
    fn note(&mut self, what: &str) {
        // `Debug` output is not modelled
        if self.func == "fmt" {
            return;
        }
        self.out.push(lean::s(&format!("{}::{}: {}", self.file, self.func, what)));
    }
    fn attrs(&mut self, attrs: &[syn::Attribute]) {
        for c in cfg_of(attrs) {
            if !is_test_or_hook(&c) {
                self.note(&c);
            }
        }
    }
}

impl<'ast> Visit<'ast> for Body {
    fn visit_local(&mut self, l: &'ast syn::Local) {
        self.attrs(&l.attrs);
        syn::visit::visit_local(self, l);
    }
    fn visit_stmt_macro(&mut self, m: &'ast syn::StmtMacro) {
        self.attrs(&m.attrs);
        let p = squash(&toks(&m.mac.path));
        if p == "compile" || p == "cfg" || p == "cfg_if" || p.ends_with("::cfg_if") {
            self.note(&format!("{p}!"));
        }
        syn::visit::visit_stmt_macro(self, m);
    }
    fn visit_expr_macro(&mut self, m: &'ast syn::ExprMacro) {
        let p = squash(&toks(&m.mac.path));
        let arg = squash(&m.mac.tokens.to_string());
        if (p == "compile" || p == "cfg" || p == "cfg_if" || p.ends_with("::cfg_if")) && !(p == "cfg" && arg == "debug_assertions") {
            self.note(&format!("{p}!({arg})"));
        }
        syn::visit::visit_expr_macro(self, m);
    }
    fn visit_expr_block(&mut self, b: &'ast syn::ExprBlock) {
        self.attrs(&b.attrs);
        syn::visit::visit_expr_block(self, b);
    }
    fn visit_expr_if(&mut self, i: &'ast syn::ExprIf) {
        self.attrs(&i.attrs);
        syn::visit::visit_expr_if(self, i);
    }
    fn visit_expr_call(&mut self, c: &'ast syn::ExprCall) {
        self.attrs(&c.attrs);
        syn::visit::visit_expr_call(self, c);
    }
    fn visit_expr_method_call(&mut self, c: &'ast syn::ExprMethodCall) {
        self.attrs(&c.attrs);
        syn::visit::visit_expr_method_call(self, c);
    }
    fn visit_arm(&mut self, a: &'ast syn::Arm) {
        self.attrs(&a.attrs);
        syn::visit::visit_arm(self, a);
    }
    fn visit_field_value(&mut self, f: &'ast syn::FieldValue) {
        self.attrs(&f.attrs);
        syn::visit::visit_field_value(self, f);
    }
}

fn classify_item_gate(cfgs: &[String], item: &syn::Item) -> Option<&'static str> {
    let c: Vec<&String> = cfgs.iter().filter(|c| !is_test_or_hook(c)).collect();
    if c.is_empty() {
        return None;
    }
    let all = c.iter().map(|s| s.as_str()).collect::<Vec<_>>().join(" ");
    let serde_item = match item {
        syn::Item::Impl(im) => im
            .trait_
            .as_ref()
            .and_then(|(_, p, _)| p.segments.last().map(|s| s.ident == "Serialize" || s.ident == "Deserialize"))
            .unwrap_or(false),
        syn::Item::Use(_) => true,
        _ => false,
    };
    if matches!(item, syn::Item::Mod(m) if m.content.is_none()) {
        return Some(".moduleDecl");
    }
    if matches!(item, syn::Item::Impl(im) if im.items.is_empty()) {
        return Some(".emptyImpl");
    }
    if all == "#[cfg(feature=\"serialize\")]" && serde_item {
        Some(".serdeImpl")
    } else if matches!(item, syn::Item::Use(_) | syn::Item::ExternCrate(_)) {
        Some(".imports")
    } else if (all.contains("deepsize") || all.contains("abomonation")) && !all.contains("multi-threaded") {
        Some(".optionalDep")
    } else {
        Some(".other")
    }
}

/// `compile! { if #[..] { items } else if #[..] { items } else { items } }`: are all the items imports?
fn compile_block_is_imports(tokens: &proc_macro2::TokenStream) -> bool {
    fn groups(ts: &proc_macro2::TokenStream, out: &mut Vec<proc_macro2::TokenStream>) {
        for t in ts.clone() {
            if let proc_macro2::TokenTree::Group(g) = t {
                if g.delimiter() == proc_macro2::Delimiter::Brace {
                    out.push(g.stream());
                }
            }
        }
    }
    let mut gs = Vec::new();
    groups(tokens, &mut gs);
    if gs.is_empty() {
        return false;
    }
    for g in gs {
        match syn::parse2::<syn::File>(g.clone()) {
            Ok(f) => {
                // a nested `compile!` made of imports is fine as well
                for it in &f.items {
                    match it {
                        syn::Item::Use(_) | syn::Item::ExternCrate(_) => {}
                        syn::Item::Macro(m) if squash(&toks(&m.mac.path)) == "compile" && compile_block_is_imports(&m.mac.tokens) => {}
                        _ => return false,
                    }
                }
            }
            Err(_) => return false,
        }
    }
    true
}

fn walk_items(file: &str, items: &[syn::Item], gates: &mut Vec<String>, body: &mut Vec<String>) {
    for item in items {
        // skip test modules and hook items altogether
        let attrs: &[syn::Attribute] = match item {
            syn::Item::Mod(m) => &m.attrs,
            syn::Item::Impl(i) => &i.attrs,
            syn::Item::Fn(f) => &f.attrs,
            syn::Item::Struct(s) => &s.attrs,
            syn::Item::Enum(e) => &e.attrs,
            syn::Item::Use(u) => &u.attrs,
            syn::Item::Macro(m) => &m.attrs,
            syn::Item::Trait(t) => &t.attrs,
            syn::Item::Const(c) => &c.attrs,
            syn::Item::Static(s) => &s.attrs,
            syn::Item::Type(t) => &t.attrs,
            syn::Item::ExternCrate(e) => &e.attrs,
            _ => &[],
        };
        let cfgs = cfg_of(attrs);
        if cfgs.iter().any(|c| c.contains("cfg(test)") || c.contains("lasso_verif") || c.contains("all(test")) {
            continue;
        }
        if let syn::Item::Mod(m) = item {
            if m.ident == "tests" || m.ident == "test" {
                continue;
            }
        }
        if let Some(kind) = classify_item_gate(&cfgs, item) {
            gates.push(format!("{{ file := {}, kind := {kind}, text := {} }}", lean::s(file), lean::s(&cfgs.join(" "))));
        }
        match item {
            syn::Item::Macro(m) => {
                let p = squash(&toks(&m.mac.path));
                if p == "compile" {
                    let kind = if compile_block_is_imports(&m.mac.tokens) { ".imports" } else { ".other" };
                    gates.push(format!("{{ file := {}, kind := {kind}, text := {} }}", lean::s(file), lean::s("compile!")));
                } else if p == "cfg_if" || p.ends_with("::cfg_if") {
                    gates.push(format!("{{ file := {}, kind := .other, text := {} }}", lean::s(file), lean::s("cfg_if!")));
                }
            }
            syn::Item::Mod(m) => {
                if let Some((_, inner)) = &m.content {
                    walk_items(file, inner, gates, body);
                }
            }
            syn::Item::Fn(f) => {
                let mut b = Body { file: file.to_string(), func: f.sig.ident.to_string(), out: Vec::new() };
                b.visit_block(&f.block);
                body.extend(b.out);
            }
            syn::Item::Impl(im) => {
                for it in &im.items {
                    match it {
                        syn::ImplItem::Fn(f) => {
                            let fc = cfg_of(&f.attrs);
                            if fc.iter().any(|c| c.contains("lasso_verif") || c.contains("cfg(test)")) {
                                continue;
                            }
                            for c in fc.iter().filter(|c| !is_test_or_hook(c)) {
                                gates.push(format!("{{ file := {}, kind := .other, text := {} }}", lean::s(file), lean::s(&format!("fn {}: {c}", f.sig.ident))));
                            }
                            let mut b = Body { file: file.to_string(), func: f.sig.ident.to_string(), out: Vec::new() };
                            b.visit_block(&f.block);
                            body.extend(b.out);
                        }
                        syn::ImplItem::Macro(m) => {
                            let p = squash(&toks(&m.mac.path));
                            if p == "compile" || p == "cfg_if" {
                                gates.push(format!("{{ file := {}, kind := .other, text := {} }}", lean::s(file), lean::s(&format!("{p}! inside an impl"))));
                            }
                        }
                        _ => {}
                    }
                }
            }
            _ => {}
        }
    }
}

pub fn emit(src: &Path, out: &mut String) {
    let mut gates = Vec::new();
    let mut body = Vec::new();
    let files = [
        "rodeo.rs", "threaded_rodeo.rs", "reader.rs", "resolver.rs", "util.rs", "arenas/mod.rs", "arenas/single_threaded.rs",
        "arenas/bucket.rs", "arenas/lockfree.rs", "arenas/atomic_bucket.rs", "interface/mod.rs", "interface/boxed.rs",
        "interface/rodeo.rs", "interface/rodeo_reader.rs", "interface/rodeo_resolver.rs", "interface/threaded_ref.rs",
        "interface/threaded_rodeo.rs",
    ];
    for f in files {
        let path = src.join(f);
        if !path.exists() {
            continue;
        }
        let parsed = crate::parse_file(&path);
        walk_items(f, &parsed.items, &mut gates, &mut body);
    }
    out.push_str("/-- Conditional compilation at item level (outside tests and hooks), classified. -/\n");
    out.push_str(&format!("def cfgGates : List CfgGate := {}\n\n", lean::list(&gates)));
    out.push_str("/-- Conditional compilation inside function bodies (outside tests and hooks): there is none. -/\n");
    out.push_str(&format!("def bodyGates : List String := {}\n\n", lean::list(&body)));
}
