//! `Extend::extend` and `FromIterator::from_iter` of both interners, statement by statement (C17: "building from
//! an iterator and extending equal the explicit sequence of intern calls").
//!
//! The model's `Rodeo.extend` / `fromIter` (and the `Threaded` ones) are: build an interner with the default byte
//! capacity and no limit (the size hint only pre-sizes the tables), then `get_or_intern` every item in order, and
//! return it.  Statements that only compute locals (the iterator, the size hint, the capacity) are `.pure`; the
//! loop may be a `for`, a `while let Some(x) = it.next()`, a `loop { match it.next() { .. } }` or a `for_each`;
//! anything else - an early `return`, a condition around the intern call, another call on the interner - is `.other`.

use crate::{lean, parse_file, toks};
use std::collections::HashMap;
use std::path::Path;
use syn::{Expr, Stmt};

fn squash(s: &str) -> String {
    s.chars().filter(|c| !c.is_whitespace()).collect()
}

struct W {
    out: Vec<String>,
    lets: HashMap<String, String>,
    /// the object being filled: `self` (extend) or the local built by the constructor call (from_iter)
    target: Option<String>,
    /// names of the iterator (the parameter and locals bound to `<it>.into_iter()`)
    iters: Vec<String>,
    /// other names of the target (`let interner: &Self = self;`)
    target_alias: Vec<String>,
    /// inside the loop: locals bound to `<item>.as_ref()`
    item_refs: Vec<String>,
}

fn mentions(t: &str, name: &str) -> bool {
    // identifier-wise
    let mut cur = String::new();
    for ch in t.chars().chain(std::iter::once(' ')) {
        if ch.is_alphanumeric() || ch == '_' {
            cur.push(ch);
        } else {
            if cur == name {
                return true;
            }
            cur.clear();
        }
    }
    false
}

impl W {
    fn other(&mut self, t: &str) {
        self.out.push(format!("(.other {})", lean::s(t)));
    }
    fn resolve(&self, e: &str) -> String {
        let mut e = e.to_string();
        for _ in 0..4 {
            match self.lets.get(&e) {
                Some(v) => e = v.clone(),
                None => break,
            }
        }
        e
    }
    fn is_iter(&self, e: &str) -> bool {
        let e = e.strip_suffix(".into_iter()").unwrap_or(e);
        let e = e.strip_prefix("&mut").unwrap_or(e);
        self.iters.iter().any(|i| i == e)
    }
    fn is_target(&self, e: &str) -> bool {
        let e = e.strip_prefix("&mut").or_else(|| e.strip_prefix('&')).unwrap_or(e);
        Some(e) == self.target.as_deref() || self.target_alias.iter().any(|a| a == e)
    }
    fn is_item_ref(&self, arg: &str, v: &str) -> bool {
        arg == format!("{v}.as_ref()") || arg == format!("AsRef::<str>::as_ref(&{v})") || arg == format!("AsRef::as_ref(&{v})") || self.item_refs.iter().any(|r| r == arg)
    }
    fn default_hasher(h: &str) -> bool {
        matches!(h, "Default::default()" | "S::default()" | "<S>::default()" | "<SasDefault>::default()" | "<SasDefault>::default()" | "<Sascore::default::Default>::default()")
    }
    fn build(&mut self, init: &str) -> Option<&'static str> {
        let call = init.strip_prefix("Self::").or_else(|| init.strip_prefix("Rodeo::")).or_else(|| init.strip_prefix("ThreadedRodeo::"))?;
        if call == "new()" || call == "default()" {
            return Some(".buildDefault");
        }
        let args = call.strip_prefix("with_capacity_and_hasher(")?.strip_suffix(')')?;
        // split at the top-level comma
        let mut depth = 0i32;
        let mut cut = None;
        for (i, ch) in args.char_indices() {
            match ch {
                '(' | '<' | '[' => depth += 1,
                ')' | '>' | ']' => depth -= 1,
                ',' if depth == 0 && cut.is_none() => cut = Some(i),
                _ => {}
            }
        }
        let cut = cut?;
        let cap = self.resolve(args[..cut].trim());
        let hasher = args[cut + 1..].trim().trim_end_matches(',').to_string();
        let hasher = self.resolve(&hasher);
        if cap.starts_with("Capacity::for_strings(") && Self::default_hasher(&hasher) {
            Some(".buildWithHint")
        } else {
            None
        }
    }
    fn stmt(&mut self, s: &Stmt, in_loop: Option<&str>) {
        match s {
            Stmt::Local(l) => {
                let pat = match &l.pat {
                    syn::Pat::Type(pt) => &*pt.pat,
                    p => p,
                };
                let init = l.init.as_ref().map(|i| squash(&toks(&*i.expr))).unwrap_or_default();
                let whole = squash(&toks(s));
                if l.init.as_ref().map(|i| i.diverge.is_some()).unwrap_or(false) || init.contains("return") || init.contains('?') {
                    return self.other(&whole);
                }
                if let syn::Pat::Ident(pi) = pat {
                    let name = pi.ident.to_string();
                    if let Some(v) = in_loop {
                        // `let s: &str = item.as_ref();`
                        if self.is_item_ref(&init, v) && !self.item_refs.contains(&init) {
                            self.item_refs.push(name);
                            self.out.push(".pure".into());
                            return;
                        }
                    } else if self.target.is_some() && self.is_target(&init) {
                        // `let interner: &Self = self;`
                        self.target_alias.push(name);
                        self.out.push(".pure".into());
                        return;
                    }
                    if let Some(b) = self.build(&init) {
                        if self.target.is_none() {
                            self.target = Some(name);
                            self.out.push(b.into());
                            return;
                        }
                        return self.other(&whole);
                    }
                    if in_loop.is_some() || self.target.as_deref().map(|t| mentions(&init, t)).unwrap_or(false) {
                        return self.other(&whole);
                    }
                    if self.is_iter(&init) && init.ends_with(".into_iter()") {
                        self.iters.push(name.clone());
                    }
                    self.lets.insert(name, init);
                    self.out.push(".pure".into());
                } else if in_loop.is_none() && !self.target.as_deref().map(|t| mentions(&init, t)).unwrap_or(false) {
                    // `let (lower, upper) = iter.size_hint();`
                    self.out.push(".pure".into());
                } else {
                    self.other(&whole);
                }
            }
            Stmt::Expr(e, semi) => self.expr(e, in_loop, semi.is_none()),
            Stmt::Macro(m) => {
                if !squash(&toks(&m.mac.path)).starts_with("debug_assert") {
                    self.other(&squash(&toks(s)));
                }
            }
            Stmt::Item(_) => self.other(&squash(&toks(s))),
        }
    }
    fn body(&mut self, stmts: &[Stmt], var: &str) {
        self.out.push(".loopBegin".into());
        self.item_refs.clear();
        for s in stmts {
            self.stmt(s, Some(var));
        }
        self.out.push(".loopEnd".into());
    }
    fn expr(&mut self, e: &Expr, in_loop: Option<&str>, is_tail: bool) {
        let t = squash(&toks(e));
        match e {
            Expr::ForLoop(f) if in_loop.is_none() => {
                let it = squash(&toks(&*f.expr));
                match &*f.pat {
                    syn::Pat::Ident(pi) if self.is_iter(&it) => {
                        let v = pi.ident.to_string();
                        self.body(&f.body.stmts, &v);
                    }
                    _ => self.other(&format!("for over {it}")),
                }
            }
            Expr::While(w) if in_loop.is_none() => {
                let c = squash(&toks(&*w.cond));
                let var = c.strip_prefix("letSome(").and_then(|r| r.split_once(")=")).and_then(|(v, call)| {
                    let it = call.strip_suffix(".next()")?;
                    if self.is_iter(it) {
                        Some(v.to_string())
                    } else {
                        None
                    }
                });
                match var {
                    Some(v) => self.body(&w.body.stmts, &v),
                    None => self.other(&format!("while {c}")),
                }
            }
            Expr::Loop(l) if in_loop.is_none() => {
                // `loop { match it.next() { Some(x) => { .. } None => break } }`
                let mut done = false;
                if let [Stmt::Expr(Expr::Match(m), _)] = l.body.stmts.as_slice() {
                    let scrut = squash(&toks(&*m.expr));
                    if scrut.strip_suffix(".next()").map(|it| self.is_iter(it)).unwrap_or(false) && m.arms.len() == 2 {
                        let some = m.arms.iter().find(|a| squash(&toks(&a.pat)).starts_with("Some("));
                        let none = m.arms.iter().find(|a| squash(&toks(&a.pat)) == "None" && squash(&toks(&*a.body)).trim_end_matches(',') == "break");
                        if let (Some(sa), Some(_)) = (some, none) {
                            let v = squash(&toks(&sa.pat));
                            let v = v.trim_start_matches("Some(").trim_end_matches(')').to_string();
                            let stmts: Vec<Stmt> = match &*sa.body {
                                Expr::Block(b) => b.block.stmts.clone(),
                                other => vec![Stmt::Expr(other.clone(), Some(Default::default()))],
                            };
                            self.body(&stmts, &v);
                            done = true;
                        }
                    }
                }
                if !done {
                    self.other("loop");
                }
            }
            Expr::MethodCall(m) if in_loop.is_none() && m.method == "for_each" && self.is_iter(&squash(&toks(&*m.receiver))) => {
                if let Some(Expr::Closure(c)) = m.args.first() {
                    if let Some(syn::Pat::Ident(pi)) = c.inputs.first() {
                        let v = pi.ident.to_string();
                        let stmts: Vec<Stmt> = match &*c.body {
                            Expr::Block(b) => b.block.stmts.clone(),
                            other => vec![Stmt::Expr(other.clone(), Some(Default::default()))],
                        };
                        return self.body(&stmts, &v);
                    }
                }
                self.other(&t);
            }
            Expr::MethodCall(m) if in_loop.is_some() && m.method == "get_or_intern" => {
                let recv = squash(&toks(&*m.receiver));
                let arg = m.args.first().map(|a| squash(&toks(a))).unwrap_or_default();
                let v = in_loop.unwrap();
                let recv_ok = self.is_target(&recv);
                let arg_ok = self.is_item_ref(&arg, v);
                if recv_ok && arg_ok && m.args.len() == 1 {
                    self.out.push(".internItem".into());
                } else {
                    self.other(&t);
                }
            }
            Expr::Call(c) if in_loop.is_some() && c.args.len() == 2 && {
                let f = squash(&toks(&*c.func));
                matches!(f.as_str(), "Self::get_or_intern" | "Rodeo::get_or_intern" | "ThreadedRodeo::get_or_intern" | "Rodeo::<K,S>::get_or_intern" | "ThreadedRodeo::<K,S>::get_or_intern")
            } =>
            {
                let v = in_loop.unwrap();
                let recv = squash(&toks(&c.args[0]));
                let arg = squash(&toks(&c.args[1]));
                if self.is_target(&recv) && self.is_item_ref(&arg, v) {
                    self.out.push(".internItem".into());
                } else {
                    self.other(&t);
                }
            }
            Expr::Path(_) if in_loop.is_none() && is_tail && Some(t.as_str()) == self.target.as_deref() && t != "self" => {
                self.out.push(".returnBuilt".into());
            }
            Expr::Let(_) | Expr::Assign(_) => self.other(&t),
            _ => self.other(&t),
        }
    }
}

fn find_trait_fn<'a>(file: &'a syn::File, owner: &str, trait_: &str, name: &str) -> Option<&'a syn::ImplItemFn> {
    for item in &file.items {
        if let syn::Item::Impl(im) = item {
            let o = squash(&toks(&*im.self_ty));
            let t = im.trait_.as_ref().and_then(|(_, p, _)| p.segments.last().map(|s| s.ident.to_string()));
            if o.split('<').next() != Some(owner) || t.as_deref() != Some(trait_) {
                continue;
            }
            for it in &im.items {
                if let syn::ImplItem::Fn(f) = it {
                    if f.sig.ident == name {
                        return Some(f);
                    }
                }
            }
        }
    }
    None
}

fn effects(file: &syn::File, owner: &str, trait_: &str, name: &str) -> Vec<String> {
    let Some(f) = find_trait_fn(file, owner, trait_, name) else { return vec!["(.other \"impl not found\")".into()] };
    // the iterator parameter: the one typed by the generic with the `IntoIterator` bound (the only non-self one)
    let mut iters = Vec::new();
    for a in &f.sig.inputs {
        if let syn::FnArg::Typed(pt) = a {
            if let syn::Pat::Ident(pi) = &*pt.pat {
                iters.push(pi.ident.to_string());
            }
        }
    }
    let mut w = W { out: Vec::new(), lets: HashMap::new(), target: if name == "extend" { Some("self".into()) } else { None }, iters, target_alias: Vec::new(), item_refs: Vec::new() };
    let n = f.block.stmts.len();
    for (i, s) in f.block.stmts.iter().enumerate() {
        let _ = (i, n);
        w.stmt(s, None);
    }
    w.out
}

pub fn emit(src: &Path, out: &mut String) {
    for (file, owner, prefix) in [("rodeo.rs", "Rodeo", "rodeo"), ("threaded_rodeo.rs", "ThreadedRodeo", "threaded")] {
        let path = src.join(file);
        if !path.exists() {
            continue;
        }
        let parsed = parse_file(&path);
        out.push_str(&format!("/-- `Extend::extend` / `FromIterator::from_iter` of `{owner}`, statement by statement. -/\n"));
        out.push_str(&format!("def {prefix}ExtendEffects : List CollEffect := {}\n", lean::list_inline(&effects(&parsed, owner, "Extend", "extend"))));
        out.push_str(&format!("def {prefix}FromIterEffects : List CollEffect := {}\n\n", lean::list_inline(&effects(&parsed, owner, "FromIterator", "from_iter"))));
    }
}
