//! Every method of `RodeoReader` / `RodeoResolver` (inherent impls and the trait impls of the interface layer):
//! its receiver and which fields of `self` it touches.  The views' queries are supposed to be pure reads of
//! `map`, `hasher` and `strings`; the arena - the only part of a view that has interior mutability when the
//! view came from the concurrent interner - must be touched by nothing but the consuming conversion.

use crate::{lean, parse_file, toks};
use std::path::Path;
use syn::visit::Visit;

fn squash(s: &str) -> String {
    s.chars().filter(|c| !c.is_whitespace()).collect()
}

struct F {
    fields: Vec<String>,
    other_self_use: bool,
}

impl<'ast> Visit<'ast> for F {
    fn visit_expr_field(&mut self, f: &'ast syn::ExprField) {
        if squash(&toks(&*f.base)) == "self" {
            let m = squash(&toks(&f.member));
            let l = match m.as_str() {
                "map" => ".map",
                "hasher" => ".hasher",
                "strings" => ".strings",
                "__arena" | "arena" => ".arena",
                "__key" => return,
                _ => {
                    self.other_self_use = true;
                    return;
                }
            };
            if !self.fields.contains(&l.to_string()) {
                self.fields.push(l.to_string());
            }
            return;
        }
        syn::visit::visit_expr_field(self, f);
    }
    fn visit_pat_struct(&mut self, p: &'ast syn::PatStruct) {
        // `let RodeoReader { strings, __arena, .. } = self;`
        for fp in &p.fields {
            let m = squash(&toks(&fp.member));
            let l = match m.as_str() {
                "map" => ".map",
                "hasher" => ".hasher",
                "strings" => ".strings",
                "__arena" | "arena" => ".arena",
                _ => continue,
            };
            if !matches!(&*fp.pat, syn::Pat::Wild(_)) && !self.fields.contains(&l.to_string()) {
                self.fields.push(l.to_string());
            }
        }
        syn::visit::visit_pat_struct(self, p);
    }
}

pub fn emit(src: &Path, out: &mut String) {
    let mut rows = Vec::new();
    for (file, prefix, owner) in [
        ("reader.rs", "RodeoReader<", ".reader"),
        ("resolver.rs", "RodeoResolver<", ".resolver"),
        ("interface/rodeo_reader.rs", "RodeoReader<", ".reader"),
        ("interface/rodeo_resolver.rs", "RodeoResolver<", ".resolver"),
    ] {
        let path = src.join(file);
        if !path.exists() {
            continue;
        }
        let parsed = parse_file(&path);
        for item in &parsed.items {
            let syn::Item::Impl(im) = item else { continue };
            if !squash(&toks(&*im.self_ty)).starts_with(prefix) {
                continue;
            }
            if im.attrs.iter().any(|a| squash(&toks(a)).contains("lasso_verif")) {
                continue;
            }
            let tr = im.trait_.as_ref().map(|(_, p, _)| p.segments.last().map(|s| s.ident.to_string()).unwrap_or_default()).unwrap_or_default();
            if matches!(tr.as_str(), "Debug" | "Serialize" | "Deserialize" | "Send" | "Sync") {
                continue;
            }
            for it in &im.items {
                let syn::ImplItem::Fn(f) = it else { continue };
                let recv = match f.sig.receiver() {
                    Some(r) if r.reference.is_some() && r.mutability.is_some() => ".refMut",
                    Some(r) if r.reference.is_some() => ".ref",
                    Some(r) => {
                        let t = squash(&toks(&*r.ty));
                        if t.starts_with("Box<") { ".boxSelf" } else { ".val" }
                    }
                    None => ".none",
                };
                let mut v = F { fields: Vec::new(), other_self_use: false };
                v.visit_block(&f.block);
                v.fields.sort();
                rows.push(format!(
                    "{{ owner := {owner}, trait_ := {}, name := {}, recv := {recv}, fields := {}, unknownField := {} }}",
                    lean::s(&tr),
                    lean::s(&f.sig.ident.to_string()),
                    lean::list_inline(&v.fields),
                    lean::boolean(v.other_self_use)
                ));
            }
        }
    }
    out.push_str("/-- Every method of the two views: receiver and the fields of `self` it touches. -/\n");
    out.push_str(&format!("def viewMethods : List ViewMethod := {}\n\n", lean::list(&rows)));
}
