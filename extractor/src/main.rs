//! Extractor: reads /repo/src (path in argv[1]) and regenerates `Extracted.lean` (argv[2]).
//!
//! It never guesses: a construct it does not recognise is emitted as an `unknown`/`other` value,
//! which makes the dependent `decide`/proof fail rather than silently pass.

mod atomics;
mod clones;
mod collects;
mod ctors;
mod deser;
mod drops;
mod effects;
mod eqs;
mod forwards;
mod gates;
mod grow;
mod hashes;
mod keys;
mod lean;
mod markers;
mod sigs;
mod viewreads;

use std::{fs, path::Path};

thread_local! {
    /// identifier renames (actual -> canonical) computed once from the container definitions and helper shapes
    static RENAMES: std::cell::RefCell<Option<Vec<(String, String)>>> = std::cell::RefCell::new(None);
}

fn squash_ty(t: &syn::Type) -> String {
    toks(t).chars().filter(|c| !c.is_whitespace()).collect()
}

/// Canonical names of the containers' private fields (by type) and of `Rodeo`'s private helper functions (by what
/// their bodies do).  A tree in which a maintainer renamed `strings` to `interned` or `get_string_entry_mut` to
/// `find_entry` is read as if it still used the names the translators know; nothing else is touched.
fn compute_renames(src_dir: &Path) -> Vec<(String, String)> {
    let mut out: Vec<(String, String)> = Vec::new();
    let mut add = |actual: String, canon: &str, out: &mut Vec<(String, String)>| {
        if actual != canon && !out.iter().any(|(a, _)| *a == actual) {
            out.push((actual, canon.to_string()));
        }
    };
    for (file, strukt) in [("rodeo.rs", "Rodeo"), ("threaded_rodeo.rs", "ThreadedRodeo"), ("reader.rs", "RodeoReader"), ("resolver.rs", "RodeoResolver")] {
        let Ok(text) = fs::read_to_string(src_dir.join(file)) else { continue };
        let Ok(parsed) = syn::parse_file(&text) else { continue };
        for item in &parsed.items {
            let syn::Item::Struct(st) = item else { continue };
            if st.ident != strukt {
                continue;
            }
            let hasher_param = st.generics.type_params().nth(1).map(|t| t.ident.to_string());
            for f in &st.fields {
                let Some(id) = &f.ident else { continue };
                let ty = squash_ty(&f.ty);
                let canon = if ty == "Vec<&'staticstr>" || ty.starts_with("DashMap<K,&'staticstr") {
                    Some("strings")
                } else if ty.starts_with("HashMap<K,(),()>") || ty == "StringMap<K>" || ty.starts_with("DashMap<&'staticstr,K") {
                    Some("map")
                } else if ty == "Arena" || ty == "LockfreeArena" {
                    Some("arena")
                } else if ty == "AnyArena" {
                    Some("__arena")
                } else if ty == "AtomicUsize" {
                    Some("key")
                } else if Some(&ty) == hasher_param.as_ref() {
                    Some("hasher")
                } else {
                    None
                };
                if let Some(c) = canon {
                    add(id.to_string(), c, &mut out);
                }
            }
        }
        if file == "rodeo.rs" {
            // (while we are here) the configuration structs of util.rs and the key types of keys.rs
            if let Ok(ut) = fs::read_to_string(src_dir.join("util.rs")) {
                if let Ok(up) = syn::parse_file(&ut) {
                    for item in &up.items {
                        let syn::Item::Struct(st) = item else { continue };
                        for f in &st.fields {
                            let Some(id) = &f.ident else { continue };
                            let ty = squash_ty(&f.ty);
                            let canon = match (st.ident.to_string().as_str(), ty.as_str()) {
                                ("Capacity", "usize") => Some("strings"),
                                ("Capacity", "NonZeroUsize") => Some("bytes"),
                                ("MemoryLimits", "usize") => Some("max_memory_usage"),
                                _ => None,
                            };
                            if let Some(c) = canon {
                                add(id.to_string(), c, &mut out);
                            }
                        }
                    }
                }
            }
            if let Ok(kt) = fs::read_to_string(src_dir.join("keys.rs")) {
                if let Ok(kp) = syn::parse_file(&kt) {
                    for item in &kp.items {
                        let syn::Item::Struct(st) = item else { continue };
                        if st.fields.len() == 1 {
                            if let Some(f) = st.fields.iter().next() {
                                if let Some(id) = &f.ident {
                                    if squash_ty(&f.ty).starts_with("NonZero") {
                                        add(id.to_string(), "key", &mut out);
                                    }
                                }
                            }
                        }
                    }
                }
            }
            for item in &parsed.items {
                let syn::Item::Fn(f) = item else { continue };
                let body: String = toks(&f.block).chars().filter(|c| !c.is_whitespace()).collect();
                let name = f.sig.ident.to_string();
                if body.contains(".raw_entry_mut().from_hash(") && !body.contains("insert_with_hasher(") && !body.contains("store_str(") {
                    add(name, "get_string_entry_mut", &mut out);
                } else if body.contains("insert_with_hasher(") && !body.contains("from_hash(") && !body.contains("store_str(") {
                    add(name, "insert_string", &mut out);
                } else if body.contains("store_str(") && body.contains(".push(") && f.sig.receiver().is_none() {
                    add(name, "clone_strings_into", &mut out);
                }
            }
        }
    }
    out
}

fn apply_renames(text: &str, renames: &[(String, String)]) -> String {
    if renames.is_empty() {
        return text.to_string();
    }
    // identifier-wise replacement (no regex crate): split on identifier boundaries
    let mut out = String::with_capacity(text.len());
    let mut cur = String::new();
    let flush = |cur: &mut String, out: &mut String| {
        if !cur.is_empty() {
            match renames.iter().find(|(a, _)| a == cur) {
                Some((_, c)) => out.push_str(c),
                None => out.push_str(cur),
            }
            cur.clear();
        }
    };
    for ch in text.chars() {
        if ch.is_alphanumeric() || ch == '_' {
            cur.push(ch);
        } else {
            flush(&mut cur, &mut out);
            out.push(ch);
        }
    }
    flush(&mut cur, &mut out);
    out
}

pub fn parse_file(path: &Path) -> syn::File {
    let src = fs::read_to_string(path).unwrap_or_else(|e| panic!("read {}: {e}", path.display()));
    // the source directory is the ancestor named `src`
    let src_dir = path.ancestors().find(|a| a.file_name().map(|n| n == "src").unwrap_or(false)).map(|a| a.to_path_buf());
    let renames = RENAMES.with(|r| {
        if r.borrow().is_none() {
            *r.borrow_mut() = Some(src_dir.as_deref().map(compute_renames).unwrap_or_default());
        }
        r.borrow().clone().unwrap()
    });
    let src = apply_renames(&src, &renames);
    syn::parse_file(&src).unwrap_or_else(|e| panic!("parse {}: {e}", path.display()))
}

/// `K::try_from_usize` (also `<K as Key>::try_from_usize`): the key check on the interner's *own* key type.
/// The same call on any other type (`Spur::try_from_usize`, ..) checks something else.
pub fn is_own_key_check(f: &str) -> bool {
    let f: String = f.chars().filter(|c| !c.is_whitespace()).collect();
    f == "K::try_from_usize" || f == "<KasKey>::try_from_usize" || f == "<Kascrate::Key>::try_from_usize"
}

/// Normalised token string of anything printable.
pub fn toks<T: quote::ToTokens>(t: &T) -> String {
    let s = t.to_token_stream().to_string();
    s.split_whitespace().collect::<Vec<_>>().join(" ")
}

fn main() {
    let args: Vec<String> = std::env::args().collect();
    if args.len() < 3 {
        eprintln!("usage: extractor <repo/src> <Extracted.lean>");
        std::process::exit(2);
    }
    let src = Path::new(&args[1]);
    let mut out = String::new();
    out.push_str("-- GENERATED by /verif/extractor from /repo/src on every run. Do not edit.\n");
    out.push_str("import LassoModel.Source\n");
    out.push_str("namespace Lasso.Extracted\nopen Lasso.Source\n\n");

    if std::env::var("EXTRACT_DEBUG").is_ok() { keys::debug_macros(src); }
    keys::emit(src, &mut out);
    forwards::emit(src, &mut out);
    eqs::emit(src, &mut out);
    markers::emit(src, &mut out);
    atomics::emit(src, &mut out);
    sigs::emit(src, &mut out);
    hashes::emit(src, &mut out);
    grow::emit(src, &mut out);
    effects::emit(src, &mut out);
    ctors::emit(src, &mut out);
    deser::emit(src, &mut out);
    clones::emit(src, &mut out);
    gates::emit(src, &mut out);
    viewreads::emit(src, &mut out);
    drops::emit(src, &mut out);
    collects::emit(src, &mut out);

    out.push_str("\nend Lasso.Extracted\n");
    // only rewrite when changed so that lake does not rebuild dependants needlessly
    let old = fs::read_to_string(&args[2]).unwrap_or_default();
    if old != out {
        fs::write(&args[2], out).expect("write Extracted.lean");
        eprintln!("extractor: {} rewritten", args[2]);
    } else {
        eprintln!("extractor: {} unchanged", args[2]);
    }
}
