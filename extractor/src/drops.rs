//! How storage blocks are released (C04: "all blocks are released exactly once").
//!
//! * `memSites`: every call of the allocator (`alloc`, `dealloc`, `realloc`, `alloc_zeroed`) and every call that
//!   takes an owned value out of Rust's drop discipline (`forget`, `leak`, `into_raw`, `from_raw`,
//!   `Vec/String::from_raw_parts`, `ManuallyDrop`) outside test modules and verification hooks.
//! * `bucketRelease`: the single-threaded block's `Drop` - which pointer it frees, with which layout, how often,
//!   next to the layout of the allocation in `Bucket::with_capacity`.
//! * `listDropEffects`: the walk of `impl Drop for AtomicBucketList` statement by statement (load the head; while
//!   non-null: remember the node, advance, read the node's capacity, compute the layout, free the node), which
//!   the model interprets on a linked list of any length; `atomicAllocLayout` is the layout expression of
//!   `AtomicBucket::with_capacity`, in the same canonical form as the one inside the walk.

use crate::{lean, parse_file, toks};
use std::collections::HashMap;
use std::path::Path;
use syn::visit::Visit;
use syn::{Expr, Stmt};

fn squash(s: &str) -> String {
    s.chars().filter(|c| !c.is_whitespace()).collect()
}

fn has_test_or_hook(attrs: &[syn::Attribute]) -> bool {
    attrs.iter().any(|a| {
        if !a.path().is_ident("cfg") {
            return false;
        }
        let c = squash(&toks(a));
        c.contains("cfg(test)") || c.contains("all(test") || c.contains("lasso_verif")
    })
}

// ---------------------------------------------------------------------------------------------------------------
// census

struct Census {
    file: String,
    func: String,
    out: Vec<(String, String, String)>,
}

fn site_kind(path: &str) -> Option<&'static str> {
    let last = path.rsplit("::").next().unwrap_or(path);
    let last = last.split('<').next().unwrap_or(last);
    match last {
        "alloc" | "alloc_zeroed" | "realloc" => Some(".alloc"),
        "dealloc" => Some(".dealloc"),
        "forget" | "leak" | "into_raw" | "into_raw_parts" | "from_raw" => Some(".escape"),
        "from_raw_parts" | "from_raw_parts_mut" if path.starts_with("Vec::") || path.starts_with("String::") => Some(".escape"),
        _ if path.contains("ManuallyDrop") => Some(".escape"),
        _ => None,
    }
}

impl<'ast> Visit<'ast> for Census {
    fn visit_expr_call(&mut self, c: &'ast syn::ExprCall) {
        let f = squash(&toks(&*c.func));
        if let Some(k) = site_kind(&f) {
            self.out.push((self.file.clone(), self.func.clone(), format!("{k} {}", lean::s(&f))));
        }
        syn::visit::visit_expr_call(self, c);
    }
    fn visit_expr_method_call(&mut self, m: &'ast syn::ExprMethodCall) {
        let n = m.method.to_string();
        if matches!(n.as_str(), "leak" | "into_raw" | "into_raw_parts" | "forget") {
            self.out.push((self.file.clone(), self.func.clone(), format!(".escape {}", lean::s(&format!(".{n}()")))));
        }
        syn::visit::visit_expr_method_call(self, m);
    }
    fn visit_type_path(&mut self, t: &'ast syn::TypePath) {
        if squash(&toks(t)).contains("ManuallyDrop") {
            self.out.push((self.file.clone(), self.func.clone(), format!(".escape {}", lean::s("ManuallyDrop"))));
        }
        syn::visit::visit_type_path(self, t);
    }
}

fn census_items(file: &str, items: &[syn::Item], out: &mut Vec<(String, String, String)>) {
    for item in items {
        match item {
            syn::Item::Mod(m) => {
                if has_test_or_hook(&m.attrs) || m.ident == "tests" || m.ident == "test" {
                    continue;
                }
                if let Some((_, inner)) = &m.content {
                    census_items(file, inner, out);
                }
            }
            syn::Item::Fn(f) => {
                if has_test_or_hook(&f.attrs) {
                    continue;
                }
                let mut c = Census { file: file.to_string(), func: f.sig.ident.to_string(), out: Vec::new() };
                c.visit_block(&f.block);
                out.extend(c.out);
            }
            syn::Item::Impl(im) => {
                if has_test_or_hook(&im.attrs) {
                    continue;
                }
                let owner = squash(&toks(&*im.self_ty));
                let owner = owner.split('<').next().unwrap_or("").to_string();
                for it in &im.items {
                    if let syn::ImplItem::Fn(f) = it {
                        if has_test_or_hook(&f.attrs) {
                            continue;
                        }
                        let mut c = Census { file: file.to_string(), func: format!("{owner}::{}", f.sig.ident), out: Vec::new() };
                        c.visit_block(&f.block);
                        out.extend(c.out);
                    }
                }
            }
            syn::Item::Struct(s) => {
                if has_test_or_hook(&s.attrs) {
                    continue;
                }
                let mut c = Census { file: file.to_string(), func: format!("struct {}", s.ident), out: Vec::new() };
                c.visit_item_struct(s);
                out.extend(c.out);
            }
            _ => {}
        }
    }
}

// ---------------------------------------------------------------------------------------------------------------
// helpers

fn find_fn<'a>(file: &'a syn::File, owner: &str, trait_: Option<&str>, name: &str) -> Option<&'a syn::ImplItemFn> {
    for item in &file.items {
        if let syn::Item::Impl(im) = item {
            if has_test_or_hook(&im.attrs) {
                continue;
            }
            let o = squash(&toks(&*im.self_ty));
            let t = im.trait_.as_ref().and_then(|(_, p, _)| p.segments.last().map(|s| s.ident.to_string()));
            if o != owner || t.as_deref() != trait_ {
                continue;
            }
            for it in &im.items {
                if let syn::ImplItem::Fn(f) = it {
                    if f.sig.ident == name && !has_test_or_hook(&f.attrs) {
                        return Some(f);
                    }
                }
            }
        }
    }
    None
}

/// every `let x = e;` of a body (also inside `unsafe` blocks), squashed
struct Lets {
    lets: HashMap<String, String>,
}
impl<'ast> Visit<'ast> for Lets {
    fn visit_local(&mut self, l: &'ast syn::Local) {
        let pat = match &l.pat {
            syn::Pat::Type(pt) => &*pt.pat,
            p => p,
        };
        if let (syn::Pat::Ident(pi), Some(init)) = (pat, &l.init) {
            self.lets.insert(pi.ident.to_string(), squash(&toks(&*init.expr)));
        }
        syn::visit::visit_local(self, l);
    }
}

/// substitute let-bound names inside an expression (identifier-wise, a few rounds), dropping `unsafe { }` wrappers
fn expand(lets: &HashMap<String, String>, e: &str) -> String {
    fn strip_unsafe(e: &str) -> String {
        let mut e = e.to_string();
        while let Some(inner) = e.strip_prefix("unsafe{").and_then(|x| x.strip_suffix('}')) {
            e = inner.to_string();
        }
        e
    }
    let mut e = strip_unsafe(e);
    for _ in 0..4 {
        let mut out = String::new();
        let mut cur = String::new();
        let mut changed = false;
        let mut prev: Option<char> = None;
        for ch in e.chars().chain(std::iter::once('\0')) {
            if ch.is_alphanumeric() || ch == '_' {
                cur.push(ch);
            } else {
                if !cur.is_empty() {
                    // not a field / method / path segment
                    let is_member = matches!(prev, Some('.') | Some(':'));
                    match lets.get(&cur) {
                        Some(v) if !is_member && ch != '(' && ch != ':' => {
                            out.push_str(&strip_unsafe(v));
                            changed = true;
                        }
                        _ => out.push_str(&cur),
                    }
                    prev = cur.chars().last();
                    cur.clear();
                }
                if ch != '\0' {
                    out.push(ch);
                    prev = Some(ch);
                }
            }
        }
        e = out;
        if !changed {
            break;
        }
    }
    e
}

fn resolve(lets: &HashMap<String, String>, e: &str) -> String {
    let mut e = e.to_string();
    for _ in 0..4 {
        match lets.get(&e) {
            Some(v) => e = v.clone(),
            None => break,
        }
    }
    e
}

/// canonical form of a layout expression: where the capacity comes from does not matter, error plumbing neither
fn canon_layout(e: &str) -> String {
    let mut e = e.to_string();
    for (a, b) in [("self.capacity", "capacity"), ("(*current_ptr).capacity", "capacity"), ("Self::layout", "layout"), ("AtomicBucket::layout", "layout"), ("core::mem::", ""), ("mem::", "")] {
        e = e.replace(a, b);
    }
    if let Some(p) = e.find(".expect(") {
        e.truncate(p);
    }
    e.trim_end_matches('?').trim_end_matches(".unwrap()").replace(",)", ")")
}

struct Calls<'a> {
    name: &'a str,
    found: Vec<(Vec<String>, bool)>,
    depth: usize,
}
impl<'a, 'ast> Visit<'ast> for Calls<'a> {
    fn visit_expr_call(&mut self, c: &'ast syn::ExprCall) {
        let f = squash(&toks(&*c.func));
        if f == self.name || f.ends_with(&format!("::{}", self.name)) {
            self.found.push((c.args.iter().map(|a| squash(&toks(a))).collect(), self.depth > 0));
        }
        syn::visit::visit_expr_call(self, c);
    }
    fn visit_expr_if(&mut self, i: &'ast syn::ExprIf) {
        self.depth += 1;
        syn::visit::visit_expr_if(self, i);
        self.depth -= 1;
    }
    fn visit_expr_match(&mut self, i: &'ast syn::ExprMatch) {
        self.depth += 1;
        syn::visit::visit_expr_match(self, i);
        self.depth -= 1;
    }
    fn visit_expr_while(&mut self, i: &'ast syn::ExprWhile) {
        self.depth += 1;
        syn::visit::visit_expr_while(self, i);
        self.depth -= 1;
    }
    fn visit_expr_for_loop(&mut self, i: &'ast syn::ExprForLoop) {
        self.depth += 1;
        syn::visit::visit_expr_for_loop(self, i);
        self.depth -= 1;
    }
    fn visit_expr_loop(&mut self, i: &'ast syn::ExprLoop) {
        self.depth += 1;
        syn::visit::visit_expr_loop(self, i);
        self.depth -= 1;
    }
    fn visit_expr_closure(&mut self, i: &'ast syn::ExprClosure) {
        self.depth += 1;
        syn::visit::visit_expr_closure(self, i);
        self.depth -= 1;
    }
}

fn alloc_layout(f: &syn::ImplItemFn) -> String {
    let mut l = Lets { lets: HashMap::new() };
    l.visit_block(&f.block);
    let mut c = Calls { name: "alloc", found: Vec::new(), depth: 0 };
    c.visit_block(&f.block);
    match c.found.as_slice() {
        [(args, false)] if args.len() == 1 => canon_layout(&expand(&l.lets, &resolve(&l.lets, &args[0]))),
        _ => format!("?{} alloc calls", c.found.len()),
    }
}

// ---------------------------------------------------------------------------------------------------------------
// the list walk

struct Walk {
    out: Vec<String>,
    head: Option<String>,
    current: Option<String>,
    capacity: Option<String>,
    layout: Option<String>,
    layout_expr: String,
    /// other spellings of the current node (`current.as_ptr()` after `while let Some(current) = NonNull::new(head)`)
    current_alias: Vec<String>,
}

impl Walk {
    fn ptr(&self, e: &str) -> &'static str {
        let e = e.trim_end_matches(".cast()").trim_end_matches(".cast::<u8>()").trim_end_matches(".cast::<_>()");
        let e = e.strip_suffix("as*mutu8").unwrap_or(e);
        if Some(e) == self.head.as_deref() {
            ".head"
        } else if Some(e) == self.current.as_deref() || self.current_alias.iter().any(|a| a == e) {
            ".current"
        } else {
            ".other"
        }
    }
    fn deref_of(&self, e: &str, field: &str) -> Option<&'static str> {
        // `(*p).field`
        let rest = e.strip_prefix("(*")?;
        let (p, tail) = rest.split_once(')')?;
        if tail == format!(".{field}") {
            Some(self.ptr(p))
        } else {
            None
        }
    }
    fn other(&mut self, t: &str) {
        self.out.push(format!("(.other {})", lean::s(t)));
    }
    /// `..layout((*p).capacity)..`  ->  (which pointer, the argument text)
    fn layout_of_field(&self, init: &str) -> Option<(&'static str, String)> {
        let start = init.find("layout(")? + "layout(".len();
        let rest = &init[start..];
        let end = rest.find(".capacity)")? + ".capacity".len();
        let inner = &rest[..end];
        self.deref_of(inner, "capacity").map(|p| (p, inner.to_string()))
    }
    fn stmt(&mut self, s: &Stmt) {
        match s {
            Stmt::Local(l) => {
                let pat = match &l.pat {
                    syn::Pat::Type(pt) => &*pt.pat,
                    p => p,
                };
                let (name, init) = match (pat, &l.init) {
                    (syn::Pat::Ident(pi), Some(init)) => (pi.ident.to_string(), squash(&toks(&*init.expr))),
                    _ => return self.other(&squash(&toks(s))),
                };
                self.bind(&name, &init, &squash(&toks(s)));
            }
            Stmt::Expr(e, _) => self.expr(e),
            Stmt::Macro(m) => {
                let p = squash(&toks(&m.mac.path));
                if !p.starts_with("debug_assert") {
                    self.other(&squash(&toks(s)));
                }
            }
            Stmt::Item(_) => self.other(&squash(&toks(s))),
        }
    }
    fn bind(&mut self, name: &str, init: &str, whole: &str) {
        if init.starts_with("self.head.load(") || init == "*self.head.get_mut()" {
            self.head = Some(name.to_string());
            self.out.push(".loadHead".into());
        } else if self.current_alias.iter().any(|a| a == init) {
            // another name for the node the loop head already remembered
            self.current_alias.push(name.to_string());
        } else if Some(init) == self.head.as_deref() {
            self.current = Some(name.to_string());
            self.out.push(".saveCurrent".into());
        } else if let Some(p) = self.deref_of(init, "capacity") {
            self.capacity = Some(name.to_string());
            self.out.push(format!("(.readCapacity {p})"));
        } else if init.contains("layout((*") && self.layout_of_field(init).is_some() {
            // `layout((*p).capacity)`: the capacity is read and used in one expression
            let (p, inner) = self.layout_of_field(init).unwrap();
            self.out.push(format!("(.readCapacity {p})"));
            self.layout = Some(name.to_string());
            self.layout_expr = canon_layout(&init.replace(&format!("layout({inner})"), "layout(capacity)"));
            self.out.push(".layoutOfCapacity".into());
        } else if init.contains("layout(") {
            let arg_ok = self.capacity.as_deref().map(|c| init.contains(&format!("layout({c})"))).unwrap_or(false);
            if arg_ok {
                self.layout = Some(name.to_string());
                let cap = self.capacity.clone().unwrap_or_default();
                self.layout_expr = canon_layout(&init.replace(&format!("layout({cap})"), "layout(capacity)"));
                self.out.push(".layoutOfCapacity".into());
            } else {
                self.other(whole);
            }
        } else {
            self.other(whole);
        }
    }
    fn expr(&mut self, e: &Expr) {
        match e {
            Expr::Unsafe(u) => {
                for s in &u.block.stmts {
                    self.stmt(s);
                }
            }
            Expr::Block(b) => {
                for s in &b.block.stmts {
                    self.stmt(s);
                }
            }
            Expr::While(w) => {
                let c = squash(&toks(&*w.cond));
                let ok = self.head.as_deref().map(|h| c == format!("!{h}.is_null()")).unwrap_or(false);
                // `while let Some(node) = NonNull::new(head)`: the test and remembering the node in one
                let let_form = self.head.as_deref().and_then(|h| {
                    let rest = c.strip_prefix("letSome(")?;
                    let (node, tail) = rest.split_once(")=")?;
                    if tail == format!("NonNull::new({h})") && node.chars().all(|ch| ch.is_alphanumeric() || ch == '_') {
                        Some(node.to_string())
                    } else {
                        None
                    }
                });
                if ok {
                    self.out.push(".whileHeadNonNull".into());
                } else if let Some(node) = let_form {
                    self.out.push(".whileHeadNonNull".into());
                    self.out.push(".saveCurrent".into());
                    self.current_alias.push(format!("{node}.as_ptr()"));
                } else {
                    self.other(&format!("while {c}"));
                }
                for s in &w.body.stmts {
                    self.stmt(s);
                }
                self.out.push(".loopEnd".into());
            }
            Expr::Loop(l) => {
                // `loop { [let node = head;] if <head | node>.is_null() { break; } .. }`
                let stmts = &l.body.stmts;
                let mut i = 0;
                let mut pre_saved: Option<String> = None;
                if let Some(Stmt::Local(loc)) = stmts.first() {
                    if let (syn::Pat::Ident(pi), Some(init)) = (&loc.pat, &loc.init) {
                        if Some(squash(&toks(&*init.expr)).as_str()) == self.head.as_deref() {
                            pre_saved = Some(pi.ident.to_string());
                            i = 1;
                        }
                    }
                }
                let test_ok = match stmts.get(i) {
                    Some(Stmt::Expr(Expr::If(f), _)) if f.else_branch.is_none() => {
                        let c = squash(&toks(&*f.cond));
                        let b = squash(&toks(&f.then_branch));
                        let who = c.strip_suffix(".is_null()").unwrap_or("");
                        (b == "{break;}" || b == "{break}") && !who.is_empty() && (Some(who) == self.head.as_deref() || Some(who) == pre_saved.as_deref())
                    }
                    _ => false,
                };
                if test_ok {
                    self.out.push(".whileHeadNonNull".into());
                    if let Some(n) = pre_saved {
                        self.current = Some(n);
                        self.out.push(".saveCurrent".into());
                    }
                    for s in &stmts[i + 1..] {
                        self.stmt(s);
                    }
                    self.out.push(".loopEnd".into());
                } else {
                    self.other("loop without the null test first");
                }
            }
            Expr::Assign(a) => {
                let l = squash(&toks(&*a.left));
                let r = squash(&toks(&*a.right));
                if Some(l.as_str()) == self.head.as_deref() {
                    // `head = (*p).next.load(..)` / `*(*p).next.get_mut()`
                    let r2 = r.split(".load(").next().unwrap_or(&r).to_string();
                    let r2 = r2.strip_prefix('*').and_then(|x| x.strip_suffix(".get_mut()")).map(|x| x.to_string()).unwrap_or(r2);
                    match self.deref_of(&r2, "next") {
                        Some(p) => self.out.push(format!("(.advance {p})")),
                        None => self.other(&format!("{l}={r}")),
                    }
                } else {
                    self.other(&format!("{l}={r}"));
                }
            }
            Expr::Call(c) => {
                let f = squash(&toks(&*c.func));
                if (f == "dealloc" || f.ends_with("::dealloc")) && c.args.len() == 2 {
                    let p = self.ptr(&squash(&toks(&c.args[0])));
                    let l = squash(&toks(&c.args[1]));
                    let lay_ok = Some(l.as_str()) == self.layout.as_deref();
                    self.out.push(format!("(.dealloc {p} {})", lean::boolean(lay_ok)));
                } else {
                    self.other(&squash(&toks(e)));
                }
            }
            _ => self.other(&squash(&toks(e))),
        }
    }
}

/// `Arena::clear`: does it reset every block, unconditionally?  (`for b in &mut self.buckets { b.clear(); }`,
/// `.iter_mut()`, `.for_each(|b| b.clear())`, `.for_each(Bucket::clear)`)
fn arena_clear_shape(f: &syn::ImplItemFn) -> String {
    let body: Vec<&Stmt> = f.block.stmts.iter().filter(|s| !matches!(s, Stmt::Macro(m) if squash(&toks(&m.mac.path)).starts_with("debug_assert"))).collect();
    if body.len() == 2 {
        // `let mut it = self.buckets.iter_mut(); while let Some(b) = it.next() { b.clear(); }`
        if let (Stmt::Local(l), Stmt::Expr(Expr::While(w), _)) = (body[0], body[1]) {
            if let (syn::Pat::Ident(pi), Some(init)) = (&l.pat, &l.init) {
                let it = pi.ident.to_string();
                let src_ok = matches!(squash(&toks(&*init.expr)).as_str(), "self.buckets.iter_mut()" | "(&mutself.buckets).into_iter()");
                let c = squash(&toks(&*w.cond));
                if let Some(v) = c.strip_prefix("letSome(").and_then(|r| r.strip_suffix(&format!(")={it}.next()"))) {
                    let b = squash(&toks(&w.body));
                    if src_ok && (b == format!("{{{v}.clear();}}") || b == format!("{{{v}.clear()}}") || b == format!("{{Bucket::clear({v});}}")) {
                        return ".everyBlock".into();
                    }
                }
            }
        }
    }
    if body.len() != 1 {
        return format!("(.other {})", lean::s(&squash(&toks(&f.block))));
    }
    let all = |it: &str| matches!(it, "&mutself.buckets" | "self.buckets.iter_mut()" | "(&mutself.buckets).into_iter()" | "&mutself.buckets[..]");
    let ok = match body[0] {
        Stmt::Expr(Expr::ForLoop(fl), _) => {
            let it = squash(&toks(&*fl.expr));
            let var = squash(&toks(&*fl.pat));
            let b = squash(&toks(&fl.body));
            all(&it) && (b == format!("{{{var}.clear();}}") || b == format!("{{{var}.clear()}}") || b == format!("{{Bucket::clear({var});}}"))
        }
        Stmt::Expr(Expr::MethodCall(m), _) if m.method == "for_each" && m.args.len() == 1 => {
            let recv = squash(&toks(&*m.receiver));
            let a = squash(&toks(&m.args[0]));
            let closure_ok = a == "Bucket::clear" || {
                let mut it = a.splitn(3, '|');
                matches!((it.next(), it.next(), it.next()), (Some(""), Some(v), Some(body)) if body == format!("{v}.clear()") || body == format!("{{{v}.clear();}}") || body == format!("{{{v}.clear()}}"))
            };
            all(&recv) && closure_ok
        }
        _ => false,
    };
    if ok {
        ".everyBlock".into()
    } else {
        format!("(.other {})", lean::s(&squash(&toks(&f.block))))
    }
}

pub fn emit(src: &Path, out: &mut String) {
    // `clear` of the single-threaded arena and of its blocks
    let spath = src.join("arenas/single_threaded.rs");
    let bpath0 = src.join("arenas/bucket.rs");
    if spath.exists() && bpath0.exists() {
        let sf = parse_file(&spath);
        let bf = parse_file(&bpath0);
        let shape = find_fn(&sf, "Arena", None, "clear").map(arena_clear_shape).unwrap_or_else(|| "(.other \"no Arena::clear\")".into());
        let resets = find_fn(&bf, "Bucket", None, "clear").map(|f| squash(&toks(&f.block)) == "{self.index=0;}").unwrap_or(false);
        out.push_str("/-- `Arena::clear`: every block, unconditionally; `Bucket::clear`: the fill index back to 0. -/\n");
        out.push_str(&format!("def arenaClearShape : ClearShape := {shape}\n"));
        out.push_str(&format!("def bucketClearResetsIndex : Bool := {}\n\n", lean::boolean(resets)));
    }
    // census
    let files = [
        "lib.rs", "rodeo.rs", "threaded_rodeo.rs", "reader.rs", "resolver.rs", "util.rs", "keys.rs", "arenas/mod.rs",
        "arenas/single_threaded.rs", "arenas/bucket.rs", "arenas/lockfree.rs", "arenas/atomic_bucket.rs", "interface/mod.rs",
        "interface/boxed.rs", "interface/rodeo.rs", "interface/rodeo_reader.rs", "interface/rodeo_resolver.rs",
        "interface/threaded_ref.rs", "interface/threaded_rodeo.rs",
    ];
    let mut sites = Vec::new();
    for f in files {
        let p = src.join(f);
        if p.exists() {
            census_items(f, &parse_file(&p).items, &mut sites);
        }
    }
    sites.sort();
    let rows: Vec<String> = sites.iter().map(|(f, func, k)| format!("{{ file := {}, func := {}, kind := {k} }}", lean::s(f), lean::s(func))).collect();
    out.push_str("/-- Every allocator call and every call that takes a value out of the drop discipline (outside tests and hooks). -/\n");
    out.push_str(&format!("def memSites : List MemSite := {}\n\n", lean::list(&rows)));

    // single-threaded block
    let bpath = src.join("arenas/bucket.rs");
    if bpath.exists() {
        let file = parse_file(&bpath);
        let alloc_l = find_fn(&file, "Bucket", None, "with_capacity").map(alloc_layout).unwrap_or_else(|| "?no with_capacity".into());
        let (mut rel_l, mut own, mut n, mut guarded) = ("?no Drop".to_string(), false, 0usize, false);
        if let Some(d) = find_fn(&file, "Bucket", Some("Drop"), "drop") {
            let mut l = Lets { lets: HashMap::new() };
            l.visit_block(&d.block);
            let mut c = Calls { name: "dealloc", found: Vec::new(), depth: 0 };
            c.visit_block(&d.block);
            n = c.found.len();
            if let Some((args, g)) = c.found.first() {
                guarded = *g;
                if args.len() == 2 {
                    let p = resolve(&l.lets, &args[0]);
                    own = p == "self.items.as_ptr()" || p == "self.items.as_ptr().cast()";
                    rel_l = canon_layout(&expand(&l.lets, &resolve(&l.lets, &args[1])));
                }
            }
        }
        out.push_str("/-- `Bucket::with_capacity` / `impl Drop for Bucket`: the layouts (canonical text), the pointer freed, how often. -/\n");
        out.push_str(&format!(
            "def bucketRelease : BlockRelease := {{ allocLayout := {}, releaseLayout := {}, pointerIsOwn := {}, deallocCalls := {n}, conditional := {} }}\n\n",
            lean::s(&alloc_l),
            lean::s(&rel_l),
            lean::boolean(own),
            lean::boolean(guarded)
        ));
    }

    // concurrent list
    let apath = src.join("arenas/atomic_bucket.rs");
    if apath.exists() {
        let file = parse_file(&apath);
        let alloc_l = find_fn(&file, "AtomicBucket", None, "with_capacity").map(alloc_layout).unwrap_or_else(|| "?no with_capacity".into());
        let mut w = Walk { out: Vec::new(), head: None, current: None, capacity: None, layout: None, layout_expr: "?".into(), current_alias: Vec::new() };
        match find_fn(&file, "AtomicBucketList", Some("Drop"), "drop") {
            Some(d) => {
                for s in &d.block.stmts {
                    w.stmt(s);
                }
            }
            None => w.other("no Drop for AtomicBucketList"),
        }
        out.push_str("/-- Layout of `AtomicBucket::with_capacity`'s allocation and of the release inside the list walk (canonical text). -/\n");
        out.push_str(&format!("def atomicAllocLayout : String := {}\n", lean::s(&alloc_l)));
        out.push_str(&format!("def atomicReleaseLayout : String := {}\n\n", lean::s(&w.layout_expr)));
        out.push_str("/-- `impl Drop for AtomicBucketList`, statement by statement. -/\n");
        out.push_str(&format!("def listDropEffects : List DropEffect := {}\n\n", lean::list_inline(&w.out)));
    }
}
