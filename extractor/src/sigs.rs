//! Signatures of the string-returning entry points, the invalidating operations, the static
//! entry points and the iterator item types: receiver kind and lifetime class.

use crate::{lean, parse_file, toks};
use std::path::Path;
use syn::{FnArg, GenericArgument, ImplItem, Item, PathArguments, ReturnType, TraitItem, Type};

fn squash(s: &str) -> String {
    s.chars().filter(|c| !c.is_whitespace()).collect()
}

fn sig_name(n: &str) -> Option<&'static str> {
    Some(match n {
        "resolve" => ".resolve",
        "try_resolve" => ".tryResolve",
        "resolve_unchecked" => ".resolveUnchecked",
        "index" => ".index",
        "iter" => ".iter",
        "strings" => ".strings",
        "into_iter" => ".intoIter",
        "clear" => ".clear",
        "into_reader" => ".intoReader",
        "into_resolver" => ".intoResolver",
        "try_clone_from" => ".tryCloneFrom",
        "clone_from" => ".cloneFrom",
        "get_or_intern" => ".getOrIntern",
        "try_get_or_intern" => ".tryGetOrIntern",
        "get_or_intern_static" => ".getOrInternStatic",
        "try_get_or_intern_static" => ".tryGetOrInternStatic",
        _ => return None,
    })
}

fn owner_of(ty: &str) -> Option<String> {
    let t = squash(ty);
    let t = t.trim_start_matches('&');
    let t = if t.starts_with('\'') { t.splitn(2, |c: char| !c.is_alphanumeric() && c != '\'' && c != '_').nth(1).unwrap_or("") } else { t };
    let base = t.split('<').next().unwrap_or("");
    Some(
        match base {
            "Rodeo" => ".rodeo",
            "ThreadedRodeo" => ".threaded",
            "RodeoReader" => ".reader",
            "RodeoResolver" => ".resolver",
            _ => return None,
        }
        .to_string(),
    )
}

/// All lifetimes mentioned in a type; `elided` is set when a reference has no lifetime or `'_` occurs.
fn lifetimes(t: &Type, out: &mut Vec<String>, elided: &mut bool, has_ref_or_lt: &mut bool) {
    match t {
        Type::Reference(r) => {
            *has_ref_or_lt = true;
            match &r.lifetime {
                Some(l) if l.ident != "_" => out.push(l.ident.to_string()),
                _ => *elided = true,
            }
            lifetimes(&r.elem, out, elided, has_ref_or_lt);
        }
        Type::Path(p) => {
            for seg in &p.path.segments {
                if let PathArguments::AngleBracketed(a) = &seg.arguments {
                    for g in &a.args {
                        match g {
                            GenericArgument::Lifetime(l) => {
                                *has_ref_or_lt = true;
                                if l.ident == "_" {
                                    *elided = true
                                } else {
                                    out.push(l.ident.to_string())
                                }
                            }
                            GenericArgument::Type(t) => lifetimes(t, out, elided, has_ref_or_lt),
                            _ => {}
                        }
                    }
                }
            }
        }
        Type::Tuple(t) => {
            for e in &t.elems {
                lifetimes(e, out, elided, has_ref_or_lt)
            }
        }
        Type::Paren(p) => lifetimes(&p.elem, out, elided, has_ref_or_lt),
        Type::Group(g) => lifetimes(&g.elem, out, elided, has_ref_or_lt),
        _ => {}
    }
}

/// (recv, receiver lifetime if named, receiver is a reference)
fn receiver(sig: &syn::Signature, self_ty_lifetime: Option<String>) -> (&'static str, Option<String>, bool) {
    match sig.inputs.first() {
        Some(FnArg::Receiver(r)) => {
            if let Some((_, lt)) = &r.reference {
                let name = lt.as_ref().filter(|l| l.ident != "_").map(|l| l.ident.to_string());
                (if r.mutability.is_some() { ".refMut" } else { ".ref" }, name, true)
            } else if squash(&toks(&r.ty)).starts_with("Box<") {
                (".boxSelf", None, false)
            } else {
                // `self` by value; for `impl Trait for &'a T` the value *is* a reference with lifetime 'a
                (".val", self_ty_lifetime.clone(), self_ty_lifetime.is_some())
            }
        }
        _ => (".none", None, false),
    }
}

fn classify(ret: &ReturnType, recv_lt: &Option<String>, recv_is_ref: bool, assoc_output_is_str: bool) -> &'static str {
    let ReturnType::Type(_, t) = ret else { return ".noStr" };
    let mut lts = Vec::new();
    let mut elided = false;
    let mut has = false;
    lifetimes(t, &mut lts, &mut elided, &mut has);
    let _ = assoc_output_is_str;
    if !has {
        return ".noStr";
    }
    if lts.iter().any(|l| l == "static") {
        return ".static_";
    }
    // elided output lifetimes take the receiver's lifetime when there is a `&self` receiver
    let ok_named = lts.iter().all(|l| Some(l) == recv_lt.as_ref());
    if recv_is_ref && ok_named {
        ".self_"
    } else {
        ".free"
    }
}

fn first_str_arg(sig: &syn::Signature) -> String {
    for a in &sig.inputs {
        if let FnArg::Typed(t) = a {
            let s = squash(&toks(&t.ty));
            if s == "&'staticstr" {
                return "(some true)".into();
            }
            if s == "&str" || s == "T" || s.ends_with("str") {
                return "(some false)".into();
            }
        }
    }
    "none".into()
}

fn self_ty_ref_lifetime(t: &Type) -> Option<String> {
    if let Type::Reference(r) = t {
        return r.lifetime.as_ref().map(|l| l.ident.to_string());
    }
    None
}

pub fn emit(src: &Path, out: &mut String) {
    let mut sigs = Vec::new();
    let mut items_out = Vec::new();
    for f in ["rodeo.rs", "threaded_rodeo.rs", "reader.rs", "resolver.rs", "util.rs"] {
        let path = src.join(f);
        if !path.exists() {
            continue;
        }
        let file = parse_file(&path);
        for item in &file.items {
            let Item::Impl(imp) = item else { continue };
            let self_s = toks(&imp.self_ty);
            let trait_name = imp.trait_.as_ref().map(|(_, p, _)| p.segments.last().map(|s| s.ident.to_string()).unwrap_or_default());
            // iterator item types
            if trait_name.as_deref() == Some("Iterator") {
                let base = squash(&self_s);
                let is_iter = base.starts_with("Iter<");
                let is_strings = base.starts_with("Strings<");
                if is_iter || is_strings {
                    let threaded = f == "threaded_rodeo.rs";
                    let struct_lts: Vec<String> = match &*imp.self_ty {
                        Type::Path(p) => match &p.path.segments.last().unwrap().arguments {
                            PathArguments::AngleBracketed(a) => a
                                .args
                                .iter()
                                .filter_map(|g| if let GenericArgument::Lifetime(l) = g { Some(l.ident.to_string()) } else { None })
                                .collect(),
                            _ => Vec::new(),
                        },
                        _ => Vec::new(),
                    };
                    for it in &imp.items {
                        if let ImplItem::Type(t) = it {
                            if t.ident == "Item" {
                                let mut lts = Vec::new();
                                let mut elided = false;
                                let mut has = false;
                                lifetimes(&t.ty, &mut lts, &mut elided, &mut has);
                                let class = if lts.iter().any(|l| l == "static") {
                                    ".static_"
                                } else if has && !elided && lts.iter().all(|l| struct_lts.contains(l)) {
                                    ".self_"
                                } else if !has {
                                    ".noStr"
                                } else {
                                    ".free"
                                };
                                items_out.push(format!(
                                    "{{ owner := .iterType {} {}, item := {} }}",
                                    lean::boolean(threaded),
                                    lean::boolean(is_strings),
                                    class
                                ));
                            }
                        }
                    }
                }
                continue;
            }
            let inner_s = match &*imp.self_ty {
                Type::Reference(r) => toks(&r.elem),
                _ => self_s.clone(),
            };
            let Some(owner) = owner_of(&inner_s) else { continue };
            // only inherent impls and the std traits that return strings / invalidate
            if let Some(tn) = &trait_name {
                if !matches!(tn.as_str(), "Index" | "IntoIterator" | "Clone") {
                    continue;
                }
            }
            let self_lt = self_ty_ref_lifetime(&imp.self_ty);
            for it in &imp.items {
                let ImplItem::Fn(func) = it else { continue };
                let Some(name) = sig_name(&func.sig.ident.to_string()) else { continue };
                let (recv, recv_lt, recv_ref) = receiver(&func.sig, self_lt.clone());
                // `IntoIterator for &'a T`: the item lifetime is in `type Item`, the fn returns `Self::IntoIter`
                let ret = if trait_name.as_deref() == Some("IntoIterator") {
                    let mut class = ".free";
                    for it2 in &imp.items {
                        if let ImplItem::Type(t) = it2 {
                            if t.ident == "Item" {
                                let mut lts = Vec::new();
                                let mut elided = false;
                                let mut has = false;
                                lifetimes(&t.ty, &mut lts, &mut elided, &mut has);
                                class = if lts.iter().any(|l| l == "static") {
                                    ".static_"
                                } else if has && !elided && lts.iter().all(|l| Some(l) == self_lt.as_ref()) {
                                    ".self_"
                                } else {
                                    ".free"
                                };
                            }
                        }
                    }
                    class
                } else if trait_name.as_deref() == Some("Index") {
                    // `-> &Self::Output` with `type Output = str`
                    classify(&func.sig.output, &recv_lt, recv_ref, true)
                } else {
                    classify(&func.sig.output, &recv_lt, recv_ref, false)
                };
                sigs.push(format!(
                    "{{ owner := {}, name := {}, recv := {}, strArgStatic := {}, ret := {}, isUnsafe := {} }}",
                    owner,
                    name,
                    recv,
                    first_str_arg(&func.sig),
                    ret,
                    lean::boolean(func.sig.unsafety.is_some())
                ));
            }
        }
    }
    // trait definitions of the interface layer
    let file = parse_file(&src.join("interface/mod.rs"));
    for item in &file.items {
        let Item::Trait(tr) = item else { continue };
        let owner = match tr.ident.to_string().as_str() {
            "Resolver" => ".traitResolver",
            "Reader" => ".traitReader",
            "Interner" => ".traitInterner",
            _ => continue,
        };
        for it in &tr.items {
            let TraitItem::Fn(func) = it else { continue };
            let Some(name) = sig_name(&func.sig.ident.to_string()) else { continue };
            let (recv, recv_lt, recv_ref) = receiver(&func.sig, None);
            sigs.push(format!(
                "{{ owner := {}, name := {}, recv := {}, strArgStatic := {}, ret := {}, isUnsafe := {} }}",
                owner,
                name,
                recv,
                first_str_arg(&func.sig),
                classify(&func.sig.output, &recv_lt, recv_ref, false),
                lean::boolean(func.sig.unsafety.is_some())
            ));
        }
    }
    out.push_str("/-- Signatures of the entry points the lifetime property is about. -/\n");
    out.push_str(&format!("def fnSigs : List FnSig := {}\n\n", lean::list(&sigs)));
    out.push_str("/-- `type Item` of the iterator types. -/\n");
    out.push_str(&format!("def iterItems : List IterItem := {}\n\n", lean::list(&items_out)));
}
