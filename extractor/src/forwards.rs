//! `interface/*.rs`: every method of every forwarding impl -> what it calls.

use crate::{lean, parse_file, toks};
use std::path::Path;
use syn::{Expr, FnArg, ImplItem, Item, Stmt};

fn squash(s: &str) -> String {
    s.chars().filter(|c| !c.is_whitespace()).collect()
}

/// Normalised wrapper name of an impl's self type.
pub fn wrapper_name(ty: &syn::Type) -> String {
    let t = squash(&toks(ty));
    if t.starts_with("Box<") {
        "Box".into()
    } else if t.starts_with("&mut") {
        "&mut".into()
    } else if t.starts_with("&ThreadedRodeo") {
        "&ThreadedRodeo".into()
    } else if t.starts_with('&') {
        "&".into()
    } else {
        t.split('<').next().unwrap_or("").to_string()
    }
}

fn single_expr(block: &syn::Block) -> Option<&Expr> {
    if block.stmts.len() != 1 {
        return None;
    }
    match &block.stmts[0] {
        Stmt::Expr(e, None) => Some(peel(e)),
        _ => None,
    }
}

fn peel(e: &Expr) -> &Expr {
    match e {
        Expr::Unsafe(u) => single_expr(&u.block).unwrap_or(e),
        Expr::Paren(p) => peel(&p.expr),
        Expr::Group(g) => peel(&g.expr),
        _ => e,
    }
}

/// `{ let x [: T] = E; x }`  ->  `E`;  `{ let r [: T] = RECV; r.m(args) }`  ->  `(RECV).m(args)`
fn two_statement_form(block: &syn::Block) -> Option<Expr> {
    if block.stmts.len() != 2 {
        return None;
    }
    let (Stmt::Local(l), Stmt::Expr(tail, None)) = (&block.stmts[0], &block.stmts[1]) else { return None };
    let pat = match &l.pat {
        syn::Pat::Type(pt) => &*pt.pat,
        p => p,
    };
    let syn::Pat::Ident(pi) = pat else { return None };
    let init = &l.init.as_ref()?.expr;
    if l.init.as_ref()?.diverge.is_some() {
        return None;
    }
    let name = pi.ident.to_string();
    let tail = peel(tail);
    if squash(&toks(tail)) == name {
        return Some(peel(init).clone());
    }
    if let Expr::MethodCall(m) = tail {
        if squash(&toks(&*m.receiver)) == name && !m.args.iter().any(|a| squash(&toks(a)).contains(&name)) {
            let mut m2 = m.clone();
            let recv_txt = squash(&toks(&**init));
            // `&mut **self` / `&**self` as a receiver is `(**self)`, `*self` is `(*self)`
            let recv: Expr = match recv_txt.as_str() {
                "&mut**self" | "&**self" => syn::parse_str("(**self)").ok()?,
                "*self" => syn::parse_str("(*self)").ok()?,
                _ => (**init).clone(),
            };
            m2.receiver = Box::new(recv);
            return Some(Expr::MethodCall(m2));
        }
    }
    None
}

/// (callee, kind)
fn classify(f: &syn::ImplItemFn, generics: &[String]) -> (String, String) {
    let params: Vec<String> = f
        .sig
        .inputs
        .iter()
        .filter_map(|a| match a {
            FnArg::Typed(t) => Some(squash(&toks(&t.pat))),
            FnArg::Receiver(_) => None,
        })
        .collect();
    let owned: Option<Expr> = two_statement_form(&f.block);
    let e: &Expr = match (&owned, single_expr(&f.block)) {
        (Some(e), _) => e,
        (None, Some(e)) => e,
        (None, None) => return ("?".into(), "other".into()),
    };
    match e {
        Expr::MethodCall(m) => {
            let args: Vec<String> = m.args.iter().map(|a| squash(&toks(a))).collect();
            if args != params {
                return (m.method.to_string(), "other".into());
            }
            let recv = squash(&toks(&m.receiver));
            let kind = match recv.as_str() {
                "(**self)" => "deref",
                "(*self)" => "deref1",
                "self" => "self",
                _ => "other",
            };
            (m.method.to_string(), kind.into())
        }
        Expr::Call(c) => {
            let Expr::Path(p) = &*c.func else {
                return ("?".into(), "other".into());
            };
            let callee = p.path.segments.last().map(|s| s.ident.to_string()).unwrap_or_default();
            let args: Vec<String> = c.args.iter().map(|a| squash(&toks(a))).collect();
            let mut want_self = vec!["self".to_string()];
            want_self.extend(params.iter().cloned());
            let mut want_deref = vec!["*self".to_string()];
            want_deref.extend(params.iter().cloned());
            // `G::m(&mut **self, args)` / `G::m(&**self, args)` with `G` a type parameter of the impl: the same
            // function `(**self).m(args)` resolves to (a type parameter has no inherent methods)
            let first = args.first().cloned().unwrap_or_default();
            let derefs_box = first == "&mut**self" || first == "&**self" || first == "self.as_ref()" || first == "self.as_mut()";
            if derefs_box && args[1..] == params[..] && p.qself.is_none() && p.path.segments.len() == 2
                && generics.contains(&p.path.segments[0].ident.to_string())
            {
                return (callee, "deref".into());
            }
            // `<G as Trait<K>>::m(&**self, args)`: the same, fully qualified
            if let Some(q) = &p.qself {
                let qt = squash(&toks(&*q.ty));
                if derefs_box && args[1..] == params[..] && generics.contains(&qt) {
                    return (callee, "deref".into());
                }
            }
            // a reborrow of `self` (`&*self`, `&mut *self`) names the same receiver as `self` / `*self`
            let reborrow = (first == "&*self" || first == "&mut*self") && args[1..] == params[..];
            if args != want_self && args != want_deref && !reborrow {
                return (callee, "other".into());
            }
            if p.qself.is_some() {
                (callee, "ufcs-trait".into())
            } else if p.path.segments.len() == 2 {
                let first = p.path.segments[0].ident.to_string();
                if generics.contains(&first) {
                    (callee, "ufcs-trait".into())
                } else {
                    (callee, format!("inherent-ufcs:{first}"))
                }
            } else {
                (callee, "other".into())
            }
        }
        _ => ("?".into(), "other".into()),
    }
}

pub fn wrapper_lean(w: &str) -> String {
    match w {
        "Box" => ".box".into(),
        "&mut" => ".refMut".into(),
        "&" => ".ref".into(),
        "&ThreadedRodeo" => ".threadedRef".into(),
        "Rodeo" => ".rodeo".into(),
        "ThreadedRodeo" => ".threaded".into(),
        "RodeoReader" => ".reader".into(),
        "RodeoResolver" => ".resolver".into(),
        other => format!("(.other {})", lean::s(other)),
    }
}

pub fn method_lean(m: &str) -> String {
    match m {
        "get_or_intern" => ".getOrIntern".into(),
        "try_get_or_intern" => ".tryGetOrIntern".into(),
        "get_or_intern_static" => ".getOrInternStatic".into(),
        "try_get_or_intern_static" => ".tryGetOrInternStatic".into(),
        "get" => ".get".into(),
        "contains" => ".contains".into(),
        "resolve" => ".resolve".into(),
        "try_resolve" => ".tryResolve".into(),
        "resolve_unchecked" => ".resolveUnchecked".into(),
        "contains_key" => ".containsKey".into(),
        "len" => ".len".into(),
        "is_empty" => ".isEmpty".into(),
        "into_reader" => ".intoReader".into(),
        "into_resolver" => ".intoResolver".into(),
        "into_reader_boxed" => ".intoReaderBoxed".into(),
        "into_resolver_boxed" => ".intoResolverBoxed".into(),
        other => format!("(.other {})", lean::s(other)),
    }
}

fn kind_lean(k: &str) -> String {
    match k {
        "deref" => ".deref".into(),
        "deref1" => ".deref1".into(),
        "self" => ".self_".into(),
        "ufcs-trait" => ".ufcsTrait".into(),
        _ if k.starts_with("inherent-ufcs:") => format!("(.inherentUfcs {})", wrapper_lean(&k[14..])),
        _ => ".other".into(),
    }
}

pub fn emit(src: &Path, out: &mut String) {
    let mut items = Vec::new();
    let dir = src.join("interface");
    let mut files: Vec<_> = std::fs::read_dir(&dir)
        .map(|d| d.filter_map(|e| e.ok()).map(|e| e.path()).collect())
        .unwrap_or_else(|_| Vec::new());
    files.sort();
    for path in files {
        if path.extension().map(|e| e != "rs").unwrap_or(true) || path.file_name().map(|n| n == "tests.rs").unwrap_or(false) {
            continue;
        }
        let file = parse_file(&path);
        for item in &file.items {
            let Item::Impl(imp) = item else { continue };
            let Some((_, tr, _)) = &imp.trait_ else { continue };
            let trait_name = tr.segments.last().map(|s| s.ident.to_string()).unwrap_or_default();
            let wrapper = wrapper_name(&imp.self_ty);
            let generics: Vec<String> = imp
                .generics
                .params
                .iter()
                .filter_map(|g| match g {
                    syn::GenericParam::Type(t) => Some(t.ident.to_string()),
                    _ => None,
                })
                .collect();
            for it in &imp.items {
                if let ImplItem::Fn(f) = it {
                    let (callee, kind) = classify(f, &generics);
                    items.push(format!(
                        "{{ wrapper := {}, trait_ := {}, method := {}, callee := {}, calleeKind := {} }}",
                        wrapper_lean(&wrapper),
                        lean::s(&trait_name),
                        method_lean(&f.sig.ident.to_string()),
                        method_lean(&callee),
                        kind_lean(&kind)
                    ));
                }
            }
        }
    }
    out.push_str("/-- Every method of every forwarding impl in interface/*.rs. -/\n");
    out.push_str(&format!("def forwards : List Forward := {}\n\n", lean::list(&items)));
}
