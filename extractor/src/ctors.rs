//! Constructors: what every `Rodeo::*` / `ThreadedRodeo::*` constructor hands to the one constructor that
//! builds the fields (`with_capacity_memory_limits_and_hasher`), what that one does with its arguments,
//! and the values produced by the `Capacity` / `MemoryLimits` builders (util.rs).
//!
//! Calls between constructors are resolved transitively (`default()` -> `new()` -> full constructor), and
//! locals are substituted, so the result does not depend on how the forwarding is spelled.

use crate::{lean, parse_file, toks};
use std::collections::HashMap;
use std::path::Path;
use syn::{Expr, ImplItem, Item, Stmt};

fn squash(s: &str) -> String {
    s.chars().filter(|c| !c.is_whitespace()).collect()
}

fn peel(e: &Expr) -> &Expr {
    match e {
        Expr::Paren(p) => peel(&p.expr),
        Expr::Group(g) => peel(&g.expr),
        Expr::Unsafe(u) if u.block.stmts.len() == 1 => match &u.block.stmts[0] {
            Stmt::Expr(x, None) => peel(x),
            _ => e,
        },
        Expr::Block(b) if b.block.stmts.len() == 1 && b.label.is_none() => match &b.block.stmts[0] {
            Stmt::Expr(x, None) => peel(x),
            _ => e,
        },
        _ => e,
    }
}

fn tail(block: &syn::Block) -> Option<&Expr> {
    match block.stmts.last() {
        Some(Stmt::Expr(e, None)) => Some(peel(e)),
        _ => None,
    }
}

#[derive(Clone, Copy, PartialEq)]
enum Role {
    Cap,
    Lim,
    Hasher,
}

/// (name, role) of the typed parameters of a constructor
fn params(sig: &syn::Signature) -> Vec<(String, Role)> {
    let mut v = Vec::new();
    for a in &sig.inputs {
        if let syn::FnArg::Typed(t) = a {
            let ty = squash(&toks(&*t.ty));
            let role = if ty == "Capacity" {
                Role::Cap
            } else if ty == "MemoryLimits" {
                Role::Lim
            } else {
                Role::Hasher
            };
            v.push((squash(&toks(&*t.pat)).trim_start_matches("mut").to_string(), role));
        }
    }
    v
}

const FULL: &str = "with_capacity_memory_limits_and_hasher";

/// Classify an argument expression of a constructor call, in terms of the caller's parameters.
fn classify(e: &Expr, role: Role, ps: &[(String, Role)], lets: &HashMap<String, Expr>) -> String {
    let e = peel(e);
    if let Expr::Path(p) = e {
        if p.path.segments.len() == 1 {
            let id = p.path.segments[0].ident.to_string();
            if ps.iter().any(|(n, r)| *n == id && *r == role) {
                return ".param".into();
            }
            if let Some(init) = lets.get(&id) {
                return classify(init, role, ps, lets);
            }
        }
    }
    let t = squash(&toks(e));
    match (role, t.as_str()) {
        (Role::Cap, "Capacity::default()") | (Role::Lim, "MemoryLimits::default()") => ".default".into(),
        (Role::Cap | Role::Lim, "Default::default()") => ".default".into(),
        (Role::Hasher, "RandomState::new()") => ".randomNew".into(),
        (Role::Hasher, "Default::default()" | "S::default()" | "RandomState::default()") => ".default".into(),
        _ => format!("(.other {})", lean::s(&t)),
    }
}

struct Ctor {
    ps: Vec<(String, Role)>,
    block: syn::Block,
}

/// (cap, lim, hasher) of constructor `name`, resolved down to the full constructor.
fn resolve(name: &str, ctors: &HashMap<String, Ctor>, depth: usize) -> [String; 3] {
    let other = |why: &str| -> [String; 3] {
        let o = format!("(.other {})", lean::s(why));
        [o.clone(), o.clone(), o]
    };
    if name == FULL {
        return [".param".into(), ".param".into(), ".param".into()];
    }
    let Some(c) = ctors.get(name) else { return other(&format!("no constructor {name}")) };
    if depth > 6 {
        return other("constructor forwarding too deep");
    }
    // leading `let x = <expr>;` bindings, then one call `Self::target(args)` / `Type::target(args)`
    let mut lets: HashMap<String, Expr> = HashMap::new();
    let n = c.block.stmts.len();
    for (i, st) in c.block.stmts.iter().enumerate() {
        if i + 1 == n {
            break;
        }
        match st {
            Stmt::Local(l) => {
                let pat = match &l.pat {
                    syn::Pat::Type(pt) => &*pt.pat,
                    p => p,
                };
                let (syn::Pat::Ident(pi), Some(init)) = (pat, &l.init) else { return other("unrecognised statement") };
                lets.insert(pi.ident.to_string(), (*init.expr).clone());
            }
            _ => return other("unrecognised statement"),
        }
    }
    let Some(Expr::Call(call)) = tail(&c.block) else { return other(&squash(&toks(&c.block))) };
    let f = squash(&toks(&*call.func));
    let target = f.rsplit("::").next().unwrap_or("").to_string();
    let prefix_ok = f.starts_with("Self::") || f.starts_with("Rodeo::") || f.starts_with("ThreadedRodeo::") || f.starts_with("Rodeo::<") || f.starts_with("ThreadedRodeo::<");
    if !prefix_ok {
        return other(&f);
    }
    let tps: Vec<(String, Role)> = if target == FULL {
        match ctors.get(FULL) {
            Some(t) => t.ps.clone(),
            None => return other("full constructor missing"),
        }
    } else {
        match ctors.get(&target) {
            Some(t) => t.ps.clone(),
            None => return other(&format!("no constructor {target}")),
        }
    };
    if tps.len() != call.args.len() {
        return other("arity");
    }
    let inner = resolve(&target, ctors, depth + 1);
    let mut out: [String; 3] = [String::new(), String::new(), String::new()];
    for (slot, role) in [(0, Role::Cap), (1, Role::Lim), (2, Role::Hasher)] {
        out[slot] = if inner[slot] == ".param" {
            // the target takes it from its own parameter of that role: classify our argument at that position
            match tps.iter().position(|(_, r)| *r == role) {
                Some(pos) => classify(&call.args[pos], role, &c.ps, &lets),
                None => format!("(.other {})", lean::s("target has no such parameter")),
            }
        } else {
            inner[slot].clone()
        };
    }
    out
}

/// What the full constructor does with its parameters.
fn full_ctor(c: &Ctor) -> [String; 4] {
    let o = |s: &str| format!("(.other {})", lean::s(s));
    // names -> sources
    let mut env: HashMap<String, &'static str> = HashMap::new();
    let cap_p = c.ps.iter().find(|(_, r)| *r == Role::Cap).map(|(n, _)| n.clone()).unwrap_or_default();
    let lim_p = c.ps.iter().find(|(_, r)| *r == Role::Lim).map(|(n, _)| n.clone()).unwrap_or_default();
    let field_src = |owner: &str, member: &str| -> Option<&'static str> {
        match (owner, member) {
            ("cap", "strings") => Some(".capStrings"),
            ("cap", "bytes") => Some(".capBytes"),
            ("lim", "max_memory_usage") => Some(".limMax"),
            _ => None,
        }
    };
    let n = c.block.stmts.len();
    for (i, st) in c.block.stmts.iter().enumerate() {
        if i + 1 == n {
            break;
        }
        let Stmt::Local(l) = st else { return [o("stmt"), o("stmt"), o("stmt"), "none".into()] };
        let Some(init) = &l.init else { continue };
        let src = squash(&toks(&*init.expr));
        let owner = if src == cap_p {
            "cap"
        } else if src == lim_p {
            "lim"
        } else {
            ""
        };
        match &l.pat {
            syn::Pat::Struct(ps) if !owner.is_empty() => {
                for fp in &ps.fields {
                    if let syn::Pat::Ident(pi) = &*fp.pat {
                        if let Some(s) = field_src(owner, &squash(&toks(&fp.member))) {
                            env.insert(pi.ident.to_string(), s);
                        }
                    }
                }
            }
            syn::Pat::Ident(pi) => {
                // `let bytes = capacity.bytes;` / `capacity.bytes()`
                let e = peel(&init.expr);
                let (base, member) = match e {
                    Expr::Field(f) => (squash(&toks(&*f.base)), squash(&toks(&f.member))),
                    Expr::MethodCall(m) if m.args.is_empty() => (squash(&toks(&*m.receiver)), m.method.to_string()),
                    _ => (String::new(), String::new()),
                };
                let owner = if base == cap_p {
                    "cap"
                } else if base == lim_p {
                    "lim"
                } else {
                    ""
                };
                if let Some(s) = field_src(owner, &member) {
                    env.insert(pi.ident.to_string(), s);
                }
            }
            _ => {}
        }
    }
    let src_of = |e: &Expr| -> String {
        let e = peel(e);
        match e {
            Expr::Path(p) if p.path.segments.len() == 1 => {
                let id = p.path.segments[0].ident.to_string();
                env.get(&id).map(|s| s.to_string()).unwrap_or_else(|| o(&id))
            }
            Expr::Field(f) => {
                let base = squash(&toks(&*f.base));
                let owner = if base == cap_p { "cap" } else if base == lim_p { "lim" } else { "" };
                field_src(owner, &squash(&toks(&f.member))).map(|s| s.to_string()).unwrap_or_else(|| o(&squash(&toks(e))))
            }
            Expr::MethodCall(m) if m.args.is_empty() => {
                let base = squash(&toks(&*m.receiver));
                let owner = if base == cap_p { "cap" } else if base == lim_p { "lim" } else { "" };
                field_src(owner, &m.method.to_string()).map(|s| s.to_string()).unwrap_or_else(|| o(&squash(&toks(e))))
            }
            Expr::Lit(l) => squash(&toks(l)).parse::<u128>().map(|n| format!("(.lit {n})")).unwrap_or_else(|_| o(&squash(&toks(l)))),
            _ => o(&squash(&toks(e))),
        }
    };
    // `let arena = LockfreeArena::new(..).expect(..);` etc.: fields given as locals
    let mut field_lets: HashMap<String, &Expr> = HashMap::new();
    for st in c.block.stmts.iter() {
        if let Stmt::Local(l) = st {
            let pat = match &l.pat {
                syn::Pat::Type(pt) => &*pt.pat,
                p => p,
            };
            if let (syn::Pat::Ident(pi), Some(init)) = (pat, &l.init) {
                field_lets.insert(pi.ident.to_string(), &*init.expr);
            }
        }
    }
    let Some(Expr::Struct(st)) = tail(&c.block) else { return [o("no struct literal"), o(""), o(""), "none".into()] };
    let mut arena_bytes = o("no arena field");
    let mut arena_max = o("no arena field");
    let mut presize: Vec<String> = Vec::new();
    let mut key_start = "none".to_string();
    for f in &st.fields {
        let name = squash(&toks(&f.member));
        // strip `.expect(..)` / `.unwrap()`
        let mut e = peel(&f.expr);
        if let Expr::Path(p) = e {
            if p.path.segments.len() == 1 {
                if let Some(init) = field_lets.get(&p.path.segments[0].ident.to_string()) {
                    e = peel(init);
                }
            }
        }
        while let Expr::MethodCall(m) = e {
            if m.method == "expect" || m.method == "unwrap" {
                e = peel(&m.receiver);
            } else {
                break;
            }
        }
        if let Expr::Call(call) = e {
            let func = squash(&toks(&*call.func));
            match (name.as_str(), func.as_str()) {
                ("arena", "Arena::new" | "LockfreeArena::new") if call.args.len() == 2 => {
                    arena_bytes = src_of(&call.args[0]);
                    arena_max = src_of(&call.args[1]);
                }
                ("map" | "strings", fname) if fname.ends_with("::with_capacity_and_hasher") || fname.ends_with("::with_capacity") => {
                    if let Some(a) = call.args.first() {
                        presize.push(src_of(a));
                    }
                }
                ("key", "AtomicUsize::new") if call.args.len() == 1 => {
                    if let Ok(n) = squash(&toks(&call.args[0])).parse::<u128>() {
                        key_start = format!("(some {n})");
                    }
                }
                _ => {}
            }
        }
    }
    presize.sort();
    presize.dedup();
    let presize = if presize.len() == 1 { presize[0].clone() } else { o(&presize.join("|")) };
    [arena_bytes, arena_max, presize, key_start]
}

fn ctor_name(n: &str) -> String {
    match n {
        "new" => ".new".into(),
        "with_capacity" => ".withCapacity".into(),
        "with_memory_limits" => ".withMemoryLimits".into(),
        "with_capacity_and_memory_limits" => ".withCapacityAndMemoryLimits".into(),
        "with_hasher" => ".withHasher".into(),
        "with_capacity_and_hasher" => ".withCapacityAndHasher".into(),
        FULL => ".full".into(),
        "default" => ".default".into(),
        other => format!("(.other {})", lean::s(other)),
    }
}

thread_local! {
    /// `const NAME: T = <value>;` items of util.rs (name -> squashed value expression is re-parsed on use)
    static CONSTS: std::cell::RefCell<HashMap<String, Expr>> = std::cell::RefCell::new(HashMap::new());
}

/// A value of a builder's field.
fn cval(e: &Expr, ps: &[String]) -> String {
    let e = peel(e);
    let t = squash(&toks(e));
    if ps.contains(&t) {
        return ".param".into();
    }
    if let Some(c) = CONSTS.with(|m| m.borrow().get(&t).cloned()) {
        return cval(&c, &[]);
    }
    if t == "usize::MAX" || t == "usize::max_value()" || t == "core::usize::MAX" {
        return ".usizeMax".into();
    }
    if let Ok(n) = t.parse::<u128>() {
        return format!("(.lit {n})");
    }
    if let Expr::Call(c) = e {
        let f = squash(&toks(&*c.func));
        if (f == "NonZeroUsize::new_unchecked" || f.ends_with("::NonZeroUsize::new_unchecked")) && c.args.len() == 1 {
            return cval(&c.args[0], ps);
        }
    }
    format!("(.other {})", lean::s(&t))
}

pub fn emit(src: &Path, out: &mut String) {
    let mut specs: Vec<String> = Vec::new();
    let mut fulls: Vec<String> = Vec::new();
    for (file, ty, owner) in [("rodeo.rs", "Rodeo<", ".rodeo"), ("threaded_rodeo.rs", "ThreadedRodeo<", ".threaded")] {
        let path = src.join(file);
        if !path.exists() {
            continue;
        }
        let parsed = parse_file(&path);
        let mut ctors: HashMap<String, Ctor> = HashMap::new();
        let mut order: Vec<String> = Vec::new();
        for item in &parsed.items {
            let Item::Impl(im) = item else { continue };
            if !squash(&toks(&*im.self_ty)).starts_with(ty) {
                continue;
            }
            let is_default = im.trait_.as_ref().map(|(_, p, _)| squash(&toks(p)) == "Default").unwrap_or(false);
            if im.trait_.is_some() && !is_default {
                continue;
            }
            for it in &im.items {
                let ImplItem::Fn(f) = it else { continue };
                let name = f.sig.ident.to_string();
                let returns_self = matches!(&f.sig.output, syn::ReturnType::Type(_, t) if squash(&toks(&**t)) == "Self");
                let no_recv = f.sig.receiver().is_none();
                if !(returns_self && no_recv) || name.starts_with("verif_") {
                    continue;
                }
                if !(name == "new" || name == "default" || name.starts_with("with_")) {
                    continue;
                }
                order.push(name.clone());
                ctors.insert(name, Ctor { ps: params(&f.sig), block: f.block.clone() });
            }
        }
        order.sort();
        for name in &order {
            if name == FULL {
                continue;
            }
            let r = resolve(name, &ctors, 0);
            specs.push(format!("{{ owner := {owner}, name := {}, cap := {}, lim := {}, hasher := {} }}", ctor_name(name), r[0], r[1], r[2]));
        }
        match ctors.get(FULL) {
            Some(c) => {
                let f = full_ctor(c);
                fulls.push(format!("{{ owner := {owner}, arenaBytes := {}, arenaMax := {}, tablePresize := {}, keyStart := {} }}", f[0], f[1], f[2], f[3]));
            }
            None => fulls.push(format!("{{ owner := {owner}, arenaBytes := (.other \"missing\"), arenaMax := (.other \"missing\"), tablePresize := (.other \"missing\"), keyStart := none }}")),
        }
    }
    out.push_str("/-- Every constructor of the two interners, resolved down to the arguments of the full constructor. -/\n");
    out.push_str(&format!("def ctorSpecs : List CtorSpec := {}\n\n", lean::list(&specs)));
    out.push_str("/-- What `with_capacity_memory_limits_and_hasher` does with its arguments. -/\n");
    out.push_str(&format!("def fullCtors : List FullCtor := {}\n\n", lean::list(&fulls)));

    // builders (util.rs)
    let mut caps: Vec<String> = Vec::new();
    let mut lims: Vec<String> = Vec::new();
    let upath = src.join("util.rs");
    if upath.exists() {
        let parsed = parse_file(&upath);
        CONSTS.with(|m| {
            let mut m = m.borrow_mut();
            m.clear();
            for item in &parsed.items {
                if let Item::Const(c) = item {
                    m.insert(c.ident.to_string(), (*c.expr).clone());
                }
            }
        });
        // first the Default impls (for `..Self::default()`)
        let mut defaults: HashMap<(String, String), String> = HashMap::new();
        let mut fns: Vec<(String, String, Vec<String>, syn::Block)> = Vec::new();
        for item in &parsed.items {
            let Item::Impl(im) = item else { continue };
            let ty = squash(&toks(&*im.self_ty));
            if ty != "Capacity" && ty != "MemoryLimits" {
                continue;
            }
            let is_default = im.trait_.as_ref().map(|(_, p, _)| squash(&toks(p)) == "Default").unwrap_or(false);
            if im.trait_.is_some() && !is_default {
                continue;
            }
            for it in &im.items {
                let ImplItem::Fn(f) = it else { continue };
                let returns_self = matches!(&f.sig.output, syn::ReturnType::Type(_, t) if squash(&toks(&**t)) == "Self");
                if !returns_self || f.sig.receiver().is_some() {
                    continue;
                }
                let ps: Vec<String> = f.sig.inputs.iter().filter_map(|a| match a {
                    syn::FnArg::Typed(t) => Some(squash(&toks(&*t.pat))),
                    _ => None,
                }).collect();
                fns.push((ty.clone(), f.sig.ident.to_string(), ps, f.block.clone()));
            }
        }
        let fns_snapshot: Vec<(String, String, Vec<String>, syn::Block)> = fns.clone();
        let fields_of = |block: &syn::Block, ps: &[String]| -> Option<(Vec<(String, String)>, bool)> {
            // a builder that only calls a sibling builder with its own parameters in the same order
            if let Some(Expr::Call(c)) = tail(block) {
                let f = squash(&toks(&*c.func));
                if let Some(target) = f.strip_prefix("Self::") {
                    let args: Vec<String> = c.args.iter().map(|a| squash(&toks(a))).collect();
                    if let Some((_, _, tps, tblock)) = fns_snapshot.iter().find(|(_, n, tps, _)| n == target && tps.len() == args.len()) {
                        if args == *ps && tps.len() == ps.len() && block.stmts.len() == 1 {
                            if let Some(Expr::Struct(st)) = tail(tblock) {
                                let v = st.fields.iter().map(|f| (squash(&toks(&f.member)), cval(&f.expr, tps))).collect();
                                return Some((v, st.rest.is_some()));
                            }
                        }
                    }
                }
            }
            let Some(Expr::Struct(st)) = tail(block) else { return None };
            let mut v = Vec::new();
            for f in &st.fields {
                v.push((squash(&toks(&f.member)), cval(&f.expr, ps)));
            }
            let rest_default = match &st.rest {
                Some(r) => {
                    let t = squash(&toks(&**r));
                    if t == "Self::default()" || t == "Default::default()" {
                        true
                    } else {
                        return None;
                    }
                }
                None => false,
            };
            Some((v, rest_default))
        };
        for (ty, name, ps, block) in &fns {
            if name == "default" {
                if let Some((v, _)) = fields_of(block, ps) {
                    for (k, val) in v {
                        defaults.insert((ty.clone(), k), val);
                    }
                }
            }
        }
        let bname = |n: &str| -> String {
            match n {
                "new" => ".new".into(),
                "for_strings" => ".forStrings".into(),
                "for_bytes" => ".forBytes".into(),
                "minimal" => ".minimal".into(),
                "default" => ".default".into(),
                "for_memory_usage" => ".forMemoryUsage".into(),
                o => format!("(.other {})", lean::s(o)),
            }
        };
        fns.sort_by(|a, b| (a.0.clone(), a.1.clone()).cmp(&(b.0.clone(), b.1.clone())));
        for (ty, name, ps, block) in &fns {
            let get = |v: &Option<(Vec<(String, String)>, bool)>, k: &str| -> String {
                match v {
                    Some((fs, rest)) => match fs.iter().find(|(n, _)| n == k) {
                        Some((_, val)) => val.clone(),
                        None if *rest => defaults.get(&(ty.clone(), k.to_string())).cloned().unwrap_or_else(|| "(.other \"no default\")".into()),
                        None => "(.other \"field missing\")".into(),
                    },
                    None => format!("(.other {})", lean::s(&squash(&toks(block)))),
                }
            };
            let v = fields_of(block, ps);
            if ty == "Capacity" {
                caps.push(format!("{{ name := {}, strings := {}, bytes := {} }}", bname(name), get(&v, "strings"), get(&v, "bytes")));
            } else {
                lims.push(format!("{{ name := {}, max := {} }}", bname(name), get(&v, "max_memory_usage")));
            }
        }
    }
    out.push_str("/-- The `Capacity` builders (util.rs). -/\n");
    out.push_str(&format!("def capBuilders : List CapBuilder := {}\n\n", lean::list(&caps)));
    out.push_str("/-- The `MemoryLimits` builders (util.rs). -/\n");
    out.push_str(&format!("def limBuilders : List LimBuilder := {}\n\n", lean::list(&lims)));
}
