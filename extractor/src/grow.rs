//! Translator for the growth part of `store_str` (both arenas) and for the single-threaded
//! `allocate_memory`: the statements after `let next_capacity = …` become a `Source.GTree`.
//!
//! The translation is purely syntactic and never guesses: a statement or expression outside the
//! recognised vocabulary becomes `.unknown "<tokens>"`, whose semantics is `none`, so the theorem that
//! relates the tree to the hand-written model fails.

use crate::{lean, parse_file, toks};
use std::collections::HashMap;
use std::path::Path;
use syn::{Block, Expr, Stmt};

fn squash(s: &str) -> String {
    s.chars().filter(|c| !c.is_whitespace()).collect()
}

struct Ctx {
    /// locals that are plain aliases: name -> expression (already translated)
    alias: HashMap<String, String>,
}

fn var(name: &str) -> Option<&'static str> {
    Some(match name {
        "len" | "slice.len()" | "string.len()" => ".len",
        "self.memory_usage" | "memory_usage" | "self.current_memory_usage()" => ".usage",
        "self.max_memory_usage" | "max_memory_usage" | "self.get_max_memory_usage()" => ".max",
        "next_capacity" => ".nextCap",
        "remaining_memory" => ".remaining",
        "self.bucket_capacity.get()" | "self.bucket_capacity.load(Ordering::Relaxed)" => ".bucketCap",
        _ => return None,
    })
}

impl Ctx {
    fn expr(&self, e: &Expr) -> String {
        let t = squash(&toks(e));
        if let Some(a) = self.alias.get(&t) {
            return a.clone();
        }
        if let Some(v) = var(&t) {
            return format!("(.var {v})");
        }
        match e {
            Expr::Paren(p) => self.expr(&p.expr),
            Expr::Lit(l) => {
                if let syn::Lit::Int(i) = &l.lit {
                    if let Ok(n) = i.base10_parse::<u128>() {
                        return format!("(.lit {n})");
                    }
                }
                format!("(.unknown {})", lean::s(&t))
            }
            Expr::Binary(b) => {
                let op = match b.op {
                    syn::BinOp::Mul(_) => Some("mul"),
                    syn::BinOp::Add(_) => Some("add"),
                    _ => None,
                };
                match op {
                    Some(op) => format!("(.{op} {} {})", self.expr(&b.left), self.expr(&b.right)),
                    None => format!("(.unknown {})", lean::s(&t)),
                }
            }
            Expr::MethodCall(m) if m.method == "saturating_sub" && m.args.len() == 1 => {
                format!("(.satSub {} {})", self.expr(&m.receiver), self.expr(&m.args[0]))
            }
            _ => format!("(.unknown {})", lean::s(&t)),
        }
    }

    fn cond(&self, e: &Expr) -> String {
        if let Expr::Paren(p) = e {
            return self.cond(&p.expr);
        }
        if let Expr::Unary(u) = e {
            if matches!(u.op, syn::UnOp::Not(_)) {
                return format!("(.not {})", self.cond(&u.expr));
            }
        }
        if let Expr::Binary(b) = e {
            let op = match b.op {
                syn::BinOp::Gt(_) => Some("gt"),
                syn::BinOp::Lt(_) => Some("lt"),
                syn::BinOp::Ge(_) => Some("ge"),
                syn::BinOp::Le(_) => Some("le"),
                _ => None,
            };
            if let Some(op) = op {
                return format!("(.{op} {} {})", self.expr(&b.left), self.expr(&b.right));
            }
        }
        format!("(.unknown {})", lean::s(&squash(&toks(e))))
    }
}

#[derive(Default, Clone)]
struct Alloc {
    claim: Option<String>,
    size: Option<(String, bool)>,
    set_cap: Option<String>,
    place: Option<&'static str>,
    /// `NonZeroUsize` locals: name -> (size expression, checked)
    nz: HashMap<String, (String, bool)>,
}

/// `unsafe { NonZeroUsize::new_unchecked(E) }` / `NonZeroUsize::new(E).ok_or_else(..)?` / a local / `self.bucket_capacity`
fn size_of(ctx: &Ctx, a: &Alloc, e: &Expr) -> Option<(String, bool)> {
    let t = squash(&toks(e));
    if let Some(x) = a.nz.get(&t) {
        return Some(x.clone());
    }
    if t == "self.bucket_capacity" {
        // the capacity just stored
        return a.set_cap.clone().map(|c| (c, false));
    }
    match e {
        Expr::Unsafe(u) => {
            if u.block.stmts.len() == 1 {
                if let Stmt::Expr(inner, None) = &u.block.stmts[0] {
                    return size_of(ctx, a, inner);
                }
            }
            None
        }
        Expr::Call(c) => {
            let f = squash(&toks(&c.func));
            if f == "NonZeroUsize::new_unchecked" && c.args.len() == 1 {
                return Some((ctx.expr(&c.args[0]), false));
            }
            None
        }
        Expr::Match(m) => {
            // match NonZeroUsize::new(E) { Some(n) => n, None => return Err(MemoryLimitReached) }
            if let Expr::Call(c) = &*m.expr {
                if squash(&toks(&c.func)) == "NonZeroUsize::new" && c.args.len() == 1 && m.arms.len() == 2 {
                    let mut some_ok = false;
                    let mut none_ok = false;
                    for arm in &m.arms {
                        let pt = squash(&toks(&arm.pat));
                        let body = squash(&toks(&*arm.body));
                        if let Some(inner) = pt.strip_prefix("Some(").and_then(|r| r.strip_suffix(")")) {
                            some_ok = body == inner;
                        } else if pt == "None" {
                            none_ok = body == "returnErr(LassoError::new(LassoErrorKind::MemoryLimitReached))" || body == "{returnErr(LassoError::new(LassoErrorKind::MemoryLimitReached));}" || body == "{returnErr(LassoError::new(LassoErrorKind::MemoryLimitReached))}";
                        }
                    }
                    if some_ok && none_ok {
                        return Some((ctx.expr(&c.args[0]), true));
                    }
                }
            }
            None
        }
        Expr::Try(t) => {
            // NonZeroUsize::new(E).ok_or_else(|| LassoError::new(LassoErrorKind::MemoryLimitReached))?
            if let Expr::MethodCall(m) = &*t.expr {
                if m.method == "ok_or_else" && squash(&toks(&m.args[0])).contains("MemoryLimitReached") {
                    if let Expr::Call(c) = &*m.receiver {
                        if squash(&toks(&c.func)) == "NonZeroUsize::new" && c.args.len() == 1 {
                            return Some((ctx.expr(&c.args[0]), true));
                        }
                    }
                }
            }
            None
        }
        _ => None,
    }
}

fn is_hook_or_assert(s: &Stmt) -> bool {
    let t = match s {
        Stmt::Macro(m) => squash(&toks(&m.mac.path)),
        Stmt::Expr(e, _) => squash(&toks(e)),
        _ => return false,
    };
    t.starts_with("debug_assert") || t.starts_with("crate::verif::point(") || t.starts_with("#[cfg(lasso_verif)]crate::verif::point(")
}

fn is_err_return(e: &Expr) -> bool {
    let t = squash(&toks(e));
    t == "returnErr(LassoError::new(LassoErrorKind::MemoryLimitReached))" || t == "Err(LassoError::new(LassoErrorKind::MemoryLimitReached))"
}

fn finish(a: &Alloc, why: &str) -> String {
    match (&a.claim, &a.size, a.place) {
        (Some(c), Some((s, chk)), Some(p)) => format!(
            "(.alloc {{ claim := {c}, size := {s}, sizeChecked := {}, setCap := {}, place := {p} }})",
            lean::boolean(*chk),
            match &a.set_cap {
                Some(x) => format!("(some {x})"),
                None => "none".into(),
            }
        ),
        _ => format!("(.unknown {})", lean::s(&format!("incomplete allocation path ({why})"))),
    }
}

fn seq(ctx: &mut Ctx, stmts: &[Stmt], mut a: Alloc) -> String {
    for (i, s) in stmts.iter().enumerate() {
        if is_hook_or_assert(s) {
            continue;
        }
        match s {
            Stmt::Local(l) => {
                let name = match &l.pat {
                    syn::Pat::Ident(p) => p.ident.to_string(),
                    _ => return format!("(.unknown {})", lean::s(&squash(&toks(s)))),
                };
                let Some(init) = &l.init else { return format!("(.unknown {})", lean::s(&squash(&toks(s)))) };
                let it = squash(&toks(&*init.expr));
                match name.as_str() {
                    // loads of the two counters into locals (lock-free arena): aliases of the inputs
                    "memory_usage" if it == "self.current_memory_usage()" => continue,
                    "max_memory_usage" if it == "self.get_max_memory_usage()" => continue,
                    "bucket" => {
                        // `Bucket::with_capacity(SIZE)?` / `AtomicBucket::with_capacity(SIZE)?`
                        let mut ok = false;
                        if let Expr::Try(t) = &*init.expr {
                            if let Expr::Call(c) = &*t.expr {
                                let f = squash(&toks(&c.func));
                                if (f == "Bucket::with_capacity" || f == "AtomicBucket::with_capacity") && c.args.len() == 1 {
                                    if let Some(sz) = size_of(ctx, &a, &c.args[0]) {
                                        a.size = Some(sz);
                                        ok = true;
                                    }
                                }
                            }
                        }
                        if !ok {
                            return format!("(.unknown {})", lean::s(&squash(&toks(s))));
                        }
                    }
                    "allocated_string" | "allocated" if it == "unsafe{bucket.push_slice(slice)}" => {}
                    _ if it == "self.buckets.len().saturating_sub(2)" => {
                        // the insert position "before the last block", hoisted
                        ctx.alias.insert(format!("@pos:{name}"), "insertBeforeLast".into());
                    }
                    _ => {
                        // a NonZeroUsize local, or a pure arithmetic local (whatever its name): the latter is
                        // substituted at its uses — the inputs do not change between binding and use
                        if let Some(sz) = size_of(ctx, &a, &init.expr) {
                            a.nz.insert(name, sz);
                        } else {
                            let e = ctx.expr(&init.expr);
                            if e.contains(".unknown") || l.init.as_ref().map(|i| i.diverge.is_some()).unwrap_or(false) {
                                return format!("(.unknown {})", lean::s(&squash(&toks(s))));
                            }
                            ctx.alias.insert(name, e);
                        }
                    }
                }
            }
            Stmt::Expr(e, _) => {
                let t = squash(&toks(e));
                // `if let Err(e) = self.allocate_memory(X) { return Err(e); }`: the `?` written out
                if let Expr::If(f) = e {
                    if let (Expr::Let(l), None) = (&*f.cond, &f.else_branch) {
                        let pat = squash(&toks(&*l.pat));
                        let body = squash(&toks(&f.then_branch));
                        if let (Some(ev), Expr::MethodCall(m)) = (pat.strip_prefix("Err(").and_then(|x| x.strip_suffix(')')), &*l.expr) {
                            let ret_ok = body == format!("{{returnErr({ev});}}") || body == format!("{{returnErr({ev})}}");
                            if ret_ok && m.method == "allocate_memory" && squash(&toks(&m.receiver)) == "self" && m.args.len() == 1 {
                                if a.claim.is_some() {
                                    return format!("(.unknown {})", lean::s("two budget claims on one path"));
                                }
                                a.claim = Some(ctx.expr(&m.args[0]));
                                continue;
                            }
                        }
                    }
                }
                // if / else chains
                if let Expr::If(f) = e {
                    let c = ctx.cond(&f.cond);
                    let then_t = seq(ctx, &f.then_branch.stmts, a.clone());
                    match &f.else_branch {
                        Some((_, els)) => {
                            let else_t = match &**els {
                                Expr::Block(b) => seq(ctx, &b.block.stmts, a.clone()),
                                Expr::If(_) => seq(ctx, &[Stmt::Expr((**els).clone(), None)], a.clone()),
                                other => format!("(.unknown {})", lean::s(&squash(&toks(other)))),
                            };
                            // an if/else chain ends the sequence
                            if i + 1 != stmts.len() {
                                return format!("(.unknown {})", lean::s("statements after an if/else chain"));
                            }
                            return format!("(.ite {c} {then_t} {else_t})");
                        }
                        None => {
                            // a guard: `if C { return Err(..) }` followed by the rest
                            let rest = seq(ctx, &stmts[i + 1..], a);
                            return format!("(.ite {c} {then_t} {rest})");
                        }
                    }
                }
                if is_err_return(e) {
                    return ".err".into();
                }
                if t == "Ok(allocated_string)" || t == "returnOk(allocated_string)" {
                    return finish(&a, "Ok");
                }
                // allocate_memory(E)?
                if let Expr::Try(tr) = e {
                    if let Expr::MethodCall(m) = &*tr.expr {
                        if m.method == "allocate_memory" && squash(&toks(&m.receiver)) == "self" && m.args.len() == 1 {
                            if a.claim.is_some() {
                                return format!("(.unknown {})", lean::s("two budget claims on one path"));
                            }
                            a.claim = Some(ctx.expr(&m.args[0]));
                            continue;
                        }
                    }
                }
                // the new block capacity
                if let Expr::Assign(asg) = e {
                    if squash(&toks(&asg.left)) == "self.bucket_capacity" {
                        if let Some((sz, false)) = size_of(ctx, &a, &asg.right) {
                            a.set_cap = Some(sz);
                            continue;
                        }
                    }
                }
                if let Expr::MethodCall(m) = e {
                    let recv = squash(&toks(&m.receiver));
                    if m.method == "set_bucket_capacity" && recv == "self" && m.args.len() == 1 {
                        a.set_cap = Some(ctx.expr(&m.args[0]));
                        continue;
                    }
                    if recv == "self.buckets" {
                        let args: Vec<String> = m.args.iter().map(|x| squash(&toks(x))).collect();
                        let place = match (m.method.to_string().as_str(), args.as_slice()) {
                            ("push", [b]) if b == "bucket" => Some(".pushBack"),
                            ("insert", [p, b]) if b == "bucket" && (p == "self.buckets.len().saturating_sub(2)" || ctx.alias.contains_key(&format!("@pos:{p}"))) => Some(".insertBeforeLast"),
                            ("push_front", [b]) if b == "bucket.into_ref()" => Some(".pushFront"),
                            _ => None,
                        };
                        if let Some(p) = place {
                            if a.place.is_some() {
                                return format!("(.unknown {})", lean::s("block placed twice"));
                            }
                            a.place = Some(p);
                            continue;
                        }
                    }
                }
                return format!("(.unknown {})", lean::s(&t));
            }
            other => return format!("(.unknown {})", lean::s(&squash(&toks(other)))),
        }
    }
    format!("(.unknown {})", lean::s("path ends without a result"))
}

fn find_fn<'a>(file: &'a syn::File, ty: &str, name: &str) -> Option<&'a Block> {
    for item in &file.items {
        if let syn::Item::Impl(im) = item {
            if squash(&toks(&*im.self_ty)) != ty || im.trait_.is_some() {
                continue;
            }
            for it in &im.items {
                if let syn::ImplItem::Fn(f) = it {
                    if f.sig.ident == name {
                        return Some(&f.block);
                    }
                }
            }
        }
    }
    None
}

fn grow_tree(path: &Path, ty: &str) -> String {
    if !path.exists() {
        return "(.unknown \"file missing\")".into();
    }
    let file = parse_file(path);
    let Some(body) = find_fn(&file, ty, "store_str") else { return "(.unknown \"store_str not found\")".into() };
    // the growth part starts at `let next_capacity = …`
    // the growth part starts at the first local computed from the block capacity
    let start = body.stmts.iter().position(|s| match s {
        Stmt::Local(l) => l.init.as_ref().map(|i| squash(&toks(&*i.expr)).contains("bucket_capacity")).unwrap_or(false),
        _ => false,
    });
    let Some(start) = start else { return "(.unknown \"no local computed from the block capacity in store_str\")".into() };
    // what precedes it is the search for a block with room (modelled separately); make sure nothing
    // there touches the budget or the capacity
    for s in &body.stmts[..start] {
        let t = squash(&toks(s));
        if t.contains("allocate_memory") || t.contains("bucket_capacity") || t.contains("memory_usage") {
            return format!("(.unknown {})", lean::s("budget or capacity touched before the growth part"));
        }
    }
    let mut ctx = Ctx { alias: HashMap::new() };
    // locals bound before the growth part that only rename the string or its length
    let mut stringish: Vec<String> = vec!["string".into()];
    for s in &body.stmts[..start] {
        if let Stmt::Local(l) = s {
            if let (syn::Pat::Ident(p), Some(init)) = (&l.pat, &l.init) {
                let it = squash(&toks(&*init.expr));
                let name = p.ident.to_string();
                if stringish.iter().any(|x| it == format!("{x}.as_bytes()")) {
                    stringish.push(name);
                } else if stringish.iter().any(|x| it == format!("{x}.len()")) {
                    ctx.alias.insert(name, "(.var .len)".into());
                }
            }
        }
    }
    for x in &stringish {
        ctx.alias.insert(format!("{x}.len()"), "(.var .len)".into());
    }
    seq(&mut ctx, &body.stmts[start..], Alloc::default())
}

/// `Arena::allocate_memory`: `if usage + requested > max { Err } else { usage += requested; Ok }`
fn single_alloc_ok(path: &Path) -> bool {
    if !path.exists() {
        return false;
    }
    let file = parse_file(path);
    let Some(body) = find_fn(&file, "Arena", "allocate_memory") else { return false };
    let t = squash(&toks(body));
    let err = "Err(LassoError::new(LassoErrorKind::MemoryLimitReached))";
    let sum = "self.memory_usage+requested_mem";
    let max = "self.max_memory_usage";
    // the same check-then-add, spelled as if/else, as an early return, with the sum in a local or the
    // comparison mirrored
    let mut forms: Vec<String> = Vec::new();
    for cond in [format!("{sum}>{max}"), format!("{max}<{sum}")] {
        forms.push(format!("{{if{cond}{{{err}}}else{{self.memory_usage+=requested_mem;Ok(())}}}}"));
        forms.push(format!("{{if{cond}{{return{err};}}self.memory_usage+=requested_mem;Ok(())}}"));
        forms.push(format!("{{if{cond}{{return{err}}}self.memory_usage+=requested_mem;Ok(())}}"));
    }
    let dyn_local: Option<String> = t.strip_prefix("{let").and_then(|r| r.split_once(&format!("={sum};"))).map(|(n, _)| n.to_string()).filter(|n| !n.is_empty() && n.chars().all(|c| c.is_alphanumeric() || c == '_'));
    for local in ["new_usage", "usage", "next_usage", "total", "new_memory_usage"].into_iter().map(String::from).chain(dyn_local) {
        for cond in [format!("{local}>{max}"), format!("{max}<{local}")] {
            forms.push(format!("{{let{local}={sum};if{cond}{{return{err};}}self.memory_usage={local};Ok(())}}"));
            forms.push(format!("{{let{local}={sum};if{cond}{{{err}}}else{{self.memory_usage={local};Ok(())}}}}"));
        }
    }
    forms.contains(&t)
}

pub fn emit(src: &Path, out: &mut String) {
    out.push_str("/-- The growth part of `Arena::store_str` (arenas/single_threaded.rs), translated. -/\n");
    out.push_str(&format!("def arenaGrow : GTree :=\n  {}\n\n", grow_tree(&src.join("arenas/single_threaded.rs"), "Arena")));
    out.push_str("/-- The growth part of `LockfreeArena::store_str` (arenas/lockfree.rs), translated. -/\n");
    out.push_str(&format!("def lockfreeGrow : GTree :=\n  {}\n\n", grow_tree(&src.join("arenas/lockfree.rs"), "LockfreeArena")));
    out.push_str("/-- `Arena::allocate_memory` is literally `if usage + n > max { Err } else { usage += n; Ok }`. -/\n");
    out.push_str(&format!(
        "def arenaAllocateIsCheckThenAdd : Bool := {}\n\n",
        lean::boolean(single_alloc_ok(&src.join("arenas/single_threaded.rs")))
    ));
}
