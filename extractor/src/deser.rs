//! The four `Deserialize` impls (rodeo.rs, reader.rs, resolver.rs, threaded_rodeo.rs) as sequences of
//! effects in evaluation order: what is read, how the containers are pre-sized, the arena's limit, and -
//! inside the loop - store, hash, probe, the rejections, the key check with the index it is applied to,
//! the pushes / inserts, and the final validation.  The model's deserialisers (`LassoModel/Serde.lean`)
//! mirror exactly these sequences; `LassoProofs` decides that the regenerated sequences are the mirrored ones.
//!
//! Closures handed to other functions (the eq / re-hash closures) are not descended into: the re-hash
//! closures are covered by the hash sites.

use crate::{lean, parse_file, toks};
use std::path::Path;
use syn::visit::Visit;
use syn::{Expr, Pat};

fn squash(s: &str) -> String {
    s.chars().filter(|c| !c.is_whitespace()).collect()
}

/// `match e { Ok(x) => x, Err(err) => return Err(err) }` is `e?` written out: the squashed `e`
fn try_as_match(e: &Expr) -> Option<String> {
    let Expr::Match(m) = e else { return None };
    if m.arms.len() != 2 {
        return None;
    }
    let mut ok = false;
    let mut err = false;
    for a in &m.arms {
        let p = squash(&toks(&a.pat));
        let b = squash(&toks(&*a.body));
        let b = b.trim_end_matches(',');
        if let Some(x) = p.strip_prefix("Ok(").and_then(|x| x.strip_suffix(')')) {
            ok = b == x && a.guard.is_none();
        } else if let Some(x) = p.strip_prefix("Err(").and_then(|x| x.strip_suffix(')')) {
            err = a.guard.is_none() && (b == format!("returnErr({x})") || b == format!("returnErr({x}.into())") || b == format!("returnErr(From::from({x}))"));
        }
    }
    if ok && err {
        Some(squash(&toks(&*m.expr)))
    } else {
        None
    }
}

struct V {
    out: Vec<String>,
    /// the variable holding the deserialised list / map
    input: String,
    /// variables bound to `Capacity::new(<input>.len(), ..)`
    capacities: Vec<String>,
    /// variables bound to `<input>.len()`
    lens: Vec<String>,
    /// variables bound to `<input>.len() - 1` (through `checked_sub(1)` / `Some(x)`)
    last_index: Vec<String>,
    /// the index variable of `for (i, x) in <input>.into_iter().enumerate()`
    loop_index: Vec<String>,
    /// the key variable of `for (string, key) in <map>`
    loop_key: Vec<String>,
    /// the counter variable of the concurrent interner's deserialiser (`let mut next_key = 0`)
    counters: Vec<String>,
    /// locals bound to the (not yet unwrapped) result of `arena.store_str(..)`
    stored: Vec<String>,
    /// boolean locals: name -> squashed defining expression
    bools: std::collections::HashMap<String, String>,
}

impl V {
    fn push(&mut self, e: &str) {
        self.out.push(e.to_string());
    }
    fn other(&mut self, t: &str) {
        self.out.push(format!("(.other {})", lean::s(t)));
    }
    fn is_input_len(&self, e: &Expr) -> bool {
        let t = squash(&toks(e));
        t == format!("{}.len()", self.input) || self.lens.contains(&t)
    }
    fn is_entry_count(&self, e: &Expr) -> bool {
        // `<input>.len()` or `<capacity>.strings` / `<capacity>.strings()`
        if self.is_input_len(e) {
            return true;
        }
        let t = squash(&toks(e));
        self.capacities.iter().any(|c| t == format!("{c}.strings") || t == format!("{c}.strings()"))
    }
    fn karg(&self, e: &Expr) -> &'static str {
        let t = squash(&toks(e));
        if self.loop_index.contains(&t) {
            ".loopIndex"
        } else if self.last_index.contains(&t) || t == format!("{}.len()-1", self.input) {
            ".lenMinusOne"
        } else if self.is_input_len(e) {
            ".len"
        } else {
            ".other"
        }
    }
    fn is_checked_sub_one(&self, e: &Expr) -> bool {
        let t = squash(&toks(e));
        t == format!("{}.len().checked_sub(1)", self.input) || self.lens.iter().any(|l| t == format!("{l}.checked_sub(1)"))
    }
    fn bind_some(&mut self, pat: &Pat, scrutinee: &Expr) {
        if !self.is_checked_sub_one(scrutinee) {
            return;
        }
        if let Pat::TupleStruct(ts) = pat {
            if squash(&toks(&ts.path)) == "Some" && ts.elems.len() == 1 {
                if let Pat::Ident(pi) = &ts.elems[0] {
                    self.last_index.push(pi.ident.to_string());
                }
            }
        }
    }
}

impl<'ast> Visit<'ast> for V {
    fn visit_expr_closure(&mut self, _c: &'ast syn::ExprClosure) {
        // not descended into (see module comment)
    }
    fn visit_local(&mut self, l: &'ast syn::Local) {
        if let (Pat::Ident(pi), Some(init)) = (&l.pat, &l.init) {
            let name = pi.ident.to_string();
            let t = squash(&toks(&*init.expr));
            if t == format!("{}.len()", self.input) {
                self.lens.push(name.clone());
            }
            if t == "0" && pi.mutability.is_some() {
                self.counters.push(name.clone());
            }
            if t.contains("==") || t.contains("!=") {
                self.bools.insert(name.clone(), t.clone());
            }
            {
                // `let stored = unsafe { arena.store_str(..) };`
                let mut e: &Expr = &init.expr;
                if let Expr::Unsafe(u) = e {
                    if let Some(syn::Stmt::Expr(inner, None)) = u.block.stmts.last() {
                        e = inner;
                    }
                }
                if matches!(e, Expr::MethodCall(m) if m.method == "store_str") {
                    self.stored.push(name.clone());
                }
            }
            // `let capacity = { ..; Capacity::new(<input>.len(), bytes) }` (or without the block)
            let mut e: &Expr = &init.expr;
            if let Expr::Block(b) = e {
                if let Some(syn::Stmt::Expr(last, None)) = b.block.stmts.last() {
                    e = last;
                }
            }
            if let Expr::Call(c) = e {
                if squash(&toks(&*c.func)) == "Capacity::new" && c.args.len() == 2 && self.is_input_len(&c.args[0]) {
                    self.capacities.push(name);
                    // the byte estimate inside the block is not an effect
                    return;
                }
            }
        }
        if let (Pat::Type(pt), Some(init)) = (&l.pat, &l.init) {
            if let Pat::Ident(pi) = &*pt.pat {
                if squash(&toks(&*init.expr)) == "0" && pi.mutability.is_some() {
                    self.counters.push(pi.ident.to_string());
                }
            }
            // `let vector: Vec<String> = Vec::deserialize(deserializer)?;`
            if let Pat::Ident(pi) = &*pt.pat {
                let ty = squash(&toks(&*pt.ty));
                let t = match try_as_match(&init.expr) {
                    Some(inner) => format!("{inner}?"),
                    None => squash(&toks(&*init.expr)),
                };
                if t.ends_with("::deserialize(deserializer)?") {
                    self.input = pi.ident.to_string();
                    match ty.as_str() {
                        "Vec<String>" => self.push(".readList"),
                        "HashMap<String,K>" => self.push(".readMap"),
                        other => self.other(&format!("read {other}")),
                    }
                    return;
                }
            }
        }
        syn::visit::visit_local(self, l);
    }
    fn visit_expr_if(&mut self, i: &'ast syn::ExprIf) {
        // `if let Some(x) = <input>.len().checked_sub(1) { .. }`
        if let Expr::Let(l) = &*i.cond {
            self.bind_some(&l.pat, &l.expr);
        }
        // the counter update of the concurrent deserialiser
        let cond = squash(&toks(&*i.cond));
        let body = squash(&toks(&i.then_branch));
        for c in self.counters.clone() {
            for k in self.loop_key.clone() {
                let ku = format!("{k}.into_usize()");
                let conds = [format!("{ku}>={c}"), format!("{c}<={ku}"), format!("{ku}+1>{c}"), format!("{c}<{ku}+1")];
                let bodies: Vec<String> = [format!("{c}={ku}+1"), format!("{c}=1+{ku}")].iter().flat_map(|b| [format!("{{{b};}}"), format!("{{{b}}}")]).collect();
                if conds.contains(&cond) && bodies.contains(&body) && i.else_branch.is_none() {
                    self.push(".counterMax");
                    return;
                }
            }
        }
        // the final validation of the concurrent deserialiser: unique strings and dense keys, as
        // `a != b || c != d`, as `!(a == b && c == d)`, or through a boolean local holding either
        let mut fc = cond.clone();
        let mut negated = false;
        if let Some(inner) = fc.strip_prefix('!') {
            let inner = inner.strip_prefix('(').and_then(|x| x.strip_suffix(')')).unwrap_or(inner).to_string();
            fc = inner;
            negated = true;
        }
        if let Some(def) = self.bools.get(&fc) {
            fc = def.clone();
        }
        let (sep, op) = if negated { ("&&", "==") } else { ("||", "!=") };
        if fc.contains(".len()") && fc.contains(sep) {
            let mut parts: Vec<String> = fc.split(sep).map(|p| {
                let mut s: Vec<&str> = p.split(op).collect();
                s.sort();
                s.join("~")
            }).collect();
            parts.sort();
            let known = self.counters.iter().any(|c| {
                let mut want = vec![
                    { let mut s = vec!["map.len()".to_string(), "strings.len()".to_string()]; s.sort(); s.join("~") },
                    { let mut s = vec![c.clone(), "strings.len()".to_string()]; s.sort(); s.join("~") },
                ];
                want.sort();
                want == parts
            });
            if known {
                self.push(".finalCheck");
            } else {
                self.other(&format!("if {cond}"));
            }
            self.visit_block(&i.then_branch);
            return;
        }
        syn::visit::visit_expr_if(self, i);
    }
    fn visit_expr_match(&mut self, m: &'ast syn::ExprMatch) {
        for a in &m.arms {
            self.bind_some(&a.pat, &m.expr);
        }
        syn::visit::visit_expr_match(self, m);
    }
    fn visit_expr_for_loop(&mut self, f: &'ast syn::ExprForLoop) {
        let it = squash(&toks(&*f.expr));
        let inp = self.input.clone();
        if it == format!("{inp}.into_iter().enumerate()") {
            if let Pat::Tuple(t) = &*f.pat {
                if let Some(Pat::Ident(pi)) = t.elems.first() {
                    self.loop_index.push(pi.ident.to_string());
                }
            }
        } else if it == inp || it == format!("{inp}.into_iter()") {
            if let Pat::Tuple(t) = &*f.pat {
                if let Some(Pat::Ident(pi)) = t.elems.iter().nth(1) {
                    self.loop_key.push(pi.ident.to_string());
                }
            }
        } else {
            self.other(&format!("for over {it}"));
        }
        self.push(".loopBegin");
        self.visit_block(&f.body);
        self.push(".loopEnd");
    }
    fn visit_expr_return(&mut self, r: &'ast syn::ExprReturn) {
        let t = r.expr.as_ref().map(|e| squash(&toks(&**e))).unwrap_or_default();
        if t.starts_with("Err(") {
            self.push(".reject");
        } else {
            self.other(&format!("return {t}"));
        }
    }
    fn visit_expr_try(&mut self, t: &'ast syn::ExprTry) {
        syn::visit::visit_expr_try(self, t);
        // `<..>.ok_or_else(|| custom(..))?` rejects; any other `?` is not understood
        match &*t.expr {
            Expr::MethodCall(m) if m.method == "ok_or_else" || m.method == "ok_or" => self.push(".reject"),
            other => self.other(&format!("{}?", squash(&toks(other)))),
        }
    }
    fn visit_expr_assign(&mut self, a: &'ast syn::ExprAssign) {
        syn::visit::visit_expr_assign(self, a);
        self.other(&squash(&toks(a)));
    }
    fn visit_expr_call(&mut self, c: &'ast syn::ExprCall) {
        syn::visit::visit_expr_call(self, c);
        let f = squash(&toks(&*c.func));
        if f.ends_with("::try_from_usize") && !crate::is_own_key_check(&f) {
            self.other(&format!("key check on another type: {f}"));
        } else if f.ends_with("::try_from_usize") && c.args.len() == 1 {
            let a = self.karg(&c.args[0]);
            self.out.push(format!("(.keyCheck {a})"));
        } else if f.ends_with("::with_capacity") || f.ends_with("::with_capacity_and_hasher") {
            match c.args.first() {
                Some(a) if self.is_entry_count(a) => self.push(".presizeExact"),
                Some(a) => self.other(&format!("{f}({})", squash(&toks(a)))),
                None => self.other(&f),
            }
        } else if f == "Arena::new" || f == "LockfreeArena::new" {
            let lim = c.args.iter().nth(1).map(|a| squash(&toks(a))).unwrap_or_default();
            if lim == "usize::MAX" || lim == "usize::max_value()" {
                self.push(".arenaUnlimited");
            } else {
                self.other(&format!("{f}(_, {lim})"));
            }
        } else if crate::hashes::is_hash_helper(&f) {
            self.push(".hashOne");
        }
    }
    fn visit_expr_method_call(&mut self, m: &'ast syn::ExprMethodCall) {
        syn::visit::visit_expr_method_call(self, m);
        let recv = squash(&toks(&*m.receiver));
        let name = m.method.to_string();
        match name.as_str() {
            "store_str" => self.push(".store"),
            "expect" | "unwrap" if matches!(&*m.receiver, Expr::MethodCall(i) if i.method == "store_str") || self.stored.contains(&recv) => self.push(".expectStored"),
            "hash_one" => self.push(".hashOne"),
            "from_hash" => self.push(".probe"),
            "push" if recv == "strings" => self.push(".stringsPush"),
            "insert_with_hasher" => self.push(".tableInsert"),
            "insert" if recv == "map" => self.push(".mapInsert"),
            "insert" if recv == "strings" => self.push(".stringsInsert"),
            "clear" | "remove" | "pop" | "truncate" | "retain" | "drain" | "swap_remove" | "extend" | "insert" | "push"
                if recv == "strings" || recv == "map" || recv == "arena" =>
            {
                self.other(&format!("{recv}.{name}"))
            }
            _ => {}
        }
    }
}

fn effects(path: &Path, self_ty_prefix: &str) -> Vec<String> {
    if !path.exists() {
        return vec!["(.other \"file missing\")".into()];
    }
    let file = parse_file(path);
    for item in &file.items {
        let syn::Item::Impl(im) = item else { continue };
        let Some((_, tr, _)) = &im.trait_ else { continue };
        if tr.segments.last().map(|s| s.ident != "Deserialize").unwrap_or(true) {
            continue;
        }
        if !squash(&toks(&*im.self_ty)).starts_with(self_ty_prefix) {
            continue;
        }
        for it in &im.items {
            if let syn::ImplItem::Fn(f) = it {
                if f.sig.ident == "deserialize" {
                    let mut v = V {
                        out: Vec::new(),
                        input: String::new(),
                        capacities: Vec::new(),
                        lens: Vec::new(),
                        last_index: Vec::new(),
                        loop_index: Vec::new(),
                        loop_key: Vec::new(),
                        counters: Vec::new(),
                        stored: Vec::new(),
                        bools: Default::default(),
                    };
                    v.visit_block(&f.block);
                    return v.out;
                }
            }
        }
    }
    vec!["(.other \"no Deserialize impl\")".into()]
}

pub fn emit(src: &Path, out: &mut String) {
    for (name, file, ty, doc) in [
        ("deRodeoEffects", "rodeo.rs", "Rodeo<", "Rodeo"),
        ("deReaderEffects", "reader.rs", "RodeoReader<", "RodeoReader"),
        ("deResolverEffects", "resolver.rs", "RodeoResolver<", "RodeoResolver"),
        ("deThreadedEffects", "threaded_rodeo.rs", "ThreadedRodeo<", "ThreadedRodeo"),
    ] {
        let e = effects(&src.join(file), ty);
        out.push_str(&format!("/-- Effects of `<{doc} as Deserialize>::deserialize`, in evaluation order. -/\n"));
        out.push_str(&format!("def {name} : List DEffect := {}\n\n", lean::list_inline(&e)));
    }
}
