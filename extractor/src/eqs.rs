//! `impl PartialEq<Rhs> for Lhs` of the four containers.

use crate::{lean, parse_file, toks};
use std::path::Path;
use syn::{ImplItem, Item};

fn squash(s: &str) -> String {
    s.chars().filter(|c| !c.is_whitespace()).collect()
}

fn base(t: &str) -> String {
    squash(t).split('<').next().unwrap_or("").to_string()
}

pub fn emit(src: &Path, out: &mut String) {
    let mut items = Vec::new();
    for f in ["rodeo.rs", "reader.rs", "resolver.rs", "threaded_rodeo.rs"] {
        let path = src.join(f);
        if !path.exists() {
            continue;
        }
        let file = parse_file(&path);
        for item in &file.items {
            let Item::Impl(imp) = item else { continue };
            let Some((_, tr, _)) = &imp.trait_ else { continue };
            let Some(last) = tr.segments.last() else { continue };
            if last.ident != "PartialEq" {
                continue;
            }
            let lhs = base(&toks(&imp.self_ty));
            let rhs = match &last.arguments {
                syn::PathArguments::AngleBracketed(a) => a.args.first().map(|x| base(&toks(x))).unwrap_or_else(|| lhs.clone()),
                _ => lhs.clone(),
            };
            let rhs = if rhs == "Self" { lhs.clone() } else { rhs };
            let mut shape = format!("(.other {})", lean::s("no eq fn"));
            for it in &imp.items {
                if let ImplItem::Fn(func) = it {
                    if func.sig.ident == "eq" {
                        let body = squash(&toks(&func.block));
                        let vec_form = "{self.strings.len()==other.strings.len()&&other.strings.iter().enumerate().all(|(key,string)|{K::try_from_usize(key).and_then(|key|self.strings.get(&key)).map(|s|s.value()==string)==Some(true)})}";
                        let self_form = "{self.strings.len()==other.strings.len()&&self.strings.iter().all(|left|{other.strings.get(left.key()).map(|s|s.value()==left.value())==Some(true)})}";
                        shape = if body == "{self.strings==other.strings}" {
                            ".stringsEq".into()
                        } else if (body == vec_form && rhs != lhs) || (body == self_form && rhs == lhs) {
                            ".lenAndAllLookup".into()
                        } else {
                            format!("(.other {})", lean::s(&body))
                        };
                    }
                }
            }
            items.push(format!("{{ lhs := {}, rhs := {}, shape := {} }}", crate::forwards::wrapper_lean(&lhs), crate::forwards::wrapper_lean(&rhs), shape));
        }
    }
    out.push_str("/-- Every `PartialEq` impl between containers, with the shape of its body. -/\n");
    out.push_str(&format!("def eqImpls : List EqImpl := {}\n\n", lean::list(&items)));
}
