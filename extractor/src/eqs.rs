//! `impl PartialEq<Rhs> for Lhs` of the four containers.
//!
//! The body of `eq` is brought into a canonical form before it is classified, so that rewrites which
//! cannot change the answer keep their classification: closure binders are renamed by position, the
//! operands of `==` are ordered, blocks and parentheses around a single expression are dropped, and the
//! equivalent spellings of "the option holds a value for which the predicate is true"
//! (`.map(p) == Some(true)`, `.map_or(false, p)`, `.is_some_and(p)`, `matches!`-free `== Some(true)`
//! mirrored) all become `optTrue`.

use crate::{lean, parse_file, toks};
use std::path::Path;
use syn::{Expr, ImplItem, Item, Pat};

fn squash(s: &str) -> String {
    s.chars().filter(|c| !c.is_whitespace()).collect()
}

fn base(t: &str) -> String {
    squash(t).split('<').next().unwrap_or("").to_string()
}

struct Canon {
    /// (source name, canonical name = `$<binding depth>`), innermost last
    env: Vec<(String, String)>,
    /// locals of the body bound by a leading `let` (also a tuple of them): name -> canonical text of what it is
    subst: Vec<(String, String)>,
}

impl Canon {
    fn bind(&mut self, p: &Pat, out: &mut String) {
        match p {
            Pat::Ident(i) => {
                let c = format!("${}", self.env.len());
                self.env.push((i.ident.to_string(), c.clone()));
                out.push_str(&c);
            }
            Pat::Tuple(t) => {
                out.push('(');
                for (n, e) in t.elems.iter().enumerate() {
                    if n > 0 {
                        out.push(',');
                    }
                    self.bind(e, out);
                }
                out.push(')');
            }
            Pat::Paren(p) => self.bind(&p.pat, out),
            Pat::Reference(r) => {
                out.push('&');
                self.bind(&r.pat, out)
            }
            Pat::Type(t) => self.bind(&t.pat, out),
            other => out.push_str(&squash(&toks(other))),
        }
    }

    fn closure(&mut self, c: &syn::ExprClosure) -> String {
        let depth = self.env.len();
        let mut s = String::from("|");
        for (n, p) in c.inputs.iter().enumerate() {
            if n > 0 {
                s.push(',');
            }
            self.bind(p, &mut s);
        }
        s.push('|');
        s.push_str(&self.expr(&c.body));
        self.env.truncate(depth);
        s
    }

    fn is_some_true(e: &Expr) -> bool {
        squash(&toks(e)) == "Some(true)"
    }

    fn opt_true(&mut self, recv: &Expr, pred: &Expr) -> String {
        let r = self.expr(recv);
        let p = self.expr(pred);
        format!("optTrue({r},{p})")
    }

    fn expr(&mut self, e: &Expr) -> String {
        match e {
            Expr::Paren(p) => self.expr(&p.expr),
            Expr::Group(g) => self.expr(&g.expr),
            Expr::Block(b) if b.block.stmts.len() == 1 && b.label.is_none() => match &b.block.stmts[0] {
                syn::Stmt::Expr(x, None) => self.expr(x),
                _ => squash(&toks(e)),
            },
            Expr::Closure(c) => self.closure(c),
            Expr::Path(p) if p.path.segments.len() == 1 && p.qself.is_none() => {
                let id = p.path.segments[0].ident.to_string();
                for (src, c) in self.env.iter().rev() {
                    if *src == id {
                        return c.clone();
                    }
                }
                for (src, c) in self.subst.iter().rev() {
                    if *src == id {
                        return c.clone();
                    }
                }
                id
            }
            Expr::Reference(r) => format!("&{}", self.expr(&r.expr)),
            Expr::Unary(u) => format!("{}{}", squash(&toks(&u.op)), self.expr(&u.expr)),
            Expr::Field(f) => format!("{}.{}", self.expr(&f.base), squash(&toks(&f.member))),
            Expr::Binary(b) => {
                let op = squash(&toks(&b.op));
                if op == "==" {
                    // `X.map(p) == Some(true)` in either order
                    for (a, o) in [(&*b.left, &*b.right), (&*b.right, &*b.left)] {
                        if Self::is_some_true(o) {
                            if let Expr::MethodCall(m) = a {
                                if m.method == "map" && m.args.len() == 1 {
                                    return self.opt_true(&m.receiver, &m.args[0]);
                                }
                            }
                        }
                    }
                    let mut l = self.expr(&b.left);
                    let mut r = self.expr(&b.right);
                    if r < l {
                        std::mem::swap(&mut l, &mut r);
                    }
                    return format!("eq({l},{r})");
                }
                format!("({}{}{})", self.expr(&b.left), op, self.expr(&b.right))
            }
            Expr::MethodCall(m) => {
                let name = m.method.to_string();
                if name == "map_or" && m.args.len() == 2 && squash(&toks(&m.args[0])) == "false" {
                    return self.opt_true(&m.receiver, &m.args[1]);
                }
                if name == "is_some_and" && m.args.len() == 1 {
                    return self.opt_true(&m.receiver, &m.args[0]);
                }
                let r = self.expr(&m.receiver);
                // a vector compared as a slice is the vector compared
                if name == "as_slice" && m.args.is_empty() {
                    return r;
                }
                let args: Vec<String> = m.args.iter().map(|a| self.expr(a)).collect();
                format!("{r}.{name}({})", args.join(","))
            }
            Expr::Call(c) => {
                let f = squash(&toks(&*c.func));
                // `PartialEq::eq(&a, &b)` is `a == b`
                if matches!(f.as_str(), "PartialEq::eq" | "core::cmp::PartialEq::eq" | "std::cmp::PartialEq::eq") && c.args.len() == 2 {
                    let strip = |x: &Expr| -> Expr {
                        match x {
                            Expr::Reference(r) => (*r.expr).clone(),
                            o => o.clone(),
                        }
                    };
                    let mut l = self.expr(&strip(&c.args[0]));
                    let mut r = self.expr(&strip(&c.args[1]));
                    if r < l {
                        std::mem::swap(&mut l, &mut r);
                    }
                    return format!("eq({l},{r})");
                }
                let args: Vec<String> = c.args.iter().map(|a| self.expr(a)).collect();
                format!("{f}({})", args.join(","))
            }
            other => squash(&toks(other)),
        }
    }
}

fn canon_body(block: &syn::Block) -> String {
    let mut c = Canon { env: Vec::new(), subst: Vec::new() };
    if block.stmts.len() == 1 {
        if let syn::Stmt::Expr(x, None) = &block.stmts[0] {
            return c.expr(x);
        }
    }
    // leading `let x = &a;` / `let (x, y) = (&a, &b);` (references to fields, nothing else), then one expression
    if block.stmts.len() >= 2 {
        let (lets, last) = block.stmts.split_at(block.stmts.len() - 1);
        let mut ok = true;
        for st in lets {
            let syn::Stmt::Local(l) = st else { ok = false; break };
            let Some(init) = &l.init else { ok = false; break };
            if init.diverge.is_some() {
                ok = false;
                break;
            }
            let pat = match &l.pat {
                Pat::Type(t) => &*t.pat,
                p => p,
            };
            let strip = |x: &Expr| -> Expr {
                match x {
                    Expr::Reference(r) => (*r.expr).clone(),
                    o => o.clone(),
                }
            };
            let plain = |t: &str| t.chars().all(|ch| ch.is_alphanumeric() || ch == '_' || ch == '.');
            match (pat, &*init.expr) {
                (Pat::Ident(pi), e) => {
                    let t = c.expr(&strip(e));
                    if !plain(&t) {
                        ok = false;
                        break;
                    }
                    c.subst.push((pi.ident.to_string(), t));
                }
                (Pat::Tuple(pt), Expr::Tuple(et)) if pt.elems.len() == et.elems.len() => {
                    for (p, e) in pt.elems.iter().zip(et.elems.iter()) {
                        let Pat::Ident(pi) = p else { ok = false; break };
                        let t = c.expr(&strip(e));
                        if !plain(&t) {
                            ok = false;
                            break;
                        }
                        c.subst.push((pi.ident.to_string(), t));
                    }
                }
                _ => {
                    ok = false;
                    break;
                }
            }
        }
        if ok {
            if let syn::Stmt::Expr(x, None) = &last[0] {
                return c.expr(x);
            }
        }
    }
    squash(&toks(block))
}

pub fn emit(src: &Path, out: &mut String) {
    let mut items = Vec::new();
    // canonical forms of the bodies the model mirrors
    let strings_eq = "eq(other.strings,self.strings)";
    let vec_form = "(eq(other.strings.len(),self.strings.len())&&other.strings.iter().enumerate().all(|($0,$1)|optTrue(K::try_from_usize($0).and_then(|$2|self.strings.get(&$2)),|$2|eq($1,$2.value()))))";
    let self_form = "(eq(other.strings.len(),self.strings.len())&&self.strings.iter().all(|$0|optTrue(other.strings.get($0.key()),|$1|eq($0.value(),$1.value()))))";
    for f in ["rodeo.rs", "reader.rs", "resolver.rs", "threaded_rodeo.rs"] {
        let path = src.join(f);
        if !path.exists() {
            continue;
        }
        let file = parse_file(&path);
        for item in &file.items {
            let Item::Impl(imp) = item else { continue };
            let Some((_, tr, _)) = &imp.trait_ else { continue };
            let Some(last) = tr.segments.last() else { continue };
            if last.ident != "PartialEq" {
                continue;
            }
            let lhs = base(&toks(&imp.self_ty));
            let rhs = match &last.arguments {
                syn::PathArguments::AngleBracketed(a) => a.args.first().map(|x| base(&toks(x))).unwrap_or_else(|| lhs.clone()),
                _ => lhs.clone(),
            };
            let rhs = if rhs == "Self" { lhs.clone() } else { rhs };
            let mut shape = format!("(.other {})", lean::s("no eq fn"));
            for it in &imp.items {
                if let ImplItem::Fn(func) = it {
                    if func.sig.ident == "eq" {
                        let body = canon_body(&func.block);
                        shape = if body == strings_eq {
                            ".stringsEq".into()
                        } else if (body == vec_form && rhs != lhs) || (body == self_form && rhs == lhs) {
                            ".lenAndAllLookup".into()
                        } else {
                            format!("(.other {})", lean::s(&body))
                        };
                    }
                }
            }
            items.push(format!("{{ lhs := {}, rhs := {}, shape := {} }}", crate::forwards::wrapper_lean(&lhs), crate::forwards::wrapper_lean(&rhs), shape));
        }
    }
    out.push_str("/-- Every `PartialEq` impl between containers, with the shape of its body. -/\n");
    out.push_str(&format!("def eqImpls : List EqImpl := {}\n\n", lean::list(&items)));
}
