//! Helpers to print Lean terms.

pub fn s(x: &str) -> String {
    let mut o = String::from("\"");
    for c in x.chars() {
        match c {
            '"' => o.push_str("\\\""),
            '\\' => o.push_str("\\\\"),
            '\n' => o.push_str("\\n"),
            c => o.push(c),
        }
    }
    o.push('"');
    o
}

pub fn list(items: &[String]) -> String {
    if items.is_empty() {
        "[]".to_string()
    } else {
        format!("[\n    {}\n  ]", items.join(",\n    "))
    }
}

pub fn list_inline(items: &[String]) -> String {
    format!("[{}]", items.join(", "))
}

pub fn opt_nat(x: Option<u128>) -> String {
    match x {
        Some(n) => format!("(some {n})"),
        None => "none".to_string(),
    }
}

pub fn boolean(b: bool) -> &'static str {
    if b {
        "true"
    } else {
        "false"
    }
}
