//! `unsafe impl Send/Sync` and the field types of the containers, arenas and buckets.

use crate::{lean, parse_file, toks};
use std::path::Path;
use syn::{GenericArgument, GenericParam, Item, PathArguments, Type, TypeParamBound, WherePredicate};

fn tparam(p: &str) -> String {
    match p {
        "K" => ".K".into(),
        "S" => ".S".into(),
        o => format!("(.other {})", lean::s(o)),
    }
}

fn tcon(name: &str) -> String {
    match name {
        "Rodeo" => ".rodeo".into(),
        "ThreadedRodeo" => ".threadedRodeo".into(),
        "RodeoReader" => ".reader".into(),
        "RodeoResolver" => ".resolver".into(),
        "Arena" => ".arena".into(),
        "LockfreeArena" => ".lockfreeArena".into(),
        "AnyArena" => ".anyArena".into(),
        "Bucket" => ".bucket".into(),
        "AtomicBucket" => ".atomicBucket".into(),
        "AtomicBucketList" => ".atomicBucketList".into(),
        "HashMap" | "StringMap" => ".hashMap".into(),
        "DashMap" => ".dashMap".into(),
        "Vec" => ".vec".into(),
        "PhantomData" => ".phantomData".into(),
        "NonNull" => ".nonNull".into(),
        "AtomicUsize" => ".atomicUsize".into(),
        "AtomicPtr" => ".atomicPtr".into(),
        "NonZeroUsize" | "NonZeroU8" | "NonZeroU16" | "NonZeroU32" => ".nonZero".into(),
        "usize" | "u8" | "u16" | "u32" | "u64" | "bool" => ".int".into(),
        "str" => ".str".into(),
        o => format!("(.other {})", lean::s(o)),
    }
}

fn tye(t: &Type, params: &[String]) -> String {
    match t {
        Type::Reference(r) => format!("(.ref {})", tye(&r.elem, params)),
        Type::Array(a) => format!("(.array {})", tye(&a.elem, params)),
        Type::Tuple(t) if t.elems.is_empty() => "(.app .unit [])".into(),
        Type::Paren(p) => tye(&p.elem, params),
        Type::Group(g) => tye(&g.elem, params),
        Type::Path(p) => {
            let last = p.path.segments.last().unwrap();
            let name = last.ident.to_string();
            if p.path.segments.len() == 1 && params.contains(&name) {
                return format!("(.param {})", tparam(&name));
            }
            // the alias `StringMap<K>` is `HashMap<K, (), ()>`
            let mut args: Vec<String> = match &last.arguments {
                PathArguments::AngleBracketed(a) => a
                    .args
                    .iter()
                    .filter_map(|g| match g {
                        GenericArgument::Type(t) => Some(tye(t, params)),
                        _ => None,
                    })
                    .collect(),
                _ => Vec::new(),
            };
            if name == "StringMap" {
                args.push("(.app .unit [])".into());
                args.push("(.app .unit [])".into());
            }
            if name == "Self" {
                return format!("(.app (.other {}) [])", lean::s("Self"));
            }
            format!("(.app {} {})", tcon(&name), lean::list_inline(&args))
        }
        Type::Ptr(p) => format!("(.app .nonNull [{}])", tye(&p.elem, params)),
        other => format!("(.app (.other {}) [])", lean::s(&toks(other))),
    }
}

fn marker_of(bound: &TypeParamBound) -> Option<&'static str> {
    if let TypeParamBound::Trait(t) = bound {
        let n = t.path.segments.last()?.ident.to_string();
        return match n.as_str() {
            "Send" => Some(".send"),
            "Sync" => Some(".sync"),
            _ => None,
        };
    }
    None
}

pub fn emit(src: &Path, out: &mut String) {
    let files = [
        "rodeo.rs", "threaded_rodeo.rs", "reader.rs", "resolver.rs", "arenas/mod.rs", "arenas/single_threaded.rs",
        "arenas/lockfree.rs", "arenas/bucket.rs", "arenas/atomic_bucket.rs",
    ];
    let wanted = ["Rodeo", "ThreadedRodeo", "RodeoReader", "RodeoResolver", "Arena", "LockfreeArena", "AnyArena", "Bucket", "AtomicBucket", "AtomicBucketList"];
    let mut impls = Vec::new();
    let mut defs = Vec::new();
    for f in files {
        let path = src.join(f);
        if !path.exists() {
            continue;
        }
        let file = parse_file(&path);
        for item in &file.items {
            match item {
                Item::Impl(imp) if imp.unsafety.is_some() => {
                    let Some((neg, tr, _)) = &imp.trait_ else { continue };
                    let tn = tr.segments.last().map(|s| s.ident.to_string()).unwrap_or_default();
                    let marker = match tn.as_str() {
                        "Send" => ".send",
                        "Sync" => ".sync",
                        _ => continue,
                    };
                    if neg.is_some() {
                        continue;
                    }
                    let Type::Path(tp) = &*imp.self_ty else { continue };
                    let last = tp.path.segments.last().unwrap();
                    let name = last.ident.to_string();
                    let params: Vec<String> = match &last.arguments {
                        PathArguments::AngleBracketed(a) => a.args.iter().map(|g| toks(g)).collect(),
                        _ => Vec::new(),
                    };
                    let mut bounds = Vec::new();
                    for gp in &imp.generics.params {
                        if let GenericParam::Type(t) = gp {
                            for b in &t.bounds {
                                if let Some(m) = marker_of(b) {
                                    bounds.push(format!("({}, {})", tparam(&t.ident.to_string()), m));
                                }
                            }
                        }
                    }
                    if let Some(w) = &imp.generics.where_clause {
                        for pred in &w.predicates {
                            if let WherePredicate::Type(pt) = pred {
                                for b in &pt.bounds {
                                    if let Some(m) = marker_of(b) {
                                        bounds.push(format!("({}, {})", tparam(&toks(&pt.bounded_ty)), m));
                                    }
                                }
                            }
                        }
                    }
                    // the order of bounds (and of the impl blocks, below) means nothing: canonical order
                    bounds.sort();
                    bounds.dedup();
                    impls.push(format!(
                        "{{ ty := {}, trait_ := {}, params := {}, bounds := {} }}",
                        tcon(&name),
                        marker,
                        lean::list_inline(&params.iter().map(|p| tparam(p)).collect::<Vec<_>>()),
                        lean::list_inline(&bounds)
                    ));
                }
                Item::Struct(st) if wanted.contains(&st.ident.to_string().as_str()) => {
                    let params: Vec<String> = st.generics.type_params().map(|t| t.ident.to_string()).collect();
                    let fields: Vec<String> = st.fields.iter().map(|f| tye(&f.ty, &params)).collect();
                    defs.push(format!(
                        "{{ name := {}, params := {}, fields := {} }}",
                        tcon(&st.ident.to_string()),
                        lean::list_inline(&params.iter().map(|p| tparam(p)).collect::<Vec<_>>()),
                        lean::list_inline(&fields)
                    ));
                }
                Item::Enum(en) if wanted.contains(&en.ident.to_string().as_str()) => {
                    let params: Vec<String> = en.generics.type_params().map(|t| t.ident.to_string()).collect();
                    let mut fields = Vec::new();
                    for v in &en.variants {
                        for f in &v.fields {
                            fields.push(tye(&f.ty, &params));
                        }
                    }
                    defs.push(format!(
                        "{{ name := {}, params := {}, fields := {} }}",
                        tcon(&en.ident.to_string()),
                        lean::list_inline(&params.iter().map(|p| tparam(p)).collect::<Vec<_>>()),
                        lean::list_inline(&fields)
                    ));
                }
                _ => {}
            }
        }
    }
    impls.sort();
    out.push_str("/-- Every manual `unsafe impl Send/Sync` of the containers, arenas and buckets (sorted). -/\n");
    out.push_str(&format!("def markerImpls : List MarkerImpl := {}\n\n", lean::list(&impls)));
    out.push_str("/-- Field types of the containers, arenas and buckets. -/\n");
    out.push_str(&format!("def structDefs : List StructDef := {}\n\n", lean::list(&defs)));
}
