//! Every atomic operation as written in the source (with its memory orderings) and the shape of
//! `LockfreeArena::allocate_memory`.

use crate::{lean, parse_file, toks};
use std::path::Path;
use syn::visit::Visit;

struct V {
    file: String,
    func: String,
    ops: Vec<String>,
    kinds_in_alloc: Vec<String>,
    /// locals that are fields of `self` (`let Self { memory_usage, .. } = self;`): name -> `self.<field>`
    aliases: Vec<(String, String)>,
}

fn ord(e: &syn::Expr) -> Option<&'static str> {
    let t: String = toks(e).chars().filter(|c| !c.is_whitespace()).collect();
    Some(match t.as_str() {
        "Ordering::Relaxed" => ".relaxed",
        "Ordering::Acquire" => ".acquire",
        "Ordering::Release" => ".release",
        "Ordering::AcqRel" => ".acqRel",
        "Ordering::SeqCst" => ".seqCst",
        _ => return None,
    })
}

/// What the operation is for. Anything on a block or on the block list that is not one of the
/// recognised shapes is `.unknown`, which the C05 theorem rejects.
fn role_of(file: &str, func: &str, recv: &str, kind: &str) -> &'static str {
    if func.starts_with("verif_") {
        return ".audit";
    }
    if kind == ".other" {
        return ".unknown";
    }
    let is_cas = kind == ".cas" || kind == ".casWeak";
    match file {
        "atomic_bucket.rs" => {
            if recv == "self.head" {
                if kind == ".load" && (func == "push_front" || func == "drop") {
                    ".headLoad"
                } else if is_cas && func == "push_front" {
                    ".headCas"
                } else {
                    ".unknown"
                }
            } else if recv == "self.current" && kind == ".load" && func == "next" {
                ".walkLoad"
            } else if recv.ends_with(".next") && kind == ".load" && func == "drop" {
                ".nextLoad"
            } else if (recv == "length" || recv == "self.length()") && func == "try_inc_length" {
                if kind == ".load" {
                    ".lenLoad"
                } else if is_cas {
                    ".lenCas"
                } else {
                    ".unknown"
                }
            } else {
                ".unknown"
            }
        }
        _ => {
            let counters = ["self.memory_usage", "self.max_memory_usage", "self.bucket_capacity"];
            if recv == "self.key" && file == "threaded_rodeo.rs" {
                ".keyCounter"
            } else if counters.contains(&recv) {
                ".counter"
            } else {
                ".unknown"
            }
        }
    }
}

impl<'ast> Visit<'ast> for V {
    fn visit_impl_item_fn(&mut self, f: &'ast syn::ImplItemFn) {
        self.aliases.clear();
        let old = std::mem::replace(&mut self.func, f.sig.ident.to_string());
        syn::visit::visit_impl_item_fn(self, f);
        self.func = old;
    }
    fn visit_item_fn(&mut self, f: &'ast syn::ItemFn) {
        let old = std::mem::replace(&mut self.func, f.sig.ident.to_string());
        syn::visit::visit_item_fn(self, f);
        self.func = old;
    }
    fn visit_local(&mut self, l: &'ast syn::Local) {
        if let (syn::Pat::Struct(ps), Some(init)) = (&l.pat, &l.init) {
            let src: String = toks(&*init.expr).chars().filter(|c| !c.is_whitespace()).collect();
            if src == "self" || src == "*self" || src == "&*self" {
                for fp in &ps.fields {
                    if let syn::Pat::Ident(pi) = &*fp.pat {
                        let member: String = toks(&fp.member).chars().filter(|c| !c.is_whitespace()).collect();
                        self.aliases.push((pi.ident.to_string(), format!("self.{member}")));
                    }
                }
            }
        }
        syn::visit::visit_local(self, l);
    }
    fn visit_expr_call(&mut self, c: &'ast syn::ExprCall) {
        // `AtomicUsize::load(&self.x, Ordering::..)`: the same operation in path syntax
        if let syn::Expr::Path(p) = &*c.func {
            let segs: Vec<String> = p.path.segments.iter().map(|s| s.ident.to_string()).collect();
            if segs.len() >= 2 && segs[segs.len() - 2].starts_with("Atomic") && !c.args.is_empty() {
                let name = segs[segs.len() - 1].clone();
                let mut recv = (*c.args.first().unwrap()).clone();
                while let syn::Expr::Reference(r) = recv {
                    recv = (*r.expr).clone();
                }
                let rest: syn::punctuated::Punctuated<syn::Expr, syn::token::Comma> = c.args.iter().skip(1).cloned().collect();
                let m = syn::ExprMethodCall {
                    attrs: Vec::new(),
                    receiver: Box::new(recv),
                    dot_token: Default::default(),
                    method: syn::Ident::new(&name, proc_macro2::Span::call_site()),
                    turbofish: None,
                    paren_token: Default::default(),
                    args: rest,
                };
                self.record(&m);
            }
        }
        syn::visit::visit_expr_call(self, c);
    }
    fn visit_expr_method_call(&mut self, m: &'ast syn::ExprMethodCall) {
        self.record(m);
        syn::visit::visit_expr_method_call(self, m);
    }
}

impl V {
    fn record(&mut self, m: &syn::ExprMethodCall) {
        let name = m.method.to_string();
        let kind = match name.as_str() {
            "load" => Some(".load"),
            "store" => Some(".store"),
            "fetch_add" => Some(".fetchAdd"),
            "fetch_update" => Some(".cas"),
            "compare_exchange" => Some(".cas"),
            "compare_exchange_weak" => Some(".casWeak"),
            "swap" => Some(".swap"),
            // read-modify-writes the model has no transition for
            "fetch_sub" | "fetch_max" | "fetch_min" | "fetch_and" | "fetch_or" | "fetch_xor" | "fetch_nand" => Some(".other"),
            _ => None,
        };
        if let Some(kind) = kind {
            let ords: Vec<&'static str> = m.args.iter().filter_map(ord).collect();
            if !ords.is_empty() {
                let mut recv: String = toks(&m.receiver).chars().filter(|c| !c.is_whitespace()).collect();
                if let Some((_, full)) = self.aliases.iter().rev().find(|(n, _)| *n == recv) {
                    recv = full.clone();
                }
                let (o1, o2) = match (name.as_str(), ords.as_slice()) {
                    ("fetch_update", [a, b]) | ("compare_exchange", [a, b]) | ("compare_exchange_weak", [a, b]) => (*a, *b),
                    (_, [a]) => (*a, ".other"),
                    _ => (".other", ".other"),
                };
                let role = role_of(&self.file, &self.func, &recv, kind);
                self.ops.push(format!(
                    "{{ role := {role}, file := {}, func := {}, loc := {}, kind := {}, ord := {}, failOrd := {} }}",
                    lean::s(&self.file),
                    lean::s(&self.func),
                    lean::s(&recv),
                    kind,
                    o1,
                    o2
                ));
                if self.file == "lockfree.rs" && self.func == "allocate_memory" {
                    self.kinds_in_alloc.push(format!("{recv}:{name}"));
                }
            }
        }
    }
}

pub fn emit(src: &Path, out: &mut String) {
    let mut v = V { file: String::new(), func: String::new(), ops: Vec::new(), kinds_in_alloc: Vec::new(), aliases: Vec::new() };
    for (f, short) in [("arenas/atomic_bucket.rs", "atomic_bucket.rs"), ("arenas/lockfree.rs", "lockfree.rs"), ("threaded_rodeo.rs", "threaded_rodeo.rs")] {
        let path = src.join(f);
        if !path.exists() {
            continue;
        }
        let file = parse_file(&path);
        v.file = short.to_string();
        // only non-test items
        for item in &file.items {
            if let syn::Item::Mod(m) = item {
                if m.ident == "tests" || m.ident == "test" {
                    continue;
                }
            }
            v.visit_item(item);
        }
    }
    out.push_str("/-- Every atomic operation of the concurrent arena and interner, with its orderings. -/\n");
    out.push_str(&format!("def atomicOps : List AtomicOp := {}\n\n", lean::list(&v.ops)));
    // shape of allocate_memory: the usage must be checked and claimed by ONE read-modify-write
    let k = &v.kinds_in_alloc;
    let usage_ops: Vec<&String> = k.iter().filter(|x| x.starts_with("self.memory_usage:")).collect();
    let shape = if usage_ops.len() == 1 && (usage_ops[0].ends_with(":fetch_update") || usage_ops[0].ends_with(":compare_exchange") || usage_ops[0].ends_with(":compare_exchange_weak")) {
        ".casLoop".to_string()
    } else if usage_ops.iter().any(|x| x.ends_with(":load")) && usage_ops.iter().any(|x| x.ends_with(":fetch_add")) {
        ".checkThenAdd".to_string()
    } else {
        format!("(.other {})", lean::s(&k.join(",")))
    };
    out.push_str("/-- How `LockfreeArena::allocate_memory` checks and claims the budget. -/\n");
    out.push_str(&format!("def allocShape : AllocShape := {}\n\n", shape));
}
