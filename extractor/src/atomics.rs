use std::path::Path;
pub fn emit(_src: &Path, _out: &mut String) {}
