//! Every place where a table hash is computed or used (rodeo.rs, reader.rs, threaded_rodeo.rs).
//! The model hashes *the whole string with the table's hasher* everywhere (lookup, insert, rehash
//! closure); a site of any other shape is reported as `.other`.

use crate::{lean, parse_file, toks};
use std::path::Path;
use syn::visit::Visit;

struct V {
    file: String,
    func: String,
    sites: Vec<String>,
    /// private functions whose whole body is `<hasher param>.hash_one(<string param>)`:
    /// (name, index of the string parameter).  A call of one is a `hash_one` call.
    helpers: Vec<(String, usize)>,
    /// the hash values of the current function: `u64` parameters and locals bound to a whole-string hash
    hash_vars: Vec<String>,
    /// closures bound to a local (`let rehash = |key| ..;`) and handed to the table by name
    closure_lets: std::collections::HashMap<String, syn::ExprClosure>,
}

/// the `u64` parameters of a function (a helper that is handed the hash by its caller)
fn u64_params(sig: &syn::Signature) -> Vec<String> {
    sig.inputs
        .iter()
        .filter_map(|a| match a {
            syn::FnArg::Typed(pt) if toks(&*pt.ty) == "u64" => match &*pt.pat {
                syn::Pat::Ident(pi) => Some(pi.ident.to_string()),
                _ => None,
            },
            _ => None,
        })
        .collect()
}

/// `fn name(.., h: .., .., s: ..) -> u64 { h.hash_one(s) }`  ->  (name, position of `s`)
fn hash_helper(sig: &syn::Signature, block: &syn::Block) -> Option<(String, usize)> {
    if block.stmts.len() != 1 {
        return None;
    }
    let syn::Stmt::Expr(syn::Expr::MethodCall(m), None) = &block.stmts[0] else { return None };
    if m.method != "hash_one" || m.args.len() != 1 || !is_plain_ident(&m.args[0]) || !is_plain_ident(&m.receiver) {
        return None;
    }
    let arg = toks(&m.args[0]).trim_start_matches('&').trim().to_string();
    let mut pos = None;
    let mut n = 0;
    for inp in &sig.inputs {
        if let syn::FnArg::Typed(t) = inp {
            if let syn::Pat::Ident(pi) = &*t.pat {
                if pi.ident == arg {
                    pos = Some(n);
                }
            }
            n += 1;
        }
    }
    pos.map(|p| (sig.ident.to_string(), p))
}

/// Is `e` a hash of one whole string: `<x>.hash_one(<ident>)` or `<helper>(.., <ident>, ..)`?
fn whole_string_hash<'a>(e: &'a syn::Expr, helpers: &[(String, usize)]) -> Option<&'a syn::Expr> {
    match e {
        syn::Expr::Paren(p) => whole_string_hash(&p.expr, helpers),
        syn::Expr::MethodCall(m) if m.method == "hash_one" && m.args.len() == 1 && is_plain_ident(&m.args[0]) => Some(&m.args[0]),
        syn::Expr::Call(c) => {
            let f = toks(&*c.func);
            let f = f.rsplit("::").next().unwrap_or("").trim().to_string();
            for (name, pos) in helpers {
                if *name == f {
                    if let Some(a) = c.args.iter().nth(*pos) {
                        if is_plain_ident(a) {
                            return Some(a);
                        }
                    }
                }
            }
            None
        }
        _ => None,
    }
}

/// The value a closure returns (tail expression of its body).
fn closure_result(c: &syn::ExprClosure) -> Option<&syn::Expr> {
    match &*c.body {
        syn::Expr::Block(b) => match b.block.stmts.last() {
            Some(syn::Stmt::Expr(e, None)) => Some(e),
            _ => None,
        },
        e => Some(e),
    }
}

/// Names bound inside a closure: its parameters and the `let`s of its body.
fn closure_bound(c: &syn::ExprClosure) -> Vec<String> {
    struct B(Vec<String>);
    impl<'ast> Visit<'ast> for B {
        fn visit_pat_ident(&mut self, p: &'ast syn::PatIdent) {
            self.0.push(p.ident.to_string());
        }
    }
    let mut b = B(Vec::new());
    for p in &c.inputs {
        b.visit_pat(p);
    }
    if let syn::Expr::Block(bl) = &*c.body {
        for st in &bl.block.stmts {
            if let syn::Stmt::Local(l) = st {
                b.visit_pat(&l.pat);
            }
        }
    }
    b.0
}

fn is_plain_ident(e: &syn::Expr) -> bool {
    match e {
        syn::Expr::Path(p) => p.path.segments.len() == 1 && p.qself.is_none(),
        syn::Expr::Reference(r) => is_plain_ident(&r.expr),
        syn::Expr::Paren(p) => is_plain_ident(&p.expr),
        _ => false,
    }
}

impl V {
    /// `a == b` where exactly one side is a string the closure binds itself (its parameter, a `let` of its
    /// body, or a dereference of one) and the other a plain variable from outside: the whole-string
    /// comparison of the probed string with a stored one.
    fn is_whole_string_eq(&self, e: &syn::Expr, c: &syn::ExprClosure) -> bool {
        let e = match e {
            syn::Expr::Paren(p) => &*p.expr,
            e => e,
        };
        let syn::Expr::Binary(b) = e else { return false };
        if !matches!(b.op, syn::BinOp::Eq(_)) {
            return false;
        }
        let bound = closure_bound(c);
        let name = |x: &syn::Expr| -> Option<String> {
            let mut x = x;
            loop {
                match x {
                    syn::Expr::Paren(p) => x = &p.expr,
                    syn::Expr::Unary(u) if matches!(u.op, syn::UnOp::Deref(_)) => x = &u.expr,
                    syn::Expr::Reference(r) => x = &r.expr,
                    _ => break,
                }
            }
            if is_plain_ident(x) {
                Some(toks(x))
            } else {
                None
            }
        };
        match (name(&b.left), name(&b.right)) {
            (Some(l), Some(r)) => bound.contains(&l) != bound.contains(&r),
            _ => false,
        }
    }
    /// a closure argument, written in place or bound to a local before
    fn as_closure(&self, e: &syn::Expr) -> Option<syn::ExprClosure> {
        match e {
            syn::Expr::Closure(c) => Some(c.clone()),
            syn::Expr::Path(_) => self.closure_lets.get(&toks(e)).cloned(),
            syn::Expr::Reference(r) => self.as_closure(&r.expr),
            _ => None,
        }
    }
    fn push(&mut self, kind: &str, shape: &str, text: &str) {
        self.sites.push(format!(
            "{{ file := {}, func := {}, kind := {kind}, shape := {shape}, text := {} }}",
            lean::s(&self.file),
            lean::s(&self.func),
            lean::s(text)
        ));
    }
}

impl<'ast> Visit<'ast> for V {
    fn visit_impl_item_fn(&mut self, f: &'ast syn::ImplItemFn) {
        let old = std::mem::replace(&mut self.func, f.sig.ident.to_string());
        let old_vars = std::mem::replace(&mut self.hash_vars, u64_params(&f.sig));
        self.closure_lets.clear();
        syn::visit::visit_impl_item_fn(self, f);
        self.func = old;
        self.hash_vars = old_vars;
    }
    fn visit_item_fn(&mut self, f: &'ast syn::ItemFn) {
        let old = std::mem::replace(&mut self.func, f.sig.ident.to_string());
        let old_vars = std::mem::replace(&mut self.hash_vars, u64_params(&f.sig));
        self.closure_lets.clear();
        syn::visit::visit_item_fn(self, f);
        self.func = old;
        self.hash_vars = old_vars;
    }
    fn visit_local(&mut self, l: &'ast syn::Local) {
        // `let hash = <expr>;` - whatever the local is called when it is bound to the hash of a whole string
        let pat = match &l.pat {
            syn::Pat::Type(pt) => &*pt.pat,
            p => p,
        };
        if let syn::Pat::Ident(pi) = pat {
            if let Some(init) = &l.init {
                if let syn::Expr::Closure(c) = &*init.expr {
                    self.closure_lets.insert(pi.ident.to_string(), c.clone());
                }
                let whole = whole_string_hash(&init.expr, &self.helpers).is_some();
                if pi.ident == "hash" || whole {
                    let shape = if whole { ".hashOneWhole" } else { ".other" };
                    let t = toks(&*init.expr);
                    self.push(".binding", shape, &t);
                    if whole {
                        self.hash_vars.push(pi.ident.to_string());
                    } else {
                        self.hash_vars.retain(|v| *v != pi.ident.to_string());
                    }
                } else {
                    // shadowed by something that is not a hash
                    self.hash_vars.retain(|v| *v != pi.ident.to_string());
                }
            }
        }
        syn::visit::visit_local(self, l);
    }
    fn visit_expr_call(&mut self, c: &'ast syn::ExprCall) {
        let f = toks(&*c.func);
        let f = f.rsplit("::").next().unwrap_or("").trim().to_string();
        if self.helpers.iter().any(|(n, _)| *n == f) {
            let e = syn::Expr::Call(c.clone());
            let shape = if whole_string_hash(&e, &self.helpers).is_some() { ".hashOneWhole" } else { ".other" };
            self.push(".call", shape, &toks(c));
        }
        syn::visit::visit_expr_call(self, c);
    }
    fn visit_expr_method_call(&mut self, m: &'ast syn::ExprMethodCall) {
        let name = m.method.to_string();
        if name == "hash_one" && self.helpers.iter().any(|(n, _)| *n == self.func) {
            // the body of a recognised helper: accounted for at its call sites
        } else if name == "hash_one" {
            let shape = if m.args.len() == 1 && is_plain_ident(&m.args[0]) { ".hashOneWhole" } else { ".other" };
            self.push(".call", shape, &toks(m));
        } else if matches!(name.as_str(), "insert_with_hasher" | "find_or_find_insert_slot" | "shrink_to" | "shrink_to_fit") {
            if name == "find_or_find_insert_slot" {
                if let Some(c) = m.args.iter().nth(1).and_then(|a| self.as_closure(a)) {
                    let c = &c;
                    let ok = closure_result(c).map(|r| self.is_whole_string_eq(r, c)).unwrap_or(false);
                    self.push(".probeEq", if ok { ".hashOneWhole" } else { ".other" }, &toks(c));
                }
            }
            // the closure the table calls to re-hash an entry when it grows or shrinks: it has to hash the
            // whole string of the entry it is given (a string it binds itself, not a captured value)
            let last_closure = m.args.last().and_then(|a| self.as_closure(a));
            let ok = match &last_closure {
                Some(c) => match closure_result(c).and_then(|r| whole_string_hash(r, &self.helpers)) {
                    Some(arg) => {
                        let a = toks(arg).trim_start_matches('&').trim().to_string();
                        closure_bound(c).contains(&a)
                    }
                    None => false,
                },
                _ => false,
            };
            let t = last_closure.as_ref().map(|c| toks(c)).or_else(|| m.args.last().map(|a| toks(a))).unwrap_or_default();
            self.push(".rehash", if ok { ".hashOneWhole" } else { ".other" }, &t);
        } else if name == "from_hash" || name == "from_key_hashed_nocheck" {
            // the equality closure of the probe: `<probe string> == <string of the stored key>`, nothing else
            if let Some(c) = m.args.iter().nth(1).and_then(|a| self.as_closure(a)) {
                let c = &c;
                let ok = closure_result(c).map(|r| self.is_whole_string_eq(r, c)).unwrap_or(false);
                self.push(".probeEq", if ok { ".hashOneWhole" } else { ".other" }, &toks(c));
            }
            // the hash handed to the raw-entry API must be the binding `hash`
            let ok = m.args.first().map(|a| is_plain_ident(a) && self.hash_vars.contains(&toks(a))).unwrap_or(false);
            let t = m.args.first().map(|a| toks(a)).unwrap_or_default();
            self.push(".use", if ok { ".hashOneWhole" } else { ".other" }, &t);
        } else if (name == "hash" && m.args.len() == 1) || (name == "finish" && self.func != "fmt") || name == "write_usize" || name == "write_u64" {
            // hand-rolled hashing next to the tables
            self.push(".call", ".other", &toks(m));
        }
        syn::visit::visit_expr_method_call(self, m);
    }
}

thread_local! {
    static HELPERS: std::cell::RefCell<Vec<String>> = std::cell::RefCell::new(Vec::new());
}

/// Is `name` one of the private `hasher.hash_one(string)` helpers found by `emit`?
pub fn is_hash_helper(name: &str) -> bool {
    let n = name.rsplit("::").next().unwrap_or("").to_string();
    HELPERS.with(|h| h.borrow().contains(&n))
}

pub fn emit(src: &Path, out: &mut String) {
    let mut v = V { file: String::new(), func: String::new(), sites: Vec::new(), helpers: Vec::new(), hash_vars: Vec::new(), closure_lets: Default::default() };
    // first pass: private helpers that are nothing but `hasher.hash_one(string)`
    for f in ["rodeo.rs", "reader.rs", "threaded_rodeo.rs", "util.rs"] {
        let path = src.join(f);
        if !path.exists() {
            continue;
        }
        let file = parse_file(&path);
        for item in &file.items {
            match item {
                syn::Item::Fn(func) => v.helpers.extend(hash_helper(&func.sig, &func.block)),
                syn::Item::Impl(imp) => {
                    for it in &imp.items {
                        if let syn::ImplItem::Fn(func) = it {
                            v.helpers.extend(hash_helper(&func.sig, &func.block));
                        }
                    }
                }
                _ => {}
            }
        }
    }
    HELPERS.with(|h| *h.borrow_mut() = v.helpers.iter().map(|(n, _)| n.clone()).collect());
    for f in ["rodeo.rs", "reader.rs", "threaded_rodeo.rs"] {
        let path = src.join(f);
        if !path.exists() {
            continue;
        }
        let file = parse_file(&path);
        v.file = f.to_string();
        for item in &file.items {
            if let syn::Item::Mod(m) = item {
                if m.ident == "tests" || m.ident == "test" {
                    continue;
                }
            }
            v.visit_item(item);
        }
    }
    out.push_str("/-- Every computation and use of a table hash in the containers. -/\n");
    out.push_str(&format!("def hashSites : List HashSite := {}\n\n", lean::list(&v.sites)));
}
