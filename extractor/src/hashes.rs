//! Every place where a table hash is computed or used (rodeo.rs, reader.rs, threaded_rodeo.rs).
//! The model hashes *the whole string with the table's hasher* everywhere (lookup, insert, rehash
//! closure); a site of any other shape is reported as `.other`.

use crate::{lean, parse_file, toks};
use std::path::Path;
use syn::visit::Visit;

struct V {
    file: String,
    func: String,
    sites: Vec<String>,
}

fn is_plain_ident(e: &syn::Expr) -> bool {
    match e {
        syn::Expr::Path(p) => p.path.segments.len() == 1 && p.qself.is_none(),
        syn::Expr::Reference(r) => is_plain_ident(&r.expr),
        syn::Expr::Paren(p) => is_plain_ident(&p.expr),
        _ => false,
    }
}

impl V {
    fn push(&mut self, kind: &str, shape: &str, text: &str) {
        self.sites.push(format!(
            "{{ file := {}, func := {}, kind := {kind}, shape := {shape}, text := {} }}",
            lean::s(&self.file),
            lean::s(&self.func),
            lean::s(text)
        ));
    }
}

impl<'ast> Visit<'ast> for V {
    fn visit_impl_item_fn(&mut self, f: &'ast syn::ImplItemFn) {
        let old = std::mem::replace(&mut self.func, f.sig.ident.to_string());
        syn::visit::visit_impl_item_fn(self, f);
        self.func = old;
    }
    fn visit_item_fn(&mut self, f: &'ast syn::ItemFn) {
        let old = std::mem::replace(&mut self.func, f.sig.ident.to_string());
        syn::visit::visit_item_fn(self, f);
        self.func = old;
    }
    fn visit_local(&mut self, l: &'ast syn::Local) {
        // `let hash = <expr>;`
        if let syn::Pat::Ident(pi) = &l.pat {
            if pi.ident == "hash" {
                if let Some(init) = &l.init {
                    let shape = match &*init.expr {
                        syn::Expr::MethodCall(m) if m.method == "hash_one" && m.args.len() == 1 && is_plain_ident(&m.args[0]) => ".hashOneWhole",
                        _ => ".other",
                    };
                    let t = toks(&*init.expr);
                    self.push(".binding", shape, &t);
                }
            }
        }
        syn::visit::visit_local(self, l);
    }
    fn visit_expr_method_call(&mut self, m: &'ast syn::ExprMethodCall) {
        let name = m.method.to_string();
        if name == "hash_one" {
            let shape = if m.args.len() == 1 && is_plain_ident(&m.args[0]) { ".hashOneWhole" } else { ".other" };
            self.push(".call", shape, &toks(m));
        } else if name == "from_hash" || name == "from_key_hashed_nocheck" {
            // the hash handed to the raw-entry API must be the binding `hash`
            let ok = m.args.first().map(|a| toks(a) == "hash").unwrap_or(false);
            let t = m.args.first().map(|a| toks(a)).unwrap_or_default();
            self.push(".use", if ok { ".hashOneWhole" } else { ".other" }, &t);
        } else if (name == "hash" && m.args.len() == 1) || (name == "finish" && self.func != "fmt") || name == "write_usize" || name == "write_u64" {
            // hand-rolled hashing next to the tables
            self.push(".call", ".other", &toks(m));
        }
        syn::visit::visit_expr_method_call(self, m);
    }
}

pub fn emit(src: &Path, out: &mut String) {
    let mut v = V { file: String::new(), func: String::new(), sites: Vec::new() };
    for f in ["rodeo.rs", "reader.rs", "threaded_rodeo.rs"] {
        let path = src.join(f);
        if !path.exists() {
            continue;
        }
        let file = parse_file(&path);
        v.file = f.to_string();
        for item in &file.items {
            if let syn::Item::Mod(m) = item {
                if m.ident == "tests" || m.ident == "test" {
                    continue;
                }
            }
            v.visit_item(item);
        }
    }
    out.push_str("/-- Every computation and use of a table hash in the containers. -/\n");
    out.push_str(&format!("def hashSites : List HashSite := {}\n\n", lean::list(&v.sites)));
}
