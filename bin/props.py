"""Per-property stream definitions."""
import os, json
import vlib
from vlib import sh, HARNESS, read_lines, read_json, run_driver, diff_streams

BIN = os.path.join(HARNESS, "target", "release")


def generic_stream(name, cmd, prefix, prop, ctx, fingerprint_of=None, sample_n=3):
    """Run a harness binary that writes <prefix>.ops/.impl/.oracle/.stats, run the driver, diff."""
    for ext in ("ops", "impl", "oracle", "stats", "model"):
        try:
            os.remove(f"{prefix}.{ext}")
        except FileNotFoundError:
            pass
    rc, out = sh(cmd, timeout=7200)
    res = {"name": name, "I": [], "M": [], "stats": {}, "samples": []}
    stats = read_json(prefix + ".stats", {}) or {}
    res["stats"] = stats
    if rc != 0:
        res["M"].append({"kind": "harness run", "what": f"{name}: harness exited with {rc}", "log": out[-800:]})
        return res
    # oracle failures: lines "<Cxx> <fingerprint> :: <description> :: <replay json>" or free text
    for line in read_lines(prefix + ".oracle"):
        parts = line.split(" ", 1)
        if parts[0] != prop and not ctx.get("all_props"):
            continue
        body = parts[1] if len(parts) > 1 else ""
        fp = body.split(" :: ")[0] if " :: " in body else (fingerprint_of(body) if fingerprint_of else body[:80])
        res["I"].append({"stream": name, "fingerprint": fp.replace(" ", "_"), "what": body, "ops_file": prefix + ".ops"})
    if ctx["driver_ok"]:
        ok, err = run_driver(prefix + ".ops", prefix + ".model")
        if not ok:
            res["M"].append({"kind": "driver run", "what": f"{name}: driver failed: {err}"})
        else:
            n, dis = diff_streams(prefix + ".ops", prefix + ".impl", prefix + ".model")
            res["stats"]["lines_compared"] = n
            for d in dis:
                d["stream"] = name
                d["ops_file"] = prefix + ".ops"
                res["M"].append(d)
    ops = read_lines(prefix + ".ops")
    imp = read_lines(prefix + ".impl")
    step = max(1, len(ops) // max(sample_n, 1))
    for i in range(0, len(ops), step):
        if len(res["samples"]) < sample_n and i < len(imp):
            res["samples"].append({"op": ops[i], "answer": imp[i]})
    return res


def stream_keys(ctx):
    prefix = os.path.join(ctx["work"], f"keys-{ctx['seed']}")
    tier = "thorough" if (ctx["tier"] == "thorough" or ctx.get("search")) else "quick"
    return generic_stream("keys", [os.path.join(BIN, "keys"), tier, str(ctx["seed"]), prefix], prefix, "C11", ctx,
                          fingerprint_of=lambda b: b.split(":")[0] + ":" + " ".join(b.split(":")[1].split()[:1]) if ":" in b else b[:60])


def seq_stream(profile, prop):
    def run(ctx):
        prefix = os.path.join(ctx["work"], f"seq-{profile}-{ctx['seed']}")
        tier = ctx["tier"]
        mult = ctx.get("mult", 1)
        cmd = [os.path.join(BIN, "seq"), "run", profile, tier, str(ctx["seed"]), prefix, str(mult)]
        r = generic_stream(f"seq:{profile}", cmd, prefix, prop, ctx)
        return r
    run.__name__ = f"seq_{profile}"
    return run


SEQ_TRUST = ["hashbrown raw-entry API and dashmap behave as documented (modelled by contract, not verified)",
             "allocation never fails; usize arithmetic in the arenas is Nat (no overflow)",
             "serde_json text layer is exercised, not modelled"]

import probes

PROPS = {
    "C01": {
        "streams": [seq_stream("core", "C01"), seq_stream("views", "C01")],
        "trusted_base": SEQ_TRUST,
        "assumptions": ["concurrent interner: one-thread semantics here; schedules are C03/C05"],
    },
    "C02": {
        "streams": [seq_stream("core", "C02"), seq_stream("growth", "C02")],
        "trusted_base": SEQ_TRUST,
        "assumptions": ["concurrent interner: one-thread semantics here; the re-check under the shard lock is C03"],
    },
    "C07": {
        "streams": [seq_stream("exhaust", "C07"), seq_stream("mem", "C07")],
        "trusted_base": SEQ_TRUST + ["Rodeo: a failing call returns no new state in the model; that the code mutated nothing is checked by the post-failure sweeps of the correspondence run"],
        "assumptions": [],
    },
    "C08": {
        "streams": [seq_stream("mem", "C08"), seq_stream("clone", "C08")],
        "trusted_base": SEQ_TRUST,
        "assumptions": [],
    },
    "C10": {
        "streams": [seq_stream("iter", "C10"), seq_stream("core", "C10")],
        "trusted_base": SEQ_TRUST + ["std's slice::Iter / Enumerate (modelled as a list state machine)"],
        "assumptions": [],
    },
    "C13": {
        "streams": [seq_stream("clear", "C13")],
        "trusted_base": SEQ_TRUST,
        "assumptions": [],
    },
    "C16": {
        "streams": [seq_stream("static", "C16"), seq_stream("wrap", "C16")],
        "trusted_base": SEQ_TRUST,
        "assumptions": [],
    },
    "C04": {
        "streams": [seq_stream("mem", "C04"), seq_stream("clone", "C04"), seq_stream("views", "C04")],
        "trusted_base": SEQ_TRUST + ["Drop/free-exactly-once is not modelled: checked on the real code by the counting allocator of the harness"],
        "assumptions": ["use of freed memory by safe user code is C20; concurrent regions are C05"],
    },
    "C06": {
        "streams": [seq_stream("views", "C06")],
        "trusted_base": SEQ_TRUST + ["absence of interior mutability in the real views is not a theorem (C20 receivers + harness)"],
        "assumptions": ["concurrently populated interners: quiescent states (C03)"],
    },
    "C12": {
        "streams": [seq_stream("clone", "C12")],
        "trusted_base": SEQ_TRUST + ["non-sharing of memory between clone and source: block audit of the harness (values own their arena in the model)"],
        "assumptions": [],
    },
    "C17": {
        "streams": [seq_stream("wrap", "C17")],
        "trusted_base": SEQ_TRUST + ["Rust method resolution (inherent before trait) as encoded in Wrap.resolve"],
        "assumptions": [],
    },
    "C18": {
        "streams": [seq_stream("eq", "C18")],
        "trusted_base": SEQ_TRUST,
        "assumptions": [],
    },
    "C14": {
        "streams": [seq_stream("serde", "C14")],
        "trusted_base": SEQ_TRUST + ["serde data-model level only: JSON text, escaping and UTF-8 handling are serde_json's (exercised, not modelled)"],
        "assumptions": [],
    },
    "C15": {
        "streams": [seq_stream("docs", "C15")],
        "trusted_base": SEQ_TRUST + ["serde visitor semantics of HashMap<String,K> (last value wins) and NonZero range checks, as modelled"],
        "assumptions": [],
    },
    "C19": {
        "streams": [probes.stream_c19],
        "trusted_base": ["rustc's auto-trait rules are what LassoModel/Markers.lean says (validated on the whole 4x2x9 probe matrix on every run)",
                         "leaf table for std / hashbrown / dashmap types in Markers.leaf"],
        "assumptions": [],
    },
    "C20": {
        "streams": [probes.stream_c20],
        "trusted_base": ["rustc's borrow checker behaves on the three-statement probes as LassoModel/Borrow.lean says (validated on the whole matrix, error code included, on every run)"],
        "assumptions": [],
    },
    "C11": {
        "streams": [stream_keys],
        "trusted_base": ["rustc's layout of Option<NonZero*> (size_of check is harness-only)",
                         "serde_json for the text layer of the key round trip"],
        "assumptions": ["64-bit target (usize = 64 bits)"],
    },
}
