"""Per-property stream definitions."""
import os, json
import vlib
from vlib import sh, HARNESS, read_lines, read_json, run_driver, diff_streams

BIN = os.path.join(HARNESS, "target", "release")


def generic_stream(name, cmd, prefix, prop, ctx, fingerprint_of=None, sample_n=3, also=None):
    """Run a harness binary that writes <prefix>.ops/.impl/.oracle/.stats, run the driver, diff."""
    for ext in ("ops", "impl", "oracle", "stats", "model"):
        try:
            os.remove(f"{prefix}.{ext}")
        except FileNotFoundError:
            pass
    rc, out = sh(cmd, timeout=7200)
    res = {"name": name, "I": [], "M": [], "stats": {}, "samples": []}
    stats = read_json(prefix + ".stats", {}) or {}
    res["stats"] = stats
    if rc != 0:
        res["M"].append({"kind": "harness run", "what": f"{name}: harness exited with {rc}", "log": out[-800:]})
        return res
    # oracle failures: lines "<Cxx> <fingerprint> :: <description> :: <replay json>" or free text
    for line in read_lines(prefix + ".oracle"):
        parts = line.split(" ", 1)
        body = parts[1] if len(parts) > 1 else ""
        # the death of the process inside a case of this property's stream counts for this property:
        # whatever the property promises about the operations of that case was not delivered
        # … and so does a fault (a debug assertion or checked unchecked-operation firing inside the library)
        if parts[0] != prop and not ctx.get("all_props") and not body.startswith("process-abort") and not body.startswith("fault-in-") \
                and not (also and also(parts[0], body)):
            continue
        fp = body.split(" :: ")[0] if " :: " in body else (fingerprint_of(body) if fingerprint_of else body[:80])
        res["I"].append({"stream": name, "fingerprint": fp.replace(" ", "_"), "what": body, "ops_file": prefix + ".ops"})
    if ctx["driver_ok"]:
        ok, err = run_driver(prefix + ".ops", prefix + ".model")
        if not ok:
            res["M"].append({"kind": "driver run", "what": f"{name}: driver failed: {err}"})
        else:
            n, dis = diff_streams(prefix + ".ops", prefix + ".impl", prefix + ".model")
            res["stats"]["lines_compared"] = n
            for d in dis:
                d["stream"] = name
                d["ops_file"] = prefix + ".ops"
                res["M"].append(d)
    ops = read_lines(prefix + ".ops")
    imp = read_lines(prefix + ".impl")
    step = max(1, len(ops) // max(sample_n, 1))
    for i in range(0, len(ops), step):
        if len(res["samples"]) < sample_n and i < len(imp):
            res["samples"].append({"op": ops[i], "answer": imp[i]})
    return res


def stream_keys(ctx):
    prefix = os.path.join(ctx["work"], f"keys-{ctx['seed']}")
    tier = "thorough" if (ctx["tier"] == "thorough" or ctx.get("search")) else "quick"
    return generic_stream("keys", [os.path.join(BIN, "keys"), tier, str(ctx["seed"]), prefix], prefix, "C11", ctx,
                          fingerprint_of=lambda b: b.split(":")[0] + ":" + " ".join(b.split(":")[1].split()[:1]) if ":" in b else b[:60])


def threaded_lines(tag, body):
    """Oracle failures of the sequential streams that concern the *concurrent* interner used from one thread (one
    thread is one of the schedules C03 quantifies over): one key per string, lookups find what was interned."""
    return tag in ("C01", "C02", "C10") and ("(threaded)" in body or "ThreadedRodeo" in body)


def own_memory_lines(tag, body):
    """The runtime half of C20 ("the well-ordered programs compile and run"): a string handed out by an object lies in
    that object's own blocks (or is static), so it lives as long as its borrower says."""
    return tag == "C04" and ("string-outside-own-blocks" in body or "shares-memory" in body or "dangling" in body)


def seq_stream(profile, prop, also=None):
    def run(ctx):
        prefix = os.path.join(ctx["work"], f"seq-{profile}-{ctx['seed']}")
        tier = ctx["tier"]
        mult = ctx.get("mult", 1)
        cmd = [os.path.join(BIN, "seq"), "run", profile, tier, str(ctx["seed"]), prefix, str(mult)]
        r = generic_stream(f"seq:{profile}", cmd, prefix, prop, ctx, also=also)
        return r
    run.__name__ = f"seq_{profile}"
    return run


SEQ_TRUST = ["hashbrown raw-entry API and dashmap behave as documented (modelled by contract, not verified)",
             "allocation never fails; usize arithmetic in the arenas is Nat (no overflow)",
             "serde_json text layer is exercised, not modelled"]

# --------------------------------------------------------------------------------------------
# concurrent scenarios: schedule replay through the hooks

def hx(s):
    return s.encode().hex() if s else "-"


def conc_scenarios(tier, seed, which):
    """List of (header lines, generation directive). Strings are chosen by the caller's shard probe."""
    n = 25 if tier == "quick" else 400
    ex = 300 if tier == "quick" else 5000
    S = []
    if which in ("C03", "C02"):
        S.append((["conc 4294967295 4 max", f"cthread i:{hx('aa')} g:{hx('aa')}", f"cthread i:{hx('aa')} r:0"], [f"cexhaust {ex}"]))
    if which in ("C03", "C01"):
        S.append((["conc 4294967295 4 max", f"cthread s:{hx('aa')} l", f"cthread g:{hx('aa')} g:{hx('aa')} r:0"], [f"cexhaust {ex}"]))
    if which == "C03":
        S.append((["conc 4294967295 4 max", f"cthread i:{hx('aa')} i:{hx('bb')}", f"cthread i:{hx('bb')} i:{hx('aa')}"], [f"cgen {seed} {n * 3}"]))
        S.append((["conc 4294967295 4 max", f"cthread s:{hx('aa')}", f"cthread i:{hx('aa')}", f"cthread g:{hx('aa')} c:0 l"], [f"cgen {seed + 1} {n * 2}"]))
        S.append((["conc 4294967295 3 max", f"cthread i:{hx('p1')} i:{hx('q2')}", f"cthread i:{hx('r3')} g:{hx('p1')}", f"cthread s:{hx('q2')} r:1", f"cthread l g:{hx('r3')} c:2"], [f"cgen {seed + 2} {n * 2}"]))
    if which in ("C03", "C07"):
        # racing for the last keys
        S.append((["conc 2 8 max", f"cthread i:{hx('k1')}", f"cthread i:{hx('k2')}", f"cthread s:{hx('k3')} g:{hx('k1')}"], [f"cgen {seed + 3} {n * 2}", f"cexhaust {ex}"]))
        pre = " ".join(hx("f%03d" % i) for i in range(253))
        S.append((["conc 255 4096 max", f"cprefill {pre}", f"cthread i:{hx('zz1')} l", f"cthread i:{hx('zz2')} g:{hx('zz1')}", f"cthread s:{hx('zz3')}"], [f"cgen {seed + 4} {n}"]))
    if which in ("C03",):
        # memory failures in flight: block 4, limit 8
        S.append((["conc 4294967295 4 8", f"cthread i:{hx('abcde')} g:{hx('abcde')}", f"cthread i:{hx('vwxyz')} l", f"cthread i:{hx('ab')}"], [f"cgen {seed + 5} {n * 2}"]))
    return S


def separate_shards(scen, workfile):
    """Arena-level replay overlaps `store_str` calls of different threads, which is only possible when
    their strings live in different shards of the string->key map: perturb strings until they do."""
    import itertools
    for _round in range(12):
        with open(workfile, "w") as f:
            for header, _ in scen:
                f.write("\n".join(header) + "\n")
        rc, out = sh([os.path.join(BIN, "conc"), "shards", workfile], timeout=600)
        shard = {}
        for l in out.splitlines():
            t = l.split()
            if len(t) == 3 and t[0] == "cshard":
                shard[t[1]] = t[2]
        changed = False
        for header, _ in scen:
            seen = {}
            for hi, h in enumerate(header):
                if not h.startswith("cthread") and not h.startswith("cprefill"):
                    continue
                toks = h.split()
                for ti, tok in enumerate(toks[1:], 1):
                    hexs = tok.split(":", 1)[1] if ":" in tok else tok
                    if hexs == "-":
                        continue
                    sv = shard.get(hexs)
                    owner = seen.get(sv)
                    if owner is not None and owner != hi:
                        b = bytearray.fromhex(hexs)
                        b[-1] = 97 + ((b[-1] - 97 + 1 + _round) % 26)
                        new = bytes(b).hex()
                        toks[ti] = (tok.split(":", 1)[0] + ":" + new) if ":" in tok else new
                        changed = True
                    else:
                        seen[sv] = hi
                header[hi] = " ".join(toks)
        if not changed:
            return True
    return False


def conc_stream(which, klass=0, scen_fn=None, tag="c"):
    def run(ctx):
        name = f"conc:{which}" if tag == "c" else f"conc-arena:{which}"
        work = ctx["work"]
        prefix = os.path.join(work, f"conc{tag}-{which}-{ctx['seed']}")
        res = {"name": name, "I": [], "M": [], "stats": {}, "samples": []}
        for ext in ("f0", "ops", "impl", "oracle", "stats", "model", "progress"):
            try:
                os.remove(f"{prefix}.{ext}")
            except FileNotFoundError:
                pass
        tier = "thorough" if (ctx["tier"] == "thorough" or ctx.get("search")) else "quick"
        scen = (scen_fn or conc_scenarios)(tier, ctx["seed"], which)
        f0 = prefix + ".f0"
        if tag == "a":
            scen = [(list(h), g) for h, g in scen]
            if not separate_shards(scen, f0):
                res["M"].append({"kind": "harness", "what": f"{name}: could not place the scenario strings in distinct shards"})
                return res
        with open(f0, "w") as f:
            for header, _ in scen:
                f.write("\n".join(header) + "\n")
        rc, shards = sh([os.path.join(BIN, "conc"), "shards", f0], timeout=600)
        if rc != 0:
            res["M"].append({"kind": "harness run", "what": f"{name}: shard probe failed", "log": shards[-500:]})
            return res
        shard_lines = [l for l in shards.splitlines() if l.startswith("cshard")]
        if not ctx["driver_ok"]:
            res["M"].append({"kind": "driver", "what": f"{name}: the model driver is not available to generate schedules"})
            return res
        # expand generation directives with the model
        import subprocess
        ops = []
        n_sched = 0
        for header, gens in scen:
            block = header[:1] + shard_lines + header[1:]
            p = subprocess.run([vlib.DRIVER], input="\n".join(block + gens) + "\n", stdout=subprocess.PIPE, text=True)
            outl = p.stdout.splitlines()
            cruns = [l for l in outl if l.startswith(tag + "run")]
            cruns = list(dict.fromkeys(cruns))
            # free schedules: arbitrary thread sequences, not restricted to what the model considers
            # enabled (a released thread that blocks simply proceeds later); oracle-only
            import random
            rnd = random.Random(ctx["seed"] * 7919 + len(ops))
            nthreads = sum(1 for h in header if h.startswith("cthread"))
            nfree = (12 if tier == "quick" else 200) * (5 if ctx.get("search") else 1)
            frees = []
            for _ in range(nfree):
                ln = rnd.randint(4, 8 * nthreads)
                frees.append(tag + "free " + ",".join(str(rnd.randrange(nthreads)) for _ in range(ln * (3 if tag == "a" else 1))))
            n_sched += len(cruns) + len(frees)
            ops += block + cruns + frees
        with open(prefix + ".ops", "w") as f:
            f.write("\n".join(ops) + "\n")
        open(prefix + ".oracle", "w").close()
        # replay on the implementation (restart after a hang)
        start = 0
        hangs = 0
        while True:
            rc, out = sh([os.path.join(BIN, "conc"), "run", prefix + ".ops", prefix, str(start), str(klass)], timeout=3600)
            prog = open(prefix + ".progress").read().strip() if os.path.exists(prefix + ".progress") else "0"
            if rc == 0 and prog == "done":
                break
            hangs += 1
            line = int(prog) if prog.isdigit() else start
            with open(prefix + ".impl", "a") as f:
                f.write("hang\n")
            with open(prefix + ".oracle", "a") as f:
                f.write(f"{which} hang-or-crash :: the replay of schedule line {line + 1} did not complete: {out[-200:]!r} :: {ops[line] if line < len(ops) else ''}\n")
            start = line + 1
            if hangs > 20 or start >= len(ops):
                break
        for line in read_lines(prefix + ".oracle"):
            parts = line.split(" ", 1)
            # failures of the interning protocol count for every property whose mechanism is replayed here
            body = parts[1] if len(parts) > 1 else ""
            fp = body.split(" :: ")[0].replace(" ", "_")
            res["I"].append({"stream": name, "fingerprint": fp, "what": body, "ops_file": prefix + ".ops"})
        ok, err = run_driver(prefix + ".ops", prefix + ".model")
        if not ok:
            res["M"].append({"kind": "driver run", "what": f"{name}: driver failed: {err}"})
        else:
            n, dis = diff_streams(prefix + ".ops", prefix + ".impl", prefix + ".model")
            for d in dis:
                d["stream"] = name
                d["ops_file"] = prefix + ".ops"
                res["M"].append(d)
            res["stats"]["lines_compared"] = n
        res["stats"].update({"scenarios": len(scen), "schedules_replayed": n_sched, "hangs": hangs})
        imp = read_lines(prefix + ".impl")
        for i, l in enumerate(ops):
            if l.startswith(tag + "run") and len(res["samples"]) < 2 and i < len(imp):
                res["samples"].append({"schedule": l, "result": imp[i]})
        return res
    run.__name__ = f"conc_{which}"
    return run


def big_stream(prop, mode="big"):
    """Implementation-only streams: `big` = very long strings (up to 9 MiB; sizes around every block capacity
    on the way), `longdoc` = serialised documents with more entries than any pre-sizing or growth threshold
    of the tables (7 300 ... 600 000 strings), `many` = hundreds of thousands of strings interned one by one (the
    16-bit key type filled to capacity, clear / clone / views of a large interner, a limit reached and raised),
    `hugeeq` = finding strings of 16 MiB and more again (lowered limit, hashers that cannot tell them apart).  Property oracles, block audit and the self-consistency sweep,
    no model comparison (the driver does not replay megabytes)."""
    def run(ctx):
        name = f"seq-{mode}"
        prefix = os.path.join(ctx["work"], f"{mode}-{ctx['seed']}")
        res = {"name": name, "I": [], "M": [], "stats": {}, "samples": []}
        tier = "thorough" if (ctx["tier"] == "thorough" or ctx.get("search")) else "quick"
        for ext in ("ops", "impl", "oracle", "stats"):
            try:
                os.remove(f"{prefix}.{ext}")
            except FileNotFoundError:
                pass
        rc, out = sh([os.path.join(BIN, "seq"), mode, tier, str(ctx["seed"]), prefix], timeout=3600)
        res["stats"] = read_json(prefix + ".stats", {}) or {}
        if rc != 0:
            res["M"].append({"kind": "harness run", "what": f"{name}: harness exited with {rc}", "log": out[-500:]})
            return res
        for line in read_lines(prefix + ".oracle"):
            parts = line.split(" ", 1)
            body = parts[1] if len(parts) > 1 else ""
            if parts[0] != prop and not body.startswith("process-abort") and not body.startswith("fault-in-"):
                continue
            fp = body.split(" :: ")[0]
            res["I"].append({"stream": f"seq:{mode}", "fingerprint": fp.replace(" ", "_"), "what": body, "ops_file": prefix + ".ops"})
        return res
    run.__name__ = f"seq_{mode}"
    return run


def stress_stream(which, scale=1.0):
    """Uncontrolled multi-thread runs (no hooks installed). Oracle failures only; a search aid, not a proof.
    `which` names the stress mode (c03: interning protocol, c05: storage, c09: budget)."""
    def run(ctx):
        name = f"stress:{which}"
        res = {"name": name, "I": [], "M": [], "stats": {}, "samples": []}
        if ctx.get("search"):
            iters, threads = 2500, 16
        elif ctx["tier"] == "thorough":
            iters, threads = 4000, 12
        else:
            iters, threads = 120, 8
        # the interning-protocol mode is cheap (1 ms per iteration): run ten times as many, the rare races
        # (well below 1 % of rounds) need them
        per_mode = {"c03": 10.0, "c05": 2.0, "c09": 2.0, "views": 4.0}.get(which.lower(), 1.0)
        iters = max(1, int(iters * scale * per_mode))
        cmd = [os.path.join(BIN, "stress"), which.lower(), str(iters), str(threads), str(ctx["seed"])]
        rc, out = sh(cmd, timeout=3600)
        lines = out.splitlines()
        for l in lines:
            if l.startswith("ORACLE "):
                t = l.split(" ", 3)
                kind = t[2].rstrip(":") if len(t) > 2 else "?"
                res["I"].append({"stream": name, "fingerprint": f"stress_{kind}", "what": l[len("ORACLE "):],
                                 "case": {"replay": " ".join(cmd), "note": "uncontrolled threads: the run is not deterministic; the line above is the observation"}})
            elif l.startswith("stats "):
                for kv in l.split()[2:]:
                    k, _, v = kv.partition("=")
                    res["stats"][k] = int(v) if v.isdigit() else v
        if rc != 0:
            res["I"].append({"stream": name, "fingerprint": "stress_crash", "what": f"{which} stress run crashed (rc={rc}): {out[-300:]!r}",
                             "case": {"replay": " ".join(cmd)}})
        return res
    run.__name__ = f"stress_{which}"
    return run


import probes
import miri

PROPS = {
    "C01": {
        "streams": [seq_stream("core", "C01"), seq_stream("views", "C01"), conc_stream("C01"), stress_stream("C03"), stress_stream("C05", 0.5), big_stream("C01"), big_stream("C01", "many")],
        "trusted_base": SEQ_TRUST,
        "assumptions": ["concurrent interner: one-thread semantics here; schedules are C03/C05"],
    },
    "C02": {
        "streams": [seq_stream("core", "C02"), seq_stream("growth", "C02"), conc_stream("C02"), stress_stream("C03"), big_stream("C02", "many"), big_stream("C02", "hugeeq")],
        "trusted_base": SEQ_TRUST,
        "assumptions": ["concurrent interner: one-thread semantics here; the re-check under the shard lock is C03"],
    },
    "C07": {
        "streams": [seq_stream("exhaust", "C07"), seq_stream("mem", "C07"), conc_stream("C07"), stress_stream("C03"), big_stream("C07", "many")],
        "trusted_base": SEQ_TRUST + ["Rodeo: a failing call returns no new state in the model; that the code mutated nothing is checked by the post-failure sweeps of the correspondence run"],
        "assumptions": [],
    },
    "C08": {
        "streams": [seq_stream("mem", "C08"), seq_stream("clone", "C08"), big_stream("C08")],
        "trusted_base": SEQ_TRUST,
        "assumptions": [],
    },
    "C10": {
        "streams": [seq_stream("iter", "C10"), seq_stream("core", "C10"), stress_stream("C03"), big_stream("C10", "many")],
        "trusted_base": SEQ_TRUST + ["std's slice::Iter / Enumerate (modelled as a list state machine)"],
        "assumptions": [],
    },
    "C13": {
        "streams": [seq_stream("clear", "C13"), big_stream("C13", "many")],
        "trusted_base": SEQ_TRUST,
        "assumptions": [],
    },
    "C16": {
        "streams": [seq_stream("static", "C16"), seq_stream("wrap", "C16")],
        "trusted_base": SEQ_TRUST,
        "assumptions": [],
    },
    "C04": {
        "streams": [seq_stream("mem", "C04"), seq_stream("clone", "C04"), seq_stream("views", "C04"), stress_stream("C05", 0.5), big_stream("C04"), miri.miri_stream("c05", "C04")],
        "trusted_base": SEQ_TRUST + ["Drop/free-exactly-once is not modelled: checked on the real code by the counting allocator of the harness"],
        "assumptions": ["use of freed memory by safe user code is C20; concurrent regions are C05"],
    },
    "C06": {
        "streams": [seq_stream("views", "C06"), stress_stream("views"), big_stream("C06", "many"), big_stream("C06", "hugeeq")],
        "trusted_base": SEQ_TRUST + ["absence of interior mutability in the real views is not a theorem (C20 receivers + harness)"],
        "assumptions": ["concurrently populated interners: quiescent states (C03)"],
    },
    "C12": {
        "streams": [seq_stream("clone", "C12")],
        "trusted_base": SEQ_TRUST + ["non-sharing of memory between clone and source: block audit of the harness (values own their arena in the model)"],
        "assumptions": [],
    },
    "C17": {
        "streams": [seq_stream("wrap", "C17")],
        "trusted_base": SEQ_TRUST + ["Rust method resolution (inherent before trait) as encoded in Wrap.resolve"],
        "assumptions": [],
    },
    "C18": {
        "streams": [seq_stream("eq", "C18")],
        "trusted_base": SEQ_TRUST,
        "assumptions": [],
    },
    "C14": {
        "streams": [seq_stream("serde", "C14"), big_stream("C14", "many"), big_stream("C14", "longdoc")],
        "trusted_base": SEQ_TRUST + ["serde data-model level only: JSON text, escaping and UTF-8 handling are serde_json's (exercised, not modelled)"],
        "assumptions": [],
    },
    "C15": {
        "streams": [seq_stream("docs", "C15"), big_stream("C15", "longdoc")],
        "trusted_base": SEQ_TRUST + ["serde visitor semantics of HashMap<String,K> (last value wins) and NonZero range checks, as modelled"],
        "assumptions": [],
    },
    "C19": {
        "streams": [probes.stream_c19, stress_stream("views")],
        "trusted_base": ["rustc's auto-trait rules are what LassoModel/Markers.lean says (validated on the whole 4x2x9 probe matrix on every run)",
                         "leaf table for std / hashbrown / dashmap types in Markers.leaf"],
        "assumptions": [],
    },
    "C20": {
        "streams": [probes.stream_c20, seq_stream("clone", "C20", also=own_memory_lines), seq_stream("views", "C20", also=own_memory_lines)],
        "trusted_base": ["rustc's borrow checker behaves on the three-statement probes as LassoModel/Borrow.lean says (validated on the whole matrix, error code included, on every run)"],
        "assumptions": [],
    },
    "C03": {
        "streams": [conc_stream("C03"), stress_stream("C03", 3.0), seq_stream("serde", "C03", also=threaded_lines), seq_stream("core", "C03", also=threaded_lines)],
        "trusted_base": ["dashmap: a shard is a hash table behind an RwLock, get/entry/insert take the locks they say (modelled, not verified)",
                         "atomics on a sequentially consistent interleaving at the granularity of the schedule points (every atomic op, lock acquisition and map insert of the interning path has its own point)",
                         "store_str is one step at this granularity (its own interleavings: C05); string contents are stable (C01/C05)",
                         "len() is treated as one atomic read of the count (dashmap sums shard lengths one by one)"],
        "assumptions": [],
    },
    "C11": {
        "streams": [stream_keys],
        "trusted_base": ["rustc's layout of Option<NonZero*> (size_of check is harness-only)",
                         "serde_json for the text layer of the key round trip"],
        "assumptions": ["64-bit target (usize = 64 bits)"],
    },
}




def arena_scenarios(tier, seed, which):
    n = 40 if tier == "quick" else 600
    ex = 200 if tier == "quick" else 3000
    A, B, C, D = hx("aaa"), hx("bbbbb"), hx("cc"), hx("dddddddddddd")
    S = []
    if which == "C05":
        # two threads reserving in the same block
        S.append((["conc 4294967295 16 max", f"cthread i:{A} i:{C}", f"cthread i:{B}"], [f"agen {seed} {n}", f"aexhaust {ex}"]))
        # the block fills up under the other thread's feet; both push new blocks
        S.append((["conc 4294967295 4 max", f"cthread i:{A} i:{hx('xy')}", f"cthread i:{hx('wvu')} i:{C}"], [f"agen {seed + 1} {n * 2}"]))
        # oversized string next to ordinary ones, three threads
        S.append((["conc 4294967295 3 max", f"cthread i:{D}", f"cthread i:{A}", f"cthread i:{hx('ef')} i:{hx('g')}"], [f"agen {seed + 2} {n * 2}"]))
    if which in ("C05", "C09"):
        # limits close to the usage: blocks of 4, limit 12 resp. 9
        S.append((["conc 4294967295 4 12", f"cthread i:{hx('abcde')}", f"cthread i:{hx('vwxyz')}", f"cthread i:{hx('lmnop')}"], [f"agen {seed + 3} {n * 2}", f"aexhaust {ex}"]))
        S.append((["conc 4294967295 4 9", f"cthread i:{hx('abc')} i:{hx('de')}", f"cthread i:{hx('vwx')} i:{hx('yz')}"], [f"agen {seed + 4} {n * 2}"]))
        S.append((["conc 4294967295 10 15", f"cprefill {hx('12345678')}", f"cthread i:{hx('abcde')}", f"cthread i:{hx('vwxyz')}"], [f"agen {seed + 5} {n}", f"aexhaust {ex}"]))
    return S


ARENA_TRUST = ["atomics on a sequentially consistent interleaving at the granularity of the schedule points of store_str / try_inc_length / allocate_memory / push_front (every atomic load, compare-exchange, the copy, the capacity store)",
               "the global allocator (a fresh block never aliases a live one); Layout arithmetic; usize arithmetic is Nat",
               "extractor's classification of atomic operations into roles (LassoModel/Source.lean AtomicRole)",
               "harness controller and hook placement (f33c273)"]
PROPS["C05"] = {
    "streams": [conc_stream("C05", klass=1, scen_fn=arena_scenarios, tag="a"), stress_stream("C05"), miri.miri_stream("c05", "C05")],
    "trusted_base": ARENA_TRUST + ["C11 release/acquire semantics: the theorem checks the publication rule on the extracted ordering table; the memory model itself is not formalised (thorough tier runs Miri's race detector as a search aid)"],
    "assumptions": ["strings reach other threads only through the interner's maps (C03)"],
}
PROPS["C09"] = {
    "streams": [conc_stream("C09", klass=1, scen_fn=arena_scenarios, tag="a"), stress_stream("C09")],
    "trusted_base": ARENA_TRUST,
    "assumptions": ["under racing limit changes the bound is the highest limit ever in force (a claim may be made against a limit loaded before it was lowered)"],
}
