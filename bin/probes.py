"""rustc probe matrices for C19 (markers) and C20 (lifetimes): generate one small program per probe,
compile each against the lasso rlib built from /repo's working tree, compare accept/reject (and the
error code) with the prediction of the Lean model (driver)."""
import os, json, subprocess, concurrent.futures, shutil, re
import vlib
from vlib import sh, HARNESS, DRIVER

PRELUDE = r'''
#![allow(dead_code, unused_variables, unused_imports, unused_mut)]
use lasso::*;
use std::cell::Cell;
use std::collections::hash_map::RandomState;
use std::hash::{BuildHasher, Hash};
use std::marker::PhantomData;
use std::sync::MutexGuard;

macro_rules! key_type {
    ($name:ident, $marker:ty) => {
        #[derive(Clone, Copy, PartialEq, Eq, Hash, Debug)]
        pub struct $name(Spur, PhantomData<$marker>);
        unsafe impl Key for $name {
            fn into_usize(self) -> usize { self.0.into_usize() }
            fn try_from_usize(i: usize) -> Option<Self> { Spur::try_from_usize(i).map(|s| $name(s, PhantomData)) }
        }
    };
}
macro_rules! hasher_type {
    ($name:ident, $marker:ty) => {
        #[derive(Clone, Default)]
        pub struct $name(RandomState, PhantomData<$marker>);
        impl BuildHasher for $name {
            type Hasher = <RandomState as BuildHasher>::Hasher;
            fn build_hasher(&self) -> Self::Hasher { self.0.build_hasher() }
        }
    };
}
// ordinary: Send + Sync;  nosend: Sync but not Send;  nosync: Send but not Sync
key_type!(KOrd, ());
key_type!(KNoSend, MutexGuard<'static, ()>);
key_type!(KNoSync, Cell<()>);
hasher_type!(HOrd, ());
hasher_type!(HNoSend, MutexGuard<'static, ()>);
hasher_type!(HNoSync, Cell<()>);
fn need_send<T: Send>() {}
fn need_sync<T: Sync>() {}
'''

KT = {"ord": "KOrd", "nosend": "KNoSend", "nosync": "KNoSync"}
HT = {"ord": "HOrd", "nosend": "HNoSend", "nosync": "HNoSync"}


REPO = os.environ.get("LASSO_REPO", "/repo")


def lasso_rlib():
    """Build lasso (through the harness crate) and return (rlib path, deps dir)."""
    rc, out = sh(["cargo", "build", "--release", "--offline", "--message-format=json", "--lib"], cwd=HARNESS, timeout=1800)
    rlib = None
    for line in out.splitlines():
        if not line.startswith("{"):
            continue
        try:
            m = json.loads(line)
        except Exception:
            continue
        if m.get("reason") == "compiler-artifact" and m.get("target", {}).get("name") == "lasso":
            for f in m.get("filenames", []):
                if f.endswith(".rlib"):
                    rlib = f
    if rc != 0 or not rlib:
        return None, None, out[-1500:]
    return rlib, os.path.join(os.path.dirname(rlib)), ""


def lasso_rlib_default():
    """lasso built from the working tree with *default* features only (no `multi-threaded`, no `serialize`):
    the configuration of the pinned suite.  Conditional compilation can make the marker impls differ."""
    tdir = os.path.join(HARNESS, "target", "nofeat")
    rc, out = sh(["cargo", "build", "--release", "--offline", "--message-format=json", "--lib", "--target-dir", tdir], cwd=REPO, timeout=1800)
    rlib = None
    for line in out.splitlines():
        if not line.startswith("{"):
            continue
        try:
            m = json.loads(line)
        except Exception:
            continue
        if m.get("reason") == "compiler-artifact" and m.get("target", {}).get("name") == "lasso":
            for f in m.get("filenames", []):
                if f.endswith(".rlib"):
                    rlib = f
    if rc != 0 or not rlib:
        return None, None, out[-1500:]
    return rlib, os.path.join(tdir, "release", "deps"), ""


def compile_probe(path, rlib, deps, outdir, run=False):
    """Returns dict(ok, codes, messages, ran)."""
    exe = os.path.join(outdir, os.path.basename(path)[:-3])
    cmd = ["rustc", "--edition", "2021", "-A", "warnings", "--error-format=json", "--cap-lints", "allow",
           "--extern", f"lasso={rlib}", "-L", f"dependency={deps}", "--cfg", "lasso_verif"]
    if run:
        cmd += ["-o", exe, path]
    else:
        cmd += ["--emit=metadata", "--out-dir", outdir, path]
    p = subprocess.run(cmd, stdout=subprocess.PIPE, stderr=subprocess.PIPE, text=True)
    codes, msgs, lines = [], [], []
    for line in p.stderr.splitlines():
        if not line.startswith("{"):
            continue
        try:
            d = json.loads(line)
        except Exception:
            continue
        if d.get("level") == "error":
            code = (d.get("code") or {}).get("code")
            if code or "aborting" not in d.get("message", ""):
                codes.append(code or "none")
                msgs.append(d.get("message", "")[:200])
                for sp in d.get("spans", []):
                    if sp.get("is_primary"):
                        lines.append(sp.get("line_start"))
    res = {"ok": p.returncode == 0, "codes": codes, "messages": msgs, "lines": lines, "ran": None}
    if run and p.returncode == 0:
        r = subprocess.run([exe], stdout=subprocess.PIPE, stderr=subprocess.STDOUT, text=True, timeout=60)
        res["ran"] = (r.returncode == 0)
        res["run_output"] = r.stdout[-300:]
    return res


def driver_answers(lines):
    p = subprocess.run([DRIVER], input="\n".join(lines) + "\n", stdout=subprocess.PIPE, text=True)
    return p.stdout.splitlines()


# ------------------------------------------------------------------------------------------ C19

C19_POSITIVE = PRELUDE + r'''
fn main() {
    // moving a single-threaded interner to another thread
    let mut r: Rodeo<KOrd, HOrd> = Rodeo::with_hasher(HOrd::default());
    let k = r.get_or_intern("moved");
    let r = std::thread::spawn(move || { let mut r = r; r.get_or_intern("there"); r }).join().unwrap();
    assert_eq!(r.resolve(&k), "moved");
    // sharing a concurrent interner, a reader and a resolver
    let t: ThreadedRodeo<KOrd, HOrd> = ThreadedRodeo::with_hasher(HOrd::default());
    std::thread::scope(|s| {
        for i in 0..4 { let t = &t; s.spawn(move || { t.get_or_intern(format!("s{}", i % 2)); }); }
    });
    assert_eq!(t.len(), 2);
    let reader = t.into_reader();
    std::thread::scope(|s| {
        for _ in 0..4 { let rd = &reader; s.spawn(move || { assert!(rd.get("s0").is_some()); }); }
    });
    let resolver = reader.into_resolver();
    std::thread::scope(|s| {
        for _ in 0..4 { let rs = &resolver; s.spawn(move || { assert_eq!(rs.len(), 2); }); }
    });
}
'''


def stream_c19(ctx):
    work = os.path.join(ctx["work"], "probes19")
    shutil.rmtree(work, ignore_errors=True)
    os.makedirs(work, exist_ok=True)
    res = {"name": "rustc-probes:C19", "I": [], "M": [], "stats": {}, "samples": []}
    rlib, deps, err = lasso_rlib()
    if not rlib:
        res["M"].append({"kind": "lasso build", "what": "lasso does not build for the probes", "log": err})
        return res
    probes = []
    for c in ["Rodeo", "ThreadedRodeo", "RodeoReader", "RodeoResolver"]:
        for m in ["Send", "Sync"]:
            for kk in KT:
                for hk in (HT if c != "RodeoResolver" else {"ord": "HOrd"}):
                    ty = f"{c}<{KT[kk]}, {HT[hk]}>" if c != "RodeoResolver" else f"{c}<{KT[kk]}>"
                    name = f"{c}_{m}_{kk}_{hk}"
                    src = PRELUDE + f"fn main() {{\n    need_{m.lower()}::<{ty}>(); // PROBE\n}}\n"
                    path = os.path.join(work, name + ".rs")
                    open(path, "w").write(src)
                    probes.append({"name": name, "path": path, "query": f"marker {c} {m} {kk} {hk}", "ty": ty, "marker": m})
    preds = driver_answers([p["query"] for p in probes]) if ctx["driver_ok"] else []
    with concurrent.futures.ThreadPoolExecutor(max_workers=16) as ex:
        outs = list(ex.map(lambda p: compile_probe(p["path"], rlib, deps, work), probes))
    n_accept = n_reject = 0
    for i, (p, o) in enumerate(zip(probes, outs)):
        accepted = o["ok"]
        n_accept += accepted
        n_reject += (not accepted)
        # rejected for the right reason: exactly one error, E0277
        if not accepted and o["codes"] != ["E0277"]:
            res["M"].append({"kind": "probe", "what": f"{p['name']}: rejected for an unexpected reason {o['codes']} {o['messages'][:1]}", "file": p["path"]})
            continue
        # the property itself, on rustc's verdict: accepted only if key and hasher have the marker
        parts = p["name"].split("_")
        m, kk, hk = parts[1], parts[2], parts[3]
        bad = "nosend" if m == "Send" else "nosync"
        allowed = (kk != bad) and (hk != bad)
        if accepted and not allowed:
            res["I"].append({"stream": "rustc-probes:C19", "fingerprint": f"{parts[0]}-{m}-with-{kk}-key-{hk}-hasher",
                             "what": f"{p['ty']}: {m} is accepted by rustc although the key ({kk}) or hasher ({hk}) is not {m}",
                             "probe_file": p["path"], "source": open(p["path"]).read()})
        if preds and i < len(preds):
            want = (preds[i] == "yes")
            if want != accepted:
                res["M"].append({"kind": "probe", "what": f"{p['name']}: model predicts {'accept' if want else 'reject'}, rustc {'accepts' if accepted else 'rejects'}", "file": p["path"]})
        if len(res["samples"]) < 3 and i % 23 == 0:
            res["samples"].append({"probe": p["name"], "type": p["ty"], "rustc": "accepts" if accepted else "rejects (E0277)", "model": preds[i] if i < len(preds) else None})
    # the same matrix for the containers that exist without the `multi-threaded` feature, against a build
    # with default features only: the verdicts must be the same (and obey the property)
    rlib2, deps2, err2 = lasso_rlib_default()
    n_default = 0
    if not rlib2:
        res["M"].append({"kind": "lasso build", "what": "lasso does not build with default features for the probes", "log": err2})
    else:
        sub = [(p, o) for p, o in zip(probes, outs) if not p["name"].startswith("ThreadedRodeo")]
        work2 = os.path.join(work, "default-features")
        os.makedirs(work2, exist_ok=True)
        with concurrent.futures.ThreadPoolExecutor(max_workers=16) as ex:
            outs2 = list(ex.map(lambda po: compile_probe(po[0]["path"], rlib2, deps2, work2), sub))
        for (p, o1), o2 in zip(sub, outs2):
            n_default += 1
            parts = p["name"].split("_")
            m, kk, hk = parts[1], parts[2], parts[3]
            bad = "nosend" if m == "Send" else "nosync"
            allowed = (kk != bad) and (hk != bad)
            if o2["ok"] and not allowed:
                res["I"].append({"stream": "rustc-probes:C19", "fingerprint": f"default-features-{parts[0]}-{m}-with-{kk}-key-{hk}-hasher",
                                 "what": f"built with default features, {p['ty']}: {m} is accepted by rustc although the key ({kk}) or hasher ({hk}) is not {m}",
                                 "probe_file": p["path"], "source": open(p["path"]).read()})
            elif o2["ok"] != o1["ok"]:
                res["M"].append({"kind": "probe", "what": f"{p['name']}: rustc {'accepts' if o1['ok'] else 'rejects'} with all features and {'accepts' if o2['ok'] else 'rejects'} with default features", "file": p["path"]})
            elif not o2["ok"] and o2["codes"] != ["E0277"]:
                res["M"].append({"kind": "probe", "what": f"{p['name']} (default features): rejected for an unexpected reason {o2['codes']} {o2['messages'][:1]}", "file": p["path"]})
    # the documented positive cases compile and run
    pos = os.path.join(work, "positive.rs")
    open(pos, "w").write(C19_POSITIVE)
    o = compile_probe(pos, rlib, deps, work, run=True)
    if not o["ok"] or not o["ran"]:
        res["I"].append({"stream": "rustc-probes:C19", "fingerprint": "documented-case-fails",
                         "what": f"the documented move/share program does not compile or run: {o['codes']} {o['messages'][:2]} {o.get('run_output', '')}", "probe_file": pos})
    res["stats"] = {"probes": len(probes), "accepted": n_accept, "rejected": n_reject, "positive_program_ran": bool(o.get("ran")), "exhaustive": True,
                    "probes_against_default_feature_build": n_default}
    return res


# ------------------------------------------------------------------------------------------ C20

C20_PRELUDE = r'''
#![allow(dead_code, unused_variables, unused_imports, unused_mut, unused_unsafe)]
use lasso::*;
fn use_str(s: &str) -> usize { s.len() }
'''

# how to build each container with one interned string; `c` is the container, `k` its key
MAKE = {
    "Rodeo": "let mut c: Rodeo = Rodeo::new(); let k = c.get_or_intern(\"a\"); let mut other: Rodeo = Rodeo::new();",
    "ThreadedRodeo": "let c: ThreadedRodeo = ThreadedRodeo::new(); let k = c.get_or_intern(\"a\");",
    "RodeoReader": "let mut t: Rodeo = Rodeo::new(); let k = t.get_or_intern(\"a\"); let c: RodeoReader = t.into_reader();",
    "RodeoResolver": "let mut t: Rodeo = Rodeo::new(); let k = t.get_or_intern(\"a\"); let c: RodeoResolver = t.into_resolver();",
}
OBTAIN = {
    "resolve": "c.resolve(&k)",
    "try_resolve": "c.try_resolve(&k).unwrap()",
    "resolve_unchecked": "unsafe { c.resolve_unchecked(&k) }",
    "index": "&c[k]",
    "iter": "c.iter().next().unwrap().1",
    "strings": "c.strings().next().unwrap()",
    "into_iter": "(&c).into_iter().next().unwrap().1",
}
# through a trait object
OBTAIN_DYN = {
    "resolve": "d.resolve(&k)",
    "try_resolve": "d.try_resolve(&k).unwrap()",
    "resolve_unchecked": "unsafe { d.resolve_unchecked(&k) }",
}
INVALIDATE = {
    "clear": "c.clear();",
    "clone_from": "c.clone_from(&other);",
    "try_clone_from": "c.try_clone_from(&other).unwrap();",
    "into_reader": "let _v = c.into_reader();",
    "into_resolver": "let _v = c.into_resolver();",
    "drop": "drop(c);",
}
ENTRIES = {
    "Rodeo": ["resolve", "try_resolve", "resolve_unchecked", "index", "iter", "strings", "into_iter"],
    "ThreadedRodeo": ["resolve", "try_resolve", "index", "iter", "strings"],
    "RodeoReader": ["resolve", "try_resolve", "resolve_unchecked", "index", "iter", "strings", "into_iter"],
    "RodeoResolver": ["resolve", "try_resolve", "resolve_unchecked", "index", "iter", "strings", "into_iter"],
}
INVS = {
    "Rodeo": ["clear", "clone_from", "try_clone_from", "into_reader", "into_resolver", "drop", "scope"],
    "ThreadedRodeo": ["into_reader", "into_resolver", "drop", "scope"],
    "RodeoReader": ["into_resolver", "drop", "scope"],
    "RodeoResolver": ["drop", "scope"],
}


def c20_program(cont, obtain_expr, inv, bad, dyn=False):
    """bad=True: use after invalidation (must be rejected); False: the well-ordered twin."""
    make = MAKE[cont]
    dynline = "let d: &dyn Resolver<Spur> = &c;" if dyn else ""
    if inv == "scope":
        if bad:
            body = f"let s: &str;\n    {{\n        {make}\n        {dynline}\n        s = {obtain_expr}; // PROBE\n    }}\n    use_str(s);"
        else:
            body = f"{{\n        {make}\n        {dynline}\n        let s: &str = {obtain_expr};\n        use_str(s);\n    }}"
    else:
        if bad:
            body = f"{make}\n    {dynline}\n    let s: &str = {obtain_expr};\n    {INVALIDATE[inv]} // PROBE\n    use_str(s);"
        else:
            body = f"{make}\n    {dynline}\n    let s: &str = {obtain_expr};\n    use_str(s);\n    {INVALIDATE[inv]}"
    return C20_PRELUDE + f"fn main() {{\n    {body}\n}}\n"


STATIC_PROBES = {
    # (owner for the model, method): (setup, call)
    ("Rodeo", "get_or_intern_static"): ("let mut c: Rodeo = Rodeo::new();", "c.get_or_intern_static(ARG);"),
    ("Rodeo", "try_get_or_intern_static"): ("let mut c: Rodeo = Rodeo::new();", "c.try_get_or_intern_static(ARG).unwrap();"),
    ("ThreadedRodeo", "get_or_intern_static"): ("let c: ThreadedRodeo = ThreadedRodeo::new();", "c.get_or_intern_static(ARG);"),
    ("ThreadedRodeo", "try_get_or_intern_static"): ("let c: ThreadedRodeo = ThreadedRodeo::new();", "c.try_get_or_intern_static(ARG).unwrap();"),
    ("dynInterner", "get_or_intern_static"): ("let mut r: Rodeo = Rodeo::new(); let c: &mut dyn Interner<Spur> = &mut r;", "c.get_or_intern_static(ARG);"),
    ("dynInterner", "try_get_or_intern_static"): ("let mut r: Rodeo = Rodeo::new(); let c: &mut dyn Interner<Spur> = &mut r;", "c.try_get_or_intern_static(ARG).unwrap();"),
    ("Rodeo", "get_or_intern"): ("let mut c: Rodeo = Rodeo::new();", "c.get_or_intern(ARG);"),
    ("dynInterner", "try_get_or_intern"): ("let mut r: Rodeo = Rodeo::new(); let c: &mut dyn Interner<Spur> = &mut r;", "c.try_get_or_intern(ARG).unwrap();"),
}


def stream_c20(ctx):
    work = os.path.join(ctx["work"], "probes20")
    shutil.rmtree(work, ignore_errors=True)
    os.makedirs(work, exist_ok=True)
    res = {"name": "rustc-probes:C20", "I": [], "M": [], "stats": {}, "samples": []}
    rlib, deps, err = lasso_rlib()
    if not rlib:
        res["M"].append({"kind": "lasso build", "what": "lasso does not build for the probes", "log": err})
        return res
    probes = []

    def add(name, query, src_bad, src_good, what):
        pb = os.path.join(work, name + "_bad.rs")
        pg = os.path.join(work, name + "_good.rs")
        open(pb, "w").write(src_bad)
        open(pg, "w").write(src_good)
        probes.append({"name": name, "query": query, "bad": pb, "good": pg, "what": what})

    for cont in ENTRIES:
        for e in ENTRIES[cont]:
            for inv in INVS[cont]:
                add(f"{cont}_{e}_{inv}", f"borrow {cont} {e} {inv}",
                    c20_program(cont, OBTAIN[e], inv, True), c20_program(cont, OBTAIN[e], inv, False),
                    f"string from {cont}::{e} used after {inv}")
    # trait-object forms: the string is obtained through `&dyn Resolver`, the container is invalidated
    for cont in ["Rodeo", "RodeoReader", "RodeoResolver"]:
        for e in OBTAIN_DYN:
            for inv in INVS[cont]:
                add(f"dyn_{cont}_{e}_{inv}", f"borrowDyn {cont} {e} {inv}",
                    c20_program(cont, OBTAIN_DYN[e], inv, True, dyn=True), c20_program(cont, OBTAIN_DYN[e], inv, False, dyn=True),
                    f"string from <dyn Resolver over {cont}>::{e} used after {inv}")
    # static entry points fed a string that does not live for the whole program (twin: a literal)
    for (owner, meth), (setup, call) in STATIC_PROBES.items():
        bad = C20_PRELUDE + f"fn main() {{\n    {setup}\n    {{\n        let local = String::from(\"x\");\n        {call.replace('ARG', '&local')} // PROBE\n    }}\n}}\n"
        good = C20_PRELUDE + f"fn main() {{\n    {setup}\n    {call.replace('ARG', chr(34) + 'x' + chr(34))}\n}}\n"
        add(f"static_{owner}_{meth}", f"staticArg {owner} {meth}", bad, good, f"{owner}::{meth} fed a non-'static string")

    # ... and fed an *owned* string (a `'static` type is not a string that lives for the whole program): the
    # zero-copy entry points must not accept `String`, `Box<str>`, `Rc<str>` (oracle only, no model query)
    owned = []
    for (owner, meth), (setup, call) in STATIC_PROBES.items():
        if not meth.endswith("_static"):
            continue
        for tag, arg in (("string", 'String::from("x")'), ("boxstr", 'String::from("x").into_boxed_str()'), ("rcstr", 'std::rc::Rc::<str>::from("x")')):
            pb = os.path.join(work, f"owned_{owner}_{meth}_{tag}_bad.rs")
            open(pb, "w").write(C20_PRELUDE + f"fn main() {{\n    {setup}\n    {call.replace('ARG', arg)} // PROBE\n}}\n")
            owned.append({"name": f"owned_{owner}_{meth}_{tag}", "bad": pb, "what": f"{owner}::{meth} accepts an owned {arg}"})
    with concurrent.futures.ThreadPoolExecutor(max_workers=16) as ex:
        owned_outs = list(ex.map(lambda o: compile_probe(o["bad"], rlib, deps, work), owned))
    for o, r in zip(owned, owned_outs):
        if r["ok"]:
            res["I"].append({"stream": "rustc-probes:C20", "fingerprint": o["name"],
                             "what": f"rustc accepts a program in which {o['what']} (the interner would keep a pointer into a buffer that is freed when the argument is dropped)",
                             "probe_file": o["bad"], "source": open(o["bad"]).read()})

    preds = driver_answers([p["query"] for p in probes]) if ctx["driver_ok"] else []
    jobs = []
    for p in probes:
        jobs.append((p["bad"], False))
        jobs.append((p["good"], ctx["tier"] == "thorough"))
    with concurrent.futures.ThreadPoolExecutor(max_workers=16) as ex:
        outs = list(ex.map(lambda j: compile_probe(j[0], rlib, deps, work, run=j[1]), jobs))
    n_rej = n_acc = n_twin_ok = 0
    codes_hist = {}
    for i, p in enumerate(probes):
        ob, og = outs[2 * i], outs[2 * i + 1]
        pred = preds[i] if i < len(preds) else None
        # the twin must compile (and run in the thorough tier): otherwise the probe says nothing
        if not og["ok"] or og["ran"] is False:
            res["M"].append({"kind": "probe", "what": f"{p['name']}: the well-ordered twin does not compile/run: {og['codes']} {og['messages'][:1]}", "file": p["good"]})
            continue
        n_twin_ok += 1
        is_copying = p["name"].startswith("static_") and "_static" not in p["name"][7:]
        if ob["ok"]:
            n_acc += 1
            if not is_copying:
                res["I"].append({"stream": "rustc-probes:C20", "fingerprint": p["name"],
                                 "what": f"rustc accepts a program in which a {p['what']}", "probe_file": p["bad"],
                                 "source": open(p["bad"]).read()})
        else:
            n_rej += 1
            for c in ob["codes"]:
                codes_hist[c] = codes_hist.get(c, 0) + 1
            if is_copying:
                res["M"].append({"kind": "probe", "what": f"{p['name']}: a borrowed string is refused by a copying entry point: {ob['codes']}", "file": p["bad"]})
        if pred is not None:
            if pred == "na":
                res["M"].append({"kind": "probe", "what": f"{p['name']}: the model has no such entry point / operation (signature table changed?)", "file": p["bad"]})
            elif pred == "accept" and not ob["ok"]:
                res["M"].append({"kind": "probe", "what": f"{p['name']}: model predicts accept, rustc rejects {ob['codes']}", "file": p["bad"]})
            elif pred.startswith("reject"):
                code = pred.split()[1]
                if ob["ok"]:
                    res["M"].append({"kind": "probe", "what": f"{p['name']}: model predicts {pred}, rustc accepts", "file": p["bad"]})
                elif ob["codes"] != [code]:
                    res["M"].append({"kind": "probe", "what": f"{p['name']}: model predicts {pred}, rustc reports {ob['codes']} {ob['messages'][:1]}", "file": p["bad"]})
        if len(res["samples"]) < 3 and i % 41 == 0:
            res["samples"].append({"probe": p["name"], "model": pred, "rustc": "accepts" if ob["ok"] else f"rejects {ob['codes']}",
                                   "program": open(p["bad"]).read().split("fn main()")[1][:300]})
    # the must-fail programs that do not need the `multi-threaded` feature, against a default-features build:
    # conditional compilation must not change a verdict
    n_default = 0
    rlib2, deps2, err2 = lasso_rlib_default()
    if not rlib2:
        res["M"].append({"kind": "lasso build", "what": "lasso does not build with default features for the probes", "log": err2})
    else:
        sub = [(i, p) for i, p in enumerate(probes) if "ThreadedRodeo" not in open(p["bad"]).read()]
        work2 = os.path.join(work, "default-features")
        os.makedirs(work2, exist_ok=True)
        with concurrent.futures.ThreadPoolExecutor(max_workers=16) as ex:
            outs2 = list(ex.map(lambda ip: compile_probe(ip[1]["bad"], rlib2, deps2, work2), sub))
        for (i, p), o2 in zip(sub, outs2):
            n_default += 1
            ob = outs[2 * i]
            is_copying = p["name"].startswith("static_") and "_static" not in p["name"][7:]
            if o2["ok"] and not is_copying:
                res["I"].append({"stream": "rustc-probes:C20", "fingerprint": "default-features-" + p["name"],
                                 "what": f"built with default features, rustc accepts a program in which a {p['what']}", "probe_file": p["bad"],
                                 "source": open(p["bad"]).read()})
            elif o2["ok"] != ob["ok"]:
                res["M"].append({"kind": "probe", "what": f"{p['name']}: rustc {'accepts' if ob['ok'] else 'rejects'} with all features and {'accepts' if o2['ok'] else 'rejects'} with default features", "file": p["bad"]})
    res["stats"] = {"probes": len(probes), "programs_compiled": len(jobs), "must_fail_rejected": n_rej, "must_fail_accepted": n_acc,
                    "must_fail_programs_against_default_feature_build": n_default,
                    "twins_ok": n_twin_ok, "error_codes": codes_hist, "exhaustive": True,
                    "owned_argument_probes": len(owned), "owned_argument_probes_rejected": sum(1 for r in owned_outs if not r["ok"])}
    return res
