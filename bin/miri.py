"""Miri runs of the uncontrolled stress binary: a search aid for undefined behaviour and data races
(weak-memory emulation, several scheduler seeds).  Only in the thorough tier and in the failing-input
search; never stands in for a theorem.  Miri executes /repo's current tree (path dependency)."""
import os, re
import vlib
from vlib import sh

HARNESS = os.path.join(vlib.VERIF, "harness")


def miri_stream(mode, prop_tag):
    def run(ctx):
        name = f"miri:{mode}"
        res = {"name": name, "I": [], "M": [], "stats": {}, "samples": []}
        if not (ctx["tier"] == "thorough" or ctx.get("search")):
            res["stats"]["skipped"] = "quick tier"
            return res
        seeds = 16 if ctx["tier"] == "thorough" else 8
        env = dict(os.environ, CARGO_NET_OFFLINE="true",
                   MIRIFLAGS=f"-Zmiri-many-seeds=0..{seeds} -Zmiri-disable-isolation -Zmiri-ignore-leaks")
        cmd = ["cargo", "+nightly", "miri", "run", "--offline", "--bin", "stress", "--", mode, "1", "3", str(ctx["seed"])]
        import subprocess, time
        t0 = time.time()
        try:
            p = subprocess.run(cmd, cwd=HARNESS, stdout=subprocess.PIPE, stderr=subprocess.STDOUT, text=True, env=env, timeout=2400)
            rc, out = p.returncode, p.stdout
        except subprocess.TimeoutExpired as e:
            rc, out = 124, (e.stdout or b"").decode(errors="replace") if isinstance(e.stdout, bytes) else (e.stdout or "")
        res["stats"].update({"seeds": seeds, "wall_s": round(time.time() - t0, 1), "rc": rc})
        ub = re.search(r"error: Undefined Behavior: ([^\n]*)", out)
        if ub:
            where = re.search(r"-->\s*(\S+)", out[ub.start():])
            kind = "data-race" if "Data race" in ub.group(1) or "data race" in ub.group(1).lower() else "undefined-behaviour"
            res["I"].append({"stream": name, "fingerprint": f"miri_{kind}",
                             "what": f"{prop_tag} Miri reports {ub.group(1)[:300]} at {where.group(1) if where else '?'}",
                             "case": {"replay": "cd /verif/harness && MIRIFLAGS='" + env["MIRIFLAGS"] + "' " + " ".join(cmd), "excerpt": out[ub.start():ub.start() + 1500]}})
        else:
            for l in out.splitlines():
                if l.startswith("ORACLE "):
                    res["I"].append({"stream": name, "fingerprint": "miri_" + l.split(" ", 3)[2].rstrip(":"), "what": l[len("ORACLE "):],
                                     "case": {"replay": " ".join(cmd)}})
            if rc == 124:
                res["stats"]["note"] = "timed out; no verdict from Miri"
            elif rc != 0 and not res["I"]:
                # tool trouble (e.g. sysroot build) is not a verdict about the code
                res["stats"]["note"] = "miri did not run to completion: " + out[-300:].replace("\n", " | ")
        return res
    run.__name__ = f"miri_{mode}"
    return run
