"""bin/check <Cxx> <tier> --replay <file>: re-execute the failing input of a replay file against /repo's
current tree.  Prints `VIOLATION property=<id> replay=<file>` and returns 1 when the failure shows again,
returns 0 (and says so) when it does not.  A replay file without a failing input (a broken proof
obligation or correspondence, `no-failing-input-found`) is replayed by running the whole quick check."""
import json, os, re, shlex, subprocess
import vlib
from vlib import sh, log

BIN = os.path.join(vlib.VERIF, "harness", "target", "release")


def _oracle_hits(path, prop):
    hits = []
    if os.path.exists(path):
        for line in open(path).read().splitlines():
            parts = line.split(" ", 1)
            body = parts[1] if len(parts) > 1 else ""
            if parts[0] == prop or body.startswith("process-abort") or body.startswith("derived-object-misbehaves"):
                hits.append(line)
    return hits


def replay(prop, path, seed):
    d = json.load(open(path))
    v = d.get("violation")
    if not v:
        log(f"[{prop}] replay file names broken obligations / correspondence only: {[t.get('what') for t in d.get('broken_obligations', [])][:4]}; running the quick check")
        return vlib.run_check(prop, "quick", seed)
    ok, out = vlib.cargo_build()
    if not ok:
        log(f"[{prop}] harness does not build against the current tree")
        log(f"VIOLATION property={prop} replay={path}")
        return 1
    work = os.path.join(vlib.WORK, prop)
    os.makedirs(work, exist_ok=True)
    stream = v.get("stream", "")
    shown = None
    if stream.startswith("seq:") and isinstance(v.get("case"), list) and v["case"] and "op" in v["case"][0]:
        # (the harness copies its input to <prefix>.ops: the input must be another file)
        f = os.path.join(work, "replay-input.ops")
        open(f, "w").write("\n".join(c["op"] for c in v["case"]) + "\n")
        prefix = os.path.join(work, "replay")
        sh([os.path.join(BIN, "seq"), "file", f, prefix], timeout=1800)
        hits = _oracle_hits(prefix + ".oracle", prop)
        shown = hits[0] if hits else None
    elif (stream.startswith("conc")) and isinstance(v.get("case"), dict) and v["case"].get("lines"):
        f = os.path.join(work, "replay.ops")
        open(f, "w").write("\n".join(v["case"]["lines"]) + "\n")
        prefix = os.path.join(work, "replay")
        for ext in ("impl", "oracle", "progress"):
            try:
                os.remove(f"{prefix}.{ext}")
            except FileNotFoundError:
                pass
        open(prefix + ".oracle", "w").close()
        sh([os.path.join(BIN, "conc"), "run", f, prefix, "0", str(v["case"].get("klass", 0))], timeout=600)
        lines = [l for l in open(prefix + ".oracle").read().splitlines() if l.strip()]
        shown = lines[0] if lines else None
    elif (stream.startswith("stress") or stream.startswith("miri")) and isinstance(v.get("case"), dict) and v["case"].get("replay"):
        cmd = v["case"]["replay"]
        # uncontrolled threads: try a few times
        for _ in range(3):
            p = subprocess.run(cmd, shell=True, stdout=subprocess.PIPE, stderr=subprocess.STDOUT, text=True, cwd=os.path.join(vlib.VERIF, "harness"))
            m = [l for l in p.stdout.splitlines() if l.startswith("ORACLE ") or "Undefined Behavior" in l]
            if m:
                shown = m[0]
                break
    elif stream.startswith("rustc-probes") and v.get("source"):
        import probes
        if str(v.get("fingerprint", "")).startswith("default-features"):
            rlib, deps, err = probes.lasso_rlib_default()
        else:
            rlib, deps, err = probes.lasso_rlib()
        if rlib is None:
            shown = "lasso does not build for the probe"
        else:
            f = os.path.join(work, "replay_probe.rs")
            open(f, "w").write(v["source"])
            o = probes.compile_probe(f, rlib, deps, work)
            if o["ok"]:
                shown = "rustc accepts the program: " + v.get("what", "")
    else:
        # no minimal input stored: run the quick check and look for the same fingerprint
        log(f"[{prop}] no minimal input in the replay file; running the quick check and looking for fingerprint {v.get('fingerprint')}")
        return vlib.run_check(prop, "quick", seed)
    if shown:
        log(f"[{prop}] reproduced: {shown[:400]}")
        log(f"VIOLATION property={prop} replay={path}")
        return 1
    log(f"[{prop}] the failing input of {path} no longer fails on the current tree")
    return 0
