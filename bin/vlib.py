"""Orchestration shared by every property check (see bin/check)."""
import os, sys, json, time, subprocess, re, glob, hashlib

VERIF = os.path.dirname(os.path.dirname(os.path.abspath(__file__)))
LEAN = os.path.join(VERIF, "lean")
HARNESS = os.path.join(VERIF, "harness")
EXTRACTOR = os.path.join(VERIF, "extractor")
WORK = os.path.join(VERIF, "work")
REPO = os.environ.get("LASSO_REPO", "/repo")
DRIVER = os.path.join(LEAN, ".lake", "build", "bin", "driver")
ALLOWED_AXIOMS = {"propext", "Classical.choice", "Quot.sound"}

ENV = dict(os.environ)
ENV["CARGO_NET_OFFLINE"] = "true"


def log(msg):
    print(msg, flush=True)


def sh(cmd, cwd=None, timeout=None, stdin=None, env=None):
    """Run, return (rc, combined output) with the harmless conda warning filtered."""
    if os.environ.get("VERIF_STREAM_TIMEOUT") and timeout and timeout > int(os.environ["VERIF_STREAM_TIMEOUT"]) and cmd and "cargo" not in cmd[0] and "lake" not in cmd[0]:
        timeout = int(os.environ["VERIF_STREAM_TIMEOUT"])      # (campaign runs of bin/mutants cap every stream)
    try:
        p = subprocess.run(cmd, cwd=cwd, timeout=timeout, stdin=stdin, env=env or ENV,
                           stdout=subprocess.PIPE, stderr=subprocess.STDOUT, text=True, errors="replace")
        out = "\n".join(l for l in p.stdout.splitlines() if "conda.cli.condarc" not in l)
        return p.returncode, out
    except subprocess.TimeoutExpired as e:
        out = (e.stdout or b"")
        if isinstance(out, bytes):
            out = out.decode(errors="replace")
        return 124, out + "\nTIMEOUT"


# --------------------------------------------------------------------------------------------
# build steps

def extract():
    """Regenerate Extracted.lean from /repo/src. Returns (ok, log)."""
    exe = os.path.join(EXTRACTOR, "target", "release", "extractor")
    srcs = glob.glob(os.path.join(EXTRACTOR, "src", "*.rs")) + [os.path.join(EXTRACTOR, "Cargo.toml")]
    if not os.path.exists(exe) or any(os.path.getmtime(s) > os.path.getmtime(exe) for s in srcs):
        rc, out = sh(["cargo", "build", "--release", "--offline"], cwd=EXTRACTOR, timeout=900)
        if rc != 0:
            return False, out
    rc, out = sh([exe, os.path.join(REPO, "src"), os.path.join(LEAN, "LassoModel", "Extracted.lean")], timeout=120)
    return rc == 0, out


def lake_build(targets, timeout=1800):
    rc, out = sh(["lake", "build"] + targets, cwd=LEAN, timeout=timeout)
    return rc == 0, out


def cargo_build(bins=None, timeout=1800):
    cmd = ["cargo", "build", "--release", "--offline"]
    for b in bins or []:
        cmd += ["--bin", b]
    rc, out = sh(cmd, cwd=HARNESS, timeout=timeout)
    return rc == 0, out


def theorems_of(prop):
    """Every `theorem` of LassoProofs/<prop>.lean is an obligation of the property."""
    path = os.path.join(LEAN, "LassoProofs", prop + ".lean")
    names = []
    ns = []
    if not os.path.exists(path):
        return names
    for line in open(path):
        m = re.match(r"^namespace\s+(\S+)", line)
        if m:
            ns.append(m.group(1))
        m = re.match(r"^end\s+(\S+)", line)
        if m and ns and ns[-1].endswith(m.group(1)):
            ns.pop()
        m = re.match(r"^(?:private\s+|protected\s+)?theorem\s+([^\s:({\[]+)", line)
        if m:
            names.append(".".join(ns + [m.group(1)]))
    return names


FORBIDDEN = [r"\bsorry\b", r"\badmit\b", r"^\s*axiom\s", r"native_decide", r"bv_decide", r"implemented_by",
             r"\bunsafe\s", r"maxHeartbeats\s+0\b"]


def strip_lean_comments(src):
    # block comments (possibly nested) then line comments
    out = []
    depth = 0
    i = 0
    while i < len(src):
        if src.startswith("/-", i):
            depth += 1
            i += 2
        elif src.startswith("-/", i) and depth > 0:
            depth -= 1
            i += 2
        elif depth > 0:
            if src[i] == "\n":
                out.append("\n")
            i += 1
        else:
            out.append(src[i])
            i += 1
    src = "".join(out)
    return "\n".join(l.split("--")[0] for l in src.splitlines())


def forbidden_tokens():
    hits = []
    for path in glob.glob(os.path.join(LEAN, "Lasso*", "**", "*.lean"), recursive=True) + [os.path.join(LEAN, "Main.lean")]:
        src = strip_lean_comments(open(path).read())
        for n, line in enumerate(src.splitlines(), 1):
            # the content of string literals is data (e.g. Rust source text quoted by the extractor), not Lean
            line = re.sub(r'"(?:\\.|[^"\\])*"', '""', line)
            for pat in FORBIDDEN:
                if re.search(pat, line):
                    hits.append(f"{os.path.relpath(path, LEAN)}:{n}: {line.strip()[:100]}")
    return hits


def audit(prop, names):
    """#print axioms for every obligation. Returns list of dicts {theorem, ok, axioms|why}."""
    if not names:
        return []
    os.makedirs(WORK, exist_ok=True)
    path = os.path.join(WORK, f"audit_{prop}.lean")
    with open(path, "w") as f:
        f.write(f"import LassoProofs.{prop}\n")
        for n in names:
            f.write(f"#print axioms {n}\n")
    rc, out = sh(["lake", "env", "lean", path], cwd=LEAN, timeout=900)
    flat = " ".join(out.split())
    res = []
    for n in names:
        m = re.search(r"'" + re.escape(n) + r"' depends on axioms: \[([^\]]*)\]", flat)
        if m:
            ax = [a.strip() for a in m.group(1).split(",") if a.strip()]
            bad = [a for a in ax if a not in ALLOWED_AXIOMS]
            res.append({"theorem": n, "ok": not bad, "axioms": ax, **({"why": "forbidden axioms " + ",".join(bad)} if bad else {})})
        elif re.search(r"'" + re.escape(n) + r"' does not depend on any axioms", flat):
            res.append({"theorem": n, "ok": True, "axioms": []})
        else:
            res.append({"theorem": n, "ok": False, "axioms": [], "why": "not checked: " + out[-400:]})
    return res


# --------------------------------------------------------------------------------------------
# correspondence helpers

def run_driver(ops_path, model_path, timeout=1800):
    if not os.path.exists(DRIVER):
        return False, "driver not built"
    with open(ops_path) as fin, open(model_path, "w") as fout:
        try:
            p = subprocess.run([DRIVER], stdin=fin, stdout=fout, stderr=subprocess.PIPE, timeout=timeout)
        except subprocess.TimeoutExpired:
            return False, "driver timeout"
    return p.returncode == 0, p.stderr.decode(errors="replace")[-400:]


def diff_streams(ops_path, impl_path, model_path, limit=20):
    """Line-by-line comparison. Returns (n_compared, [disagreement dicts])."""
    dis = []
    n = 0
    with open(ops_path) as fo, open(impl_path) as fi, open(model_path) as fm:
        case_start = 0
        for n, op in enumerate(fo, 1):
            a = fi.readline()
            b = fm.readline()
            if op.startswith("case"):
                case_start = n
            if a.rstrip("\n") != b.rstrip("\n"):
                if len(dis) < limit:
                    dis.append({"line": n, "case_start_line": case_start, "op": op.strip(), "impl": a.strip(), "model": b.strip()})
                elif len(dis) == limit:
                    dis.append({"more": True})
    return n, dis


def read_lines(path):
    if not os.path.exists(path):
        return []
    return [l.rstrip("\n") for l in open(path) if l.strip()]


def read_json(path, default=None):
    try:
        return json.load(open(path))
    except Exception:
        return default


# --------------------------------------------------------------------------------------------
# known findings

def known_findings():
    known, fixed = [], []
    p = os.path.join(VERIF, "known_findings.txt")
    if os.path.exists(p):
        for line in open(p):
            line = line.strip()
            if line.startswith("known:"):
                m = re.match(r"known:\s+property=(\S+)\s+fingerprint=(\S+)\s*(.*)", line)
                if m:
                    known.append({"property": m.group(1), "fingerprint": m.group(2), "what": m.group(3)})
            elif line.startswith("fixed:"):
                fixed.append(line)
    return known, fixed


# --------------------------------------------------------------------------------------------
# the check

def extract_case(ops_file, case_no):
    """The ops of case `case_no` (0-based) of an ops file, with the implementation's answers."""
    try:
        impl_file = ops_file[:-4] + ".impl"
        ops = open(ops_file).read().splitlines()
        imp = open(impl_file).read().splitlines() if os.path.exists(impl_file) else []
        out, cur = [], -1
        for i, l in enumerate(ops):
            if l.startswith("case "):
                cur += 1
            if cur == case_no:
                out.append({"op": l, "impl": imp[i] if i < len(imp) else None})
        return out[:2000]
    except Exception as e:
        return [{"error": str(e)}]


def extract_schedule(ops_file, line_no):
    """Scenario header (conc / cshard / cthread / cprefill lines) plus the schedule line `line_no` (1-based)."""
    try:
        ops = open(ops_file).read().splitlines()
        i = line_no - 1
        start = max(j for j in range(0, i + 1) if ops[j].startswith("conc "))
        header = [l for l in ops[start:i] if l.split(" ", 1)[0] in ("conc", "cshard", "cthread", "cprefill")]
        return header + [ops[i]]
    except Exception as e:
        return None


def attach_case(v):
    m = re.search(r":: case (\d+)", v.get("what", ""))
    if m and v.get("ops_file") and not v.get("stream", "").startswith("conc"):
        v = dict(v)
        v["case"] = extract_case(v["ops_file"], int(m.group(1)))
        v["how_to_replay"] = "bin/check <Cxx> quick --replay <this file>   (or: write the 'op' lines to a file F and run harness/target/release/seq file F <prefix>; lean/.lake/build/bin/driver < F)"
    m = re.search(r"\(line (\d+)\)\s*$", v.get("what", ""))
    if m and v.get("ops_file") and v.get("stream", "").startswith("conc"):
        lines = extract_schedule(v["ops_file"], int(m.group(1)))
        if lines:
            v = dict(v)
            v["case"] = {"lines": lines, "klass": 1 if v["stream"].startswith("conc-arena") else 0}
            v["how_to_replay"] = "bin/check <Cxx> quick --replay <this file>   (or: write case.lines to a file F and run harness/target/release/conc run F <prefix> 0 <klass>)"
    return v


def write_replay(prop, seed, n, payload):
    path = os.path.join(VERIF, "replays", f"{prop}-{seed}-{n}.json")
    with open(path, "w") as f:
        json.dump(payload, f, indent=1)
    return path


def run_check(prop, tier, seed, replay=None):
    import props
    t0 = time.time()
    if prop not in props.PROPS:
        log(f"unknown property {prop}")
        return 2
    spec = props.PROPS[prop]
    T = []          # broken obligations
    notes = []

    # 1. regenerate extracted facts
    ok, out = extract()
    if not ok:
        T.append({"kind": "extractor", "what": "extractor failed on the current tree", "log": out[-1500:]})

    # 2. proofs
    names = theorems_of(prop)
    ok_proofs, out = lake_build([f"LassoProofs.{prop}"])
    if not ok_proofs:
        errs = [l for l in out.splitlines() if "error" in l][:12]
        T.append({"kind": "lake build", "what": f"lake build LassoProofs.{prop} fails", "log": "\n".join(errs) or out[-1500:]})
    ok_driver, out = lake_build(["driver"])
    if not ok_driver:
        errs = [l for l in out.splitlines() if "error" in l][:12]
        T.append({"kind": "driver build", "what": "the executable model does not build", "log": "\n".join(errs) or out[-1500:]})
    aud = audit(prop, names) if ok_proofs else [{"theorem": n, "ok": False, "axioms": [], "why": "module does not build"} for n in names]
    for a in aud:
        if not a["ok"] and ok_proofs:
            T.append({"kind": "axiom audit", "what": f"{a['theorem']}: {a.get('why')}"})
    bad_tokens = forbidden_tokens()
    for h in bad_tokens:
        T.append({"kind": "forbidden token", "what": h})

    # 3. harness against the current tree
    ok_harness, hout = cargo_build()
    harness_log = ""
    if not ok_harness:
        errs = [l for l in hout.splitlines() if l.startswith("error")][:12]
        harness_log = "\n".join(errs) or hout[-1500:]

    # 4. streams
    ctx = {"prop": prop, "tier": tier, "seed": seed, "mult": 1, "driver_ok": ok_driver, "harness_ok": ok_harness,
           "replay": replay, "work": os.path.join(WORK, prop)}
    os.makedirs(ctx["work"], exist_ok=True)
    I, M, stats, samples = [], [], {}, []
    if ok_harness:
        for stream in spec["streams"]:
            r = stream(ctx)
            I += r.get("I", [])
            M += r.get("M", [])
            stats[r.get("name", stream.__name__)] = r.get("stats", {})
            samples += r.get("samples", [])
    else:
        M.append({"kind": "harness build", "what": "harness does not build against the current tree", "log": harness_log})

    # 5. failing-input search when the property is no longer shown to hold
    searched = False
    if not I and (M or T) and ok_harness:
        searched = True
        log(f"[{prop}] proof obligations or correspondence broken; searching for a failing input (larger budget, other seeds)")
        # cheap streams first (uncontrolled stress, long strings, Miri, sequential cases), schedule replay last;
        # in the quick tier the search stops launching new streams after a time budget
        t_search = time.time()
        budget = 300 if tier == "quick" else 3600
        if os.environ.get("VERIF_SEARCH_BUDGET"):      # (campaign runs of bin/mutants shorten the search)
            budget = int(os.environ["VERIF_SEARCH_BUDGET"])
        ordered = sorted(spec["streams"], key=lambda f: 1 if getattr(f, "__name__", "").startswith("conc_") else 0)
        for k in range(1, 3):
            ctx2 = dict(ctx, mult=3, seed=seed + 1000 * k, search=True)
            for stream in ordered:
                if time.time() - t_search > budget:
                    notes.append("failing-input search stopped at its time budget")
                    break
                r = stream(ctx2)
                I += r.get("I", [])
                if I:
                    break
            if I or time.time() - t_search > budget:
                break

    # 6. verdict
    known, _fixed = known_findings()
    violations = []
    known_hits = []
    for v in I:
        hit = next((k for k in known if k["property"] == prop and k["fingerprint"] == v.get("fingerprint")), None)
        if hit:
            known_hits.append((hit, v))
        else:
            violations.append(v)
    seen = set()
    for hit, v in known_hits:
        if hit["fingerprint"] not in seen:
            seen.add(hit["fingerprint"])
            log(f"KNOWN-FINDING: property={prop} {hit['what']}")
    rc = 0
    n_viol = 0
    if violations:
        # one line per distinct fingerprint
        fps = {}
        for v in violations:
            fps.setdefault(v.get("fingerprint", "?"), v)
        for n, (fp, v) in enumerate(list(fps.items())[:5]):
            path = write_replay(prop, seed, n, {"property": prop, "kind": "implementation violates the property", "violation": attach_case(v),
                                                "other_fingerprints": sorted(fps.keys())[:40],
                                                "broken_obligations": T, "model_disagreements": M[:5]})
            log(f"VIOLATION property={prop} replay={path}")
            n_viol += 1
        rc = 1
    elif M or T:
        path = write_replay(prop, seed, 0, {"property": prop, "kind": "property no longer shown to hold",
                                            "broken_obligations": T, "model_disagreements": M[:20],
                                            "searched": searched,
                                            "note": "no input was found on which the implementation violates the property's oracle"})
        log(f"VIOLATION property={prop} replay={path} no-failing-input-found")
        n_viol = 1
        rc = 1

    # 7. evidence
    discharged = sum(1 for a in aud if a["ok"])
    # measured counts of the correspondence part of this run
    evaluations = 0
    compared = 0
    for st in stats.values():
        if isinstance(st, dict):
            for k in ("cases", "schedules_replayed", "probes", "iterations", "indices_checked"):
                if isinstance(st.get(k), int):
                    evaluations += st[k]
                    break
            if isinstance(st.get("lines_compared"), int):
                compared += st["lines_compared"]
    distinct = set()
    headers = ("case", "pool", "conc", "cshard", "cthread", "cprefill")
    try:
        for root, _dirs, files in os.walk(ctx["work"]):
          for fn in files:
            fp = os.path.join(root, fn)
            if (fn.endswith(".ops") or fn.endswith(".rs")) and os.path.getmtime(fp) >= t0 - 1:
                if fn.endswith(".rs"):
                    distinct.add(fn)
                    continue
                with open(fp, errors="replace") as f:
                    for line in f:
                        if line.split(" ", 1)[0].strip() not in headers and line.strip():
                            distinct.add(hash(line))
    except OSError:
        pass
    cov = {
        "evaluations": evaluations,
        "distinct_nontrivial": len(distinct),
        "rule": "evaluations = generated cases + replayed schedules + compiled probe programs + stress iterations of this run's streams; "
                "distinct_nontrivial = number of distinct operation / schedule / document lines (scenario and case headers excluded) and distinct probe "
                "programs written by this run; every one of them is executed on the implementation, checked by the property oracle and (except the "
                "oracle-only streams: free schedules, stress, very long strings, Miri) compared with the model's answer",
        "traces_validated_against_impl": compared,
        "obligations": max(len(names), 1),
        "discharged": discharged if names else 0,
        "checker_cmd": f"cd /verif/lean && lake build LassoProofs.{prop} && lake env lean ../work/audit_{prop}.lean   (#print axioms of every theorem of LassoProofs/{prop}.lean)",
        "trusted_base": spec.get("trusted_base", []) + [
            "Lean 4.33.0 kernel; axioms allowed: propext, Classical.choice, Quot.sound (audited per theorem below)",
            "Lean compiler/runtime for the native driver that executes the model definitions",
            "extractor (/verif/extractor, syn-based) for LassoModel/Extracted.lean",
            "correspondence harness (/verif/harness): generator, canonicalisation, diff, oracles",
        ],
        "theorems": aud,
        "forbidden_token_hits": bad_tokens,
        "broken_obligations": T,
        "correspondence": stats,
        "model_disagreements": len(M),
        "implementation_violations": len(I),
        "known_findings_hit": sorted(seen),
        "samples": samples[:8] if samples else [{"note": "no correspondence samples (harness did not run)"}],
        "searched_for_failing_input": searched,
        "notes": notes,
    }
    ev = {
        "property_id": prop, "tier": tier, "seed": seed, "level": "proof", "coverage": cov,
        "assumptions": spec.get("assumptions", []),
        "wall_s": round(time.time() - t0, 2), "violations": n_viol,
    }
    with open(os.path.join(VERIF, "evidence", f"{prop}.json"), "w") as f:
        json.dump(ev, f, indent=1)
    log(f"[{prop}] tier={tier} seed={seed} obligations={len(names)} discharged={discharged} "
        f"impl_violations={len(I)} model_disagreements={len(M)} broken={len(T)} wall={ev['wall_s']}s rc={rc}")
    return rc
