//! Shared pieces of the correspondence harness: PRNG, hex, the run-time selectable hasher, custom keys.

use std::hash::{BuildHasher, Hasher};
use std::sync::atomic::{AtomicU8, Ordering};

pub mod seqrun;

/// Counting allocator: net bytes currently allocated (alloc adds `layout.size()`, dealloc subtracts
/// the size it is *told*), so a leak, a free with the wrong layout or a double free all show up as a
/// net change over a scope in which everything was dropped.
pub struct CountingAlloc;
pub static NET_BYTES: std::sync::atomic::AtomicIsize = std::sync::atomic::AtomicIsize::new(0);

unsafe impl std::alloc::GlobalAlloc for CountingAlloc {
    unsafe fn alloc(&self, l: std::alloc::Layout) -> *mut u8 {
        NET_BYTES.fetch_add(l.size() as isize, Ordering::Relaxed);
        unsafe { std::alloc::System.alloc(l) }
    }
    unsafe fn dealloc(&self, p: *mut u8, l: std::alloc::Layout) {
        NET_BYTES.fetch_sub(l.size() as isize, Ordering::Relaxed);
        unsafe { std::alloc::System.dealloc(p, l) }
    }
    unsafe fn realloc(&self, p: *mut u8, l: std::alloc::Layout, new_size: usize) -> *mut u8 {
        NET_BYTES.fetch_add(new_size as isize - l.size() as isize, Ordering::Relaxed);
        unsafe { std::alloc::System.realloc(p, l, new_size) }
    }
}

#[global_allocator]
static GLOBAL: CountingAlloc = CountingAlloc;

pub fn net_bytes() -> isize {
    NET_BYTES.load(Ordering::SeqCst)
}
pub mod gen;

/// splitmix64 — every random choice of the harness comes from one of these.
#[derive(Clone)]
pub struct Rng(pub u64);
impl Rng {
    pub fn new(seed: u64) -> Self {
        Rng(seed.wrapping_mul(0x9E37_79B9_7F4A_7C15).wrapping_add(0x1234_5678_9ABC_DEF1))
    }
    pub fn next(&mut self) -> u64 {
        self.0 = self.0.wrapping_add(0x9E37_79B9_7F4A_7C15);
        let mut z = self.0;
        z = (z ^ (z >> 30)).wrapping_mul(0xBF58_476D_1CE4_E5B9);
        z = (z ^ (z >> 27)).wrapping_mul(0x94D0_49BB_1331_11EB);
        z ^ (z >> 31)
    }
    pub fn below(&mut self, n: u64) -> u64 {
        if n == 0 {
            0
        } else {
            self.next() % n
        }
    }
    pub fn range(&mut self, lo: u64, hi: u64) -> u64 {
        lo + self.below(hi - lo + 1)
    }
    pub fn chance(&mut self, num: u64, den: u64) -> bool {
        self.below(den) < num
    }
    pub fn pick<'a, T>(&mut self, xs: &'a [T]) -> &'a T {
        &xs[self.below(xs.len() as u64) as usize]
    }
}

pub fn hex(b: &[u8]) -> String {
    if b.is_empty() {
        return "-".to_string();
    }
    const D: &[u8; 16] = b"0123456789abcdef";
    let mut s = Vec::with_capacity(b.len() * 2);
    for x in b {
        s.push(D[(x >> 4) as usize]);
        s.push(D[(x & 15) as usize]);
    }
    // only ASCII digits were pushed
    unsafe { String::from_utf8_unchecked(s) }
}

pub fn unhex(s: &str) -> Vec<u8> {
    if s == "-" {
        return Vec::new();
    }
    fn v(c: u8) -> u8 {
        match c {
            b'0'..=b'9' => c - b'0',
            b'a'..=b'f' => c - b'a' + 10,
            b'A'..=b'F' => c - b'A' + 10,
            _ => panic!("hex"),
        }
    }
    let b = s.as_bytes();
    (0..b.len() / 2).map(|i| (v(b[2 * i]) << 4) | v(b[2 * i + 1])).collect()
}

/// Hash algorithms shared (by name) with the Lean driver.
/// `impl Hash for str` feeds the bytes followed by one `0xff` byte; all algorithms below are
/// defined on that byte stream, exactly as the model defines them on `bytes ++ [0xff]`.
#[derive(Clone, Copy, Debug, PartialEq, Eq)]
#[repr(u8)]
pub enum HashKind {
    Fnv1a = 0,
    Const0 = 1,
    Len = 2,
    FirstByte = 3,
    TopBitsConst = 4,
}

impl HashKind {
    pub fn name(self) -> &'static str {
        match self {
            HashKind::Fnv1a => "fnv1a",
            HashKind::Const0 => "const0",
            HashKind::Len => "len",
            HashKind::FirstByte => "firstByte",
            HashKind::TopBitsConst => "topBitsConst",
        }
    }
    pub fn parse(s: &str) -> Option<Self> {
        Some(match s {
            "fnv1a" => HashKind::Fnv1a,
            "const0" => HashKind::Const0,
            "len" => HashKind::Len,
            "firstByte" => HashKind::FirstByte,
            "topBitsConst" => HashKind::TopBitsConst,
            _ => return None,
        })
    }
    pub fn from_u8(x: u8) -> Self {
        match x {
            0 => HashKind::Fnv1a,
            1 => HashKind::Const0,
            2 => HashKind::Len,
            3 => HashKind::FirstByte,
            _ => HashKind::TopBitsConst,
        }
    }
    pub const ALL: [HashKind; 5] =
        [HashKind::Fnv1a, HashKind::Const0, HashKind::Len, HashKind::FirstByte, HashKind::TopBitsConst];
}

/// The kind a `VHasher::default()` gets (needed because `Deserialize`/`FromIterator` build the
/// hasher with `Default`).
pub static DEFAULT_HASH_KIND: AtomicU8 = AtomicU8::new(0);

#[derive(Clone, Copy, Debug)]
pub struct VHasher {
    pub kind: HashKind,
    /// per-object state (like the random keys of `RandomState`): two interners built independently hash
    /// differently, a clone hashes like its source.  Only the kinds that look at the content depend on it.
    pub seed: u64,
}
/// Every `VHasher::default()` gets its own state, like `RandomState::default()`: code that builds two hashers
/// where one (cloned) is meant shows.
pub static DEFAULT_SEEDS: std::sync::atomic::AtomicU64 = std::sync::atomic::AtomicU64::new(1 << 20);

impl Default for VHasher {
    fn default() -> Self {
        VHasher { kind: HashKind::from_u8(DEFAULT_HASH_KIND.load(Ordering::SeqCst)), seed: DEFAULT_SEEDS.fetch_add(1, Ordering::Relaxed) }
    }
}
impl VHasher {
    pub fn new(kind: HashKind) -> Self {
        VHasher { kind, seed: 0 }
    }
    pub fn seeded(kind: HashKind, seed: u64) -> Self {
        VHasher { kind, seed }
    }
}

pub struct VState {
    kind: HashKind,
    fnv: u64,
    count: u64,
    first: Option<u8>,
}

impl Hasher for VState {
    fn write(&mut self, bytes: &[u8]) {
        for &b in bytes {
            if self.first.is_none() {
                self.first = Some(b);
            }
            self.fnv ^= b as u64;
            self.fnv = self.fnv.wrapping_mul(0x0000_0100_0000_01B3);
            self.count += 1;
        }
    }
    fn finish(&self) -> u64 {
        match self.kind {
            HashKind::Fnv1a => self.fnv,
            HashKind::Const0 => 0,
            // number of bytes fed, i.e. string length + 1 (the 0xff terminator)
            HashKind::Len => self.count,
            HashKind::FirstByte => self.first.unwrap_or(0) as u64,
            // varies only in the low 7 bits: hashbrown's h2 tag (top 7 bits) and dashmap's shard
            // selection (high bits) are constant, the bucket index varies
            HashKind::TopBitsConst => self.fnv & 0x7f,
        }
    }
}

impl BuildHasher for VHasher {
    type Hasher = VState;
    fn build_hasher(&self) -> VState {
        VState { kind: self.kind, fnv: 0xcbf2_9ce4_8422_2325 ^ self.seed.wrapping_mul(0x9E37_79B9_7F4A_7C15), count: 0, first: None }
    }
}

/// A custom key type with capacity `N` (indices `0..N`), stored as `index + 1` in a `u32`.
#[derive(Clone, Copy, PartialEq, Eq, Hash, Debug, PartialOrd, Ord)]
pub struct SmallKey<const N: usize>(std::num::NonZeroU32);

unsafe impl<const N: usize> lasso::Key for SmallKey<N> {
    fn into_usize(self) -> usize {
        self.0.get() as usize - 1
    }
    fn try_from_usize(int: usize) -> Option<Self> {
        if int < N {
            std::num::NonZeroU32::new(int as u32 + 1).map(SmallKey)
        } else {
            None
        }
    }
}

impl<const N: usize> serde::Serialize for SmallKey<N> {
    fn serialize<S: serde::Serializer>(&self, s: S) -> Result<S::Ok, S::Error> {
        self.0.serialize(s)
    }
}
impl<'de, const N: usize> serde::Deserialize<'de> for SmallKey<N> {
    fn deserialize<D: serde::Deserializer<'de>>(d: D) -> Result<Self, D::Error> {
        let raw = std::num::NonZeroU32::deserialize(d)?;
        if raw.get() as usize <= N {
            Ok(SmallKey(raw))
        } else {
            Err(serde::de::Error::custom("SmallKey out of range"))
        }
    }
}
