// included into seqrun.rs: iterators, equality, serde, collection traits, audit, dispatcher

#[derive(Clone, Copy)]
enum IStep {
    Next,
    Back,
    NthBack(usize),
    Len,
}

fn parse_script(s: &str) -> Vec<IStep> {
    s.split(',')
        .filter_map(|t| match t {
            "n" => Some(IStep::Next),
            "b" => Some(IStep::Back),
            "l" => Some(IStep::Len),
            _ if t.starts_with('t') => t[1..].parse().ok().map(IStep::NthBack),
            _ => None,
        })
        .collect()
}

fn run_script<I, T>(mut it: I, script: &[IStep], show: impl Fn(T) -> String) -> Vec<String>
where
    I: DoubleEndedIterator<Item = T> + ExactSizeIterator,
{
    script
        .iter()
        .map(|st| match st {
            IStep::Next => it.next().map(&show).unwrap_or_else(|| "none".into()),
            IStep::Back => it.next_back().map(&show).unwrap_or_else(|| "none".into()),
            IStep::NthBack(n) => it.nth_back(*n).map(&show).unwrap_or_else(|| "none".into()),
            IStep::Len => it.len().to_string(),
        })
        .collect()
}

/// Reference semantics of a double-ended exact-size iterator over `items` (the C10 oracle).
fn ref_script(items: &[String], script: &[IStep]) -> Vec<String> {
    let mut lo = 0usize;
    let mut hi = items.len();
    script
        .iter()
        .map(|st| match st {
            IStep::Next => {
                if lo < hi {
                    lo += 1;
                    items[lo - 1].clone()
                } else {
                    "none".into()
                }
            }
            IStep::Back => {
                if lo < hi {
                    hi -= 1;
                    items[hi].clone()
                } else {
                    "none".into()
                }
            }
            IStep::NthBack(n) => {
                if hi - lo > *n {
                    hi -= n + 1;
                    items[hi].clone()
                } else {
                    lo = hi;
                    "none".into()
                }
            }
            IStep::Len => (hi - lo).to_string(),
        })
        .collect()
}

impl<K: KeyT> World<K> {
    fn iter_all(&mut self, si: usize, with_keys: bool) -> String {
        let _ = self.slot(si);
        let obj = &self.slots[si].obj;
        let res = guarded(|| {
            let show_p = |(k, s): (K, &str)| format!("{}:{}", k.into_usize(), hex(s.as_bytes()));
            let show_s = |s: &str| hex(s.as_bytes());
            let mut v: Vec<String> = match (obj, with_keys) {
                (Obj::Rodeo(r), true) => r.iter().map(show_p).collect(),
                (Obj::Rodeo(r), false) => r.strings().map(show_s).collect(),
                (Obj::Reader(r, _), true) => r.iter().map(show_p).collect(),
                (Obj::Reader(r, _), false) => r.strings().map(show_s).collect(),
                (Obj::Resolver(r, _), true) => r.iter().map(show_p).collect(),
                (Obj::Resolver(r, _), false) => r.strings().map(show_s).collect(),
                (Obj::Threaded(t, _), _) => {
                    // up to order: canonicalise by key
                    let mut p: Vec<(usize, String)> = t.iter().map(|(k, s)| (k.into_usize(), hex(s.as_bytes()))).collect();
                    let strings_n = t.strings().count();
                    if strings_n != p.len() {
                        p.push((usize::MAX, "strings-count-differs".into()));
                    }
                    p.sort();
                    p.into_iter().map(|(k, h)| if with_keys { format!("{k}:{h}") } else { h }).collect()
                }
                (Obj::Gone, _) => vec!["bad-op".into()],
            };
            if v == ["bad-op"] {
                return "bad-op".to_string();
            }
            show_list(&std::mem::take(&mut v))
        });
        let out = match res {
            Caught::Ok(s) => s,
            Caught::Panic => "panic".into(),
            Caught::Fault(site) => {
                self.fail("C10", "fault-in-iteration", format!("iteration faulted: {site}"));
                self.fail("C04", "fault-in-iteration", format!("iteration faulted: {site}"));
                "fault".into()
            }
        };
        let sh = &self.slots[si].shadow;
        if sh.tracked && out != "bad-op" && out != "fault" {
            let want: Vec<String> = sh.strs.iter().enumerate().map(|(i, b)| if with_keys { format!("{i}:{}", hex(b)) } else { hex(b) }).collect();
            if show_list(&want) != out {
                self.fail("C10", "iteration-mismatch", format!("iteration yields {out}, expected {}", show_list(&want)));
            }
        }
        out
    }

    fn iter_script(&mut self, si: usize, kind: &str, script: &str) -> String {
        let _ = self.slot(si);
        let sc = parse_script(script);
        let obj = &self.slots[si].obj;
        let res = guarded(|| {
            let show_p = |(k, s): (K, &str)| format!("{}:{}", k.into_usize(), hex(s.as_bytes()));
            let show_s = |s: &str| hex(s.as_bytes());
            let v = match (obj, kind) {
                (Obj::Rodeo(r), "iter") => run_script(r.iter(), &sc, show_p),
                (Obj::Rodeo(r), "strings") => run_script(r.strings(), &sc, show_s),
                (Obj::Reader(r, _), "iter") => run_script(r.iter(), &sc, show_p),
                (Obj::Reader(r, _), "strings") => run_script(r.strings(), &sc, show_s),
                (Obj::Resolver(r, _), "iter") => run_script(r.iter(), &sc, show_p),
                (Obj::Resolver(r, _), "strings") => run_script(r.strings(), &sc, show_s),
                (Obj::Rodeo(r), "intoiter") => run_script(r.into_iter(), &sc, show_p),
                (Obj::Reader(r, _), "intoiter") => run_script(r.into_iter(), &sc, show_p),
                (Obj::Resolver(r, _), "intoiter") => run_script(r.into_iter(), &sc, show_p),
                _ => return "bad-op".to_string(),
            };
            v.join(";")
        });
        let out = match res {
            Caught::Ok(s) => s,
            Caught::Panic => "panic".into(),
            Caught::Fault(site) => {
                self.fail("C10", "fault-in-iteration", format!("iterator script faulted: {site}"));
                "fault".into()
            }
        };
        let sh = &self.slots[si].shadow;
        if sh.tracked && out != "bad-op" && out != "fault" {
            let items: Vec<String> = sh.strs.iter().enumerate().map(|(i, b)| if kind == "strings" { hex(b) } else { format!("{i}:{}", hex(b)) }).collect();
            let want = ref_script(&items, &sc).join(";");
            if want != out {
                let p = if kind == "intoiter" { "C17" } else { "C10" };
                self.fail(p, "iterator-script-mismatch", format!("{kind} script {script} yields {out}, expected {want}"));
                // C01 (iteration is a lookup path): a pair `(key, string)` in which the string is not the
                // one that key was minted for
                if kind != "strings" {
                    let minted: Vec<String> = self.slots[si].shadow.strs.iter().map(|b| hex(b)).collect();
                    for item in out.split(';') {
                        if let Some((k, h)) = item.split_once(':') {
                            if let Ok(k) = k.parse::<usize>() {
                                if minted.get(k).map(|m| m.as_str()) != Some(h) {
                                    self.fail("C01", "iterator-pairs-wrong-string", format!("{kind} script {script} yields key {k} with string {h}, which is not the string minted for that key"));
                                    break;
                                }
                            }
                        }
                    }
                }
            }
        }
        out
    }

    fn eq_op(&mut self, a: usize, b: usize) -> String {
        let _ = self.slot(a.max(b));
        let (ka, kb) = (self.slots[a].obj.kind(), self.slots[b].obj.kind());
        let (oa, ob) = (&self.slots[a].obj, &self.slots[b].obj);
        let res = guarded(|| {
            Some(match (oa, ob) {
                (Obj::Rodeo(x), Obj::Rodeo(y)) => x == y,
                (Obj::Rodeo(x), Obj::Reader(y, _)) => x == y,
                (Obj::Rodeo(x), Obj::Resolver(y, _)) => x == y,
                (Obj::Reader(x, _), Obj::Reader(y, _)) => x == y,
                (Obj::Reader(x, _), Obj::Resolver(y, _)) => x == y,
                (Obj::Reader(x, _), Obj::Rodeo(y)) => x == y,
                (Obj::Resolver(x, _), Obj::Resolver(y, _)) => x == y,
                (Obj::Resolver(x, _), Obj::Reader(y, _)) => x == y,
                (Obj::Resolver(x, _), Obj::Rodeo(y)) => x == y,
                (Obj::Threaded(x, _), Obj::Threaded(y, _)) => x == y,
                (Obj::Threaded(x, _), Obj::Rodeo(y)) => x == y,
                (Obj::Threaded(x, _), Obj::Reader(y, _)) => x == y,
                (Obj::Threaded(x, _), Obj::Resolver(y, _)) => x == y,
                _ => return None,
            })
        });
        let out = match res {
            Caught::Ok(Some(b)) => b.to_string(),
            Caught::Ok(None) => "unsupported".into(),
            Caught::Panic => "panic".into(),
            Caught::Fault(site) => {
                self.fail("C18", "fault-in-eq", format!("== faulted: {site}"));
                "fault".into()
            }
        };
        let (sa, sb) = (&self.slots[a].shadow, &self.slots[b].shadow);
        if sa.tracked && sb.tracked && (out == "true" || out == "false") {
            let want = sa.strs == sb.strs;
            if want.to_string() != out {
                let w = format!("{} == {} answered {out}; contents {}", ka, kb, if want { "are equal" } else { "differ" });
                self.fail("C18", "eq-wrong", w);
            }
        }
        out
    }

    fn ser(&mut self, si: usize) -> String {
        let _ = self.slot(si);
        let obj = &self.slots[si].obj;
        let res = guarded(|| match obj {
            Obj::Rodeo(r) => serde_json::to_string(r).ok(),
            Obj::Threaded(t, _) => serde_json::to_string(t).ok(),
            Obj::Reader(r, _) => serde_json::to_string(r).ok(),
            Obj::Resolver(r, _) => serde_json::to_string(r).ok(),
            Obj::Gone => None,
        });
        let is_threaded = matches!(obj, Obj::Threaded(..));
        let json = match res {
            Caught::Ok(Some(j)) => j,
            Caught::Ok(None) => return "bad-op".into(),
            _ => {
                self.fail("C14", "fault-in-serialize", "serialisation panicked".into());
                return "fault".into();
            }
        };
        let out;
        let mut listed: Option<Vec<Vec<u8>>> = None;
        if is_threaded {
            let m: Result<std::collections::BTreeMap<String, u128>, _> = serde_json::from_str(&json);
            match m {
                Ok(m) => {
                    let mut items: Vec<(String, u128)> = m.iter().map(|(k, v)| (hex(k.as_bytes()), *v)).collect();
                    items.sort();
                    let mut by_key: Vec<(u128, Vec<u8>)> = m.iter().map(|(k, v)| (*v, k.as_bytes().to_vec())).collect();
                    by_key.sort();
                    if by_key.iter().enumerate().all(|(i, (v, _))| *v == i as u128 + 1) {
                        listed = Some(by_key.into_iter().map(|(_, b)| b).collect());
                    } else {
                        listed = Some(vec![b"<keys not dense>".to_vec()]);
                    }
                    out = format!("map {}", show_list(&items.iter().map(|(h, v)| format!("{h}={v}")).collect::<Vec<_>>()));
                }
                Err(_) => out = "unparsable".into(),
            }
        } else {
            let l: Result<Vec<String>, _> = serde_json::from_str(&json);
            match l {
                Ok(l) => {
                    listed = Some(l.iter().map(|s| s.as_bytes().to_vec()).collect());
                    out = format!("list {}", show_list(&l.iter().map(|s| hex(s.as_bytes())).collect::<Vec<_>>()));
                }
                Err(_) => out = "unparsable".into(),
            }
        }
        let sh = &self.slots[si].shadow;
        if sh.tracked {
            if listed.as_ref() != Some(&sh.strs) {
                self.fail("C14", "serialized-content-wrong", format!("serialised form {out} does not list the {} key-string pairs of the object", sh.strs.len()));
            }
        }
        out
    }

    /// `internMany <slot> <prefix> <count>`: intern `prefix0`, `prefix1`, ... (implementation-only streams; the
    /// model driver does not know this op).  Stops at the first failure.  Oracles per call: a new string gets
    /// the next index (C10), a present one its old key (C02); a failure is a key-space error only when all keys
    /// are in use and a memory error only when the string does not fit under the limit (C07/C08).
    /// Answers `ok <interned> <stop>`.
    fn intern_many(&mut self, si: usize, prefix: &[u8], count: usize) -> String {
        if count > (1 << 22) {
            return "bad-op".into();
        }
        let limit = self.slot(si).shadow.limit.or(self.slot(si).obj.max_mem());
        let n_cap = K::CAP;
        let mut done = 0usize;
        let mut stop = "all".to_string();
        for i in 0..count {
            let mut x = prefix.to_vec();
            x.extend_from_slice(i.to_string().as_bytes());
            let present = self.slots[si].shadow.index.get(&x).copied();
            let before_len = self.slots[si].shadow.strs.len();
            let res = match &mut self.slots[si].obj {
                Obj::Rodeo(r) => guarded(|| r.try_get_or_intern(to_str(&x))),
                Obj::Threaded(t, _) => guarded(|| t.try_get_or_intern(to_str(&x))),
                _ => return "bad-op".into(),
            };
            match res {
                Caught::Ok(Ok(k)) => {
                    let k = k.into_usize();
                    match present {
                        Some(p) if p != k => self.fail("C02", "present-string-new-key", format!("interning a present string returned key {k}, its key is {p} (bulk intern, item {i})")),
                        Some(_) => {}
                        None => {
                            if k != before_len {
                                self.fail("C10", "key-not-dense", format!("new string got key {k}, expected the next index {before_len} (bulk intern, item {i})"));
                            }
                            if (before_len as u128) >= n_cap {
                                self.fail("C07", "more-than-capacity", format!("a string was admitted although {before_len} keys (the capacity) are in use (bulk intern)"));
                            }
                            self.slots[si].shadow.push(x, None);
                        }
                    }
                    done += 1;
                }
                Caught::Ok(Err(e)) => {
                    let kind = err_name(&e);
                    stop = kind.replace(' ', "_");
                    if present.is_some() {
                        self.fail("C02", "present-string-failed", format!("interning a present string failed ({kind}) (bulk intern, item {i})"));
                    }
                    let after_len = self.slots[si].obj.len();
                    if after_len != before_len {
                        self.fail("C07", "failed-intern-changed-len", format!("failed intern ({kind}) changed len {before_len}->{after_len} (bulk intern, item {i})"));
                    }
                    match kind {
                        "err keys" if (before_len as u128) < n_cap => self.fail("C07", "keyspace-error-early", format!("KeySpaceExhaustion with {before_len} of {n_cap} keys in use (bulk intern, item {i})")),
                        "err mem" => {
                            let held: usize = self.slots[si].obj.blocks().iter().map(|b| b.1).sum();
                            if let Some(mx) = limit {
                                if (held as u128) + (x.len() as u128) <= mx as u128 {
                                    self.fail("C08", "spurious-memory-error", format!("MemoryLimitReached although usage {held} + len {} <= limit {mx} (bulk intern, item {i}, {before_len} strings held)", x.len()));
                                    if (before_len as u128) < n_cap {
                                        self.fail("C07", "spurious-memory-error", format!("interning failed with MemoryLimitReached although neither limit is reached (usage {held} + len {} <= limit {mx}, {before_len} of {n_cap} keys) (bulk intern)", x.len()));
                                    }
                                }
                            }
                        }
                        _ => {}
                    }
                    break;
                }
                Caught::Panic => {
                    self.fail("C07", "fallible-panicked", format!("the fallible intern panicked (bulk intern, item {i})"));
                    stop = "panic".into();
                    break;
                }
                Caught::Fault(site) => {
                    self.fail("C04", "fault-in-intern", format!("intern of {} bytes faulted: {site} (bulk intern, item {i})", x.len()));
                    self.slot(si).obj = Obj::Gone;
                    return "fault".into();
                }
            }
        }
        format!("ok {done} {stop}")
    }

    /// `ctor <slot> <kind> <ctor> <capBuilder> <strings> <bytes> <limBuilder> <limit> <items>`: build through one
    /// of the constructors and the `Capacity` / `MemoryLimits` builders; answer `ok <usage> <limit> <trace>`
    /// where the trace interns `items` into a second object built the same way.  Oracle (C08): usage and
    /// limit are the documented ones and the trace equals that of the full constructor called with the
    /// documented configuration.
    #[allow(clippy::too_many_arguments)]
    fn ctor(&mut self, si: usize, kind: &str, ctor: &str, cap_b: &str, strings: usize, bytes: usize, lim_b: &str, limit: &str, items: &str) -> String {
        use lasso::{Capacity, MemoryLimits};
        let Some(nz) = std::num::NonZeroUsize::new(bytes) else { return "bad-op".into() };
        let limit = parse_limit(limit).unwrap_or(usize::MAX);
        let cap = || match cap_b {
            "new" => Some(Capacity::new(strings, nz)),
            "forStrings" => Some(Capacity::for_strings(strings)),
            "forBytes" => Some(Capacity::for_bytes(nz)),
            "minimal" => Some(Capacity::minimal()),
            "default" => Some(Capacity::default()),
            _ => None,
        };
        let lim = || match lim_b {
            "new" => Some(MemoryLimits::new(limit)),
            "forMemoryUsage" => Some(MemoryLimits::for_memory_usage(limit)),
            "default" => Some(MemoryLimits::default()),
            _ => None,
        };
        if cap().is_none() || lim().is_none() {
            return "bad-op".into();
        }
        let (cap, lim) = (move || cap().unwrap(), move || lim().unwrap());
        // the documented configuration (the harness's own table, not read from the library)
        let takes_cap = matches!(ctor, "withCapacity" | "withCapacityAndMemoryLimits" | "withCapacityAndHasher" | "full");
        let takes_lim = matches!(ctor, "withMemoryLimits" | "withCapacityAndMemoryLimits" | "full");
        let (doc_strings, doc_bytes) = if !takes_cap { (50, 4096) } else {
            match cap_b {
                "new" => (strings, bytes),
                "forStrings" => (strings, 4096),
                "forBytes" => (50, bytes),
                "minimal" => (0, 1),
                _ => (50, 4096),
            }
        };
        let doc_limit = if !takes_lim || lim_b == "default" { usize::MAX } else { limit };
        let items: Vec<Vec<u8>> = if items == "_" { Vec::new() } else { items.split(',').map(unhex).collect() };
        fn trace_r<K: Key, S: std::hash::BuildHasher>(mut r: Rodeo<K, S>, items: &[Vec<u8>]) -> (usize, usize, Vec<String>) {
            let (m0, x0) = (r.current_memory_usage(), r.max_memory_usage());
            let t = items.iter().map(|x| {
                let res = match r.try_get_or_intern(to_str(x)) { Ok(k) => format!("ok_{}", k.into_usize()), Err(e) => err_name(&e).replace(' ', "_") };
                format!("{res}:{}", r.current_memory_usage())
            }).collect();
            (m0, x0, t)
        }
        fn trace_t<K: Key + std::hash::Hash, S: std::hash::BuildHasher + Clone>(r: ThreadedRodeo<K, S>, items: &[Vec<u8>]) -> (usize, usize, Vec<String>) {
            let (m0, x0) = (r.current_memory_usage(), r.max_memory_usage());
            let t = items.iter().map(|x| {
                let res = match r.try_get_or_intern(to_str(x)) { Ok(k) => format!("ok_{}", k.into_usize()), Err(e) => err_name(&e).replace(' ', "_") };
                format!("{res}:{}", r.current_memory_usage())
            }).collect();
            (m0, x0, t)
        }
        let h = || VHasher::seeded(self.hasher, si as u64);
        let doc_cap = Capacity::new(doc_strings, std::num::NonZeroUsize::new(doc_bytes).unwrap());
        let doc_lim = MemoryLimits::for_memory_usage(doc_limit);
        let res = guarded(|| -> Option<((usize, usize, Vec<String>), (usize, usize, Vec<String>), Obj<K>)> {
            Some(match kind {
                "rodeo" => {
                    let got = match ctor {
                        "new" => trace_r(Rodeo::<K>::new(), &items),
                        "withCapacity" => trace_r(Rodeo::<K>::with_capacity(cap()), &items),
                        "withMemoryLimits" => trace_r(Rodeo::<K>::with_memory_limits(lim()), &items),
                        "withCapacityAndMemoryLimits" => trace_r(Rodeo::<K>::with_capacity_and_memory_limits(cap(), lim()), &items),
                        "withHasher" => trace_r(Rodeo::<K, VHasher>::with_hasher(h()), &items),
                        "withCapacityAndHasher" => trace_r(Rodeo::<K, VHasher>::with_capacity_and_hasher(cap(), h()), &items),
                        "full" => trace_r(Rodeo::<K, VHasher>::with_capacity_memory_limits_and_hasher(cap(), lim(), h()), &items),
                        _ => return None,
                    };
                    let want = trace_r(Rodeo::<K, VHasher>::with_capacity_memory_limits_and_hasher(doc_cap, doc_lim, h()), &items);
                    // the slot gets the object itself where the constructor takes a hasher, else the documented one
                    let o = match ctor {
                        "withHasher" => Rodeo::<K, VHasher>::with_hasher(h()),
                        "withCapacityAndHasher" => Rodeo::<K, VHasher>::with_capacity_and_hasher(cap(), h()),
                        "full" => Rodeo::<K, VHasher>::with_capacity_memory_limits_and_hasher(cap(), lim(), h()),
                        _ => Rodeo::<K, VHasher>::with_capacity_memory_limits_and_hasher(doc_cap, doc_lim, h()),
                    };
                    (got, want, Obj::Rodeo(o))
                }
                "threaded" => {
                    let got = match ctor {
                        "new" => trace_t(ThreadedRodeo::<K>::new(), &items),
                        "withCapacity" => trace_t(ThreadedRodeo::<K>::with_capacity(cap()), &items),
                        "withMemoryLimits" => trace_t(ThreadedRodeo::<K>::with_memory_limits(lim()), &items),
                        "withCapacityAndMemoryLimits" => trace_t(ThreadedRodeo::<K>::with_capacity_and_memory_limits(cap(), lim()), &items),
                        "withHasher" => trace_t(ThreadedRodeo::<K, VHasher>::with_hasher(h()), &items),
                        "withCapacityAndHasher" => trace_t(ThreadedRodeo::<K, VHasher>::with_capacity_and_hasher(cap(), h()), &items),
                        "full" => trace_t(ThreadedRodeo::<K, VHasher>::with_capacity_memory_limits_and_hasher(cap(), lim(), h()), &items),
                        _ => return None,
                    };
                    let want = trace_t(ThreadedRodeo::<K, VHasher>::with_capacity_memory_limits_and_hasher(doc_cap, doc_lim, h()), &items);
                    let o = match ctor {
                        "withHasher" => ThreadedRodeo::<K, VHasher>::with_hasher(h()),
                        "withCapacityAndHasher" => ThreadedRodeo::<K, VHasher>::with_capacity_and_hasher(cap(), h()),
                        "full" => ThreadedRodeo::<K, VHasher>::with_capacity_memory_limits_and_hasher(cap(), lim(), h()),
                        _ => ThreadedRodeo::<K, VHasher>::with_capacity_memory_limits_and_hasher(doc_cap, doc_lim, h()),
                    };
                    (got, want, Obj::Threaded(o, false))
                }
                _ => return None,
            })
        });
        match res {
            Caught::Ok(Some((got, want, o))) => {
                let call = format!("{kind} {ctor}(Capacity::{cap_b}({strings},{bytes}), MemoryLimits::{lim_b}({}))", show_limit(limit));
                if got.0 != doc_bytes {
                    self.fail("C08", "ctor-initial-usage", format!("{call}: initial usage {} but the first block has {doc_bytes} bytes", got.0));
                }
                if got.1 != doc_limit {
                    self.fail("C08", "ctor-limit", format!("{call}: limit {} in force, {} was asked for", show_limit(got.1), show_limit(doc_limit)));
                }
                if got.2 != want.2 {
                    self.fail("C08", "ctor-behaviour-differs", format!("{call}: interning gives {:?}, the full constructor with the documented configuration gives {:?}", got.2, want.2));
                }
                *self.slot(si) = Slot { obj: o, shadow: Shadow::new(), born: "" };
                format!("ok {} {}{}", got.0, show_limit(got.1), got.2.iter().map(|t| format!(" {t}")).collect::<String>())
            }
            Caught::Ok(None) => "bad-op".into(),
            Caught::Panic => {
                self.fail("C08", "ctor-panicked", format!("constructor {ctor} panicked"));
                "panic".into()
            }
            Caught::Fault(site) => {
                self.fail("C04", "fault-in-ctor", format!("constructor {ctor} faulted: {site}"));
                "fault".into()
            }
        }
    }

    /// `de <kind> <slot> <doc>`; `valid` documents come from `ser`-shaped content, everything else is
    /// the malformed stream (C15): the outcome must be an error or a self-consistent object.
    fn de(&mut self, kind: &str, si: usize, doc: &str) -> String {
        let _ = self.slot(si);
        let res: Caught<Result<Obj<K>, String>> = match kind {
            "rodeo" | "reader" | "resolver" => {
                let l = parse_list(doc);
                let json = json_list(&l);
                guarded(|| match kind {
                    "rodeo" => serde_json::from_str::<Rodeo<K, VHasher>>(&json).map(Obj::Rodeo).map_err(|e| e.to_string()),
                    "reader" => serde_json::from_str::<RodeoReader<K, VHasher>>(&json).map(|r| Obj::Reader(r, false)).map_err(|e| e.to_string()),
                    _ => serde_json::from_str::<RodeoResolver<K>>(&json).map(|r| Obj::Resolver(r, false)).map_err(|e| e.to_string()),
                })
            }
            "threaded" => {
                let entries: Vec<(Vec<u8>, u128)> = if doc == "_" {
                    Vec::new()
                } else {
                    doc.split(',').map(|e| {
                        let mut p = e.split('=');
                        (unhex(p.next().unwrap()), p.next().unwrap().parse().unwrap())
                    }).collect()
                };
                let json = json_map(&entries);
                guarded(|| serde_json::from_str::<ThreadedRodeo<K, VHasher>>(&json).map(|t| Obj::Threaded(t, true)).map_err(|e| e.to_string()))
            }
            _ => return "bad-op".into(),
        };
        match res {
            Caught::Ok(Ok(o)) => {
                // shadow: what the document says, when it is a well-formed one
                let shadow = match kind {
                    "threaded" => {
                        // a repeated string keeps its last value (linear: documents can have 600 000 entries)
                        let mut last: HashMap<Vec<u8>, u128> = HashMap::new();
                        if doc != "_" {
                            for e in doc.split(',') {
                                let mut p = e.split('=');
                                let s = unhex(p.next().unwrap());
                                let v: u128 = p.next().unwrap().parse().unwrap();
                                last.insert(s, v);
                            }
                        }
                        let mut pairs: Vec<(u128, Vec<u8>)> = last.into_iter().map(|(s, v)| (v, s)).collect();
                        pairs.sort();
                        Shadow::from_list(&pairs.into_iter().map(|(_, s)| s).collect::<Vec<_>>())
                    }
                    "resolver" => {
                        // a resolver may hold repeated strings; the shadow's index is then meaningless
                        // but it has no string->key lookups
                        let l = parse_list(doc);
                        let mut s = Shadow::new();
                        for x in &l {
                            s.strs.push(x.clone());
                            s.stat.push(None);
                        }
                        s
                    }
                    _ => Shadow::from_list(&parse_list(doc)),
                };
                let mut shadow = shadow;
                // nobody handed this object a limit: "a deserialised interner keeps working as an interner"
                shadow.limit = Some(usize::MAX);
                self.slots[si] = Slot { obj: o, shadow, born: "C15" };
                self.consistency(si);
                "ok".into()
            }
            Caught::Ok(Err(_)) => "err serde".into(),
            Caught::Panic => {
                self.fail("C15", "deserialize-panicked", format!("deserialising a {kind} document panicked"));
                "panic".into()
            }
            Caught::Fault(site) => {
                self.fail("C15", "deserialize-panicked", format!("deserialising a {kind} document panicked: {site}"));
                "panic".into()
            }
        }
    }

    /// C15 self-consistency of whatever object a deserialiser produced (no shadow needed).
    fn consistency(&mut self, si: usize) {
        let obj = &self.slots[si].obj;
        let res = guarded(|| {
            let mut bad: Vec<String> = Vec::new();
            let pairs = obj.pairs();
            if pairs.len() != obj.len() {
                bad.push(format!("iteration yields {} pairs, len is {}", pairs.len(), obj.len()));
            }
            if let Obj::Threaded(t, _) = obj {
                // every string the interner serialises is found, under the key it is serialised with,
                // and that key resolves back to it
                if let Ok(j) = serde_json::to_string(t) {
                    if let Ok(m) = serde_json::from_str::<std::collections::BTreeMap<String, K>>(&j) {
                        for (s, k) in &m {
                            if t.get(s) != Some(*k) {
                                bad.push(format!("string {} serialises with key {} but get gives {:?}", hex(s.as_bytes()), k.into_usize(), t.get(s).map(|k| k.into_usize())));
                            }
                            if t.try_resolve(k) != Some(s.as_str()) {
                                bad.push(format!("string {} has key {} which resolves to {:?}", hex(s.as_bytes()), k.into_usize(), t.try_resolve(k).map(|x| hex(x.as_bytes()))));
                            }
                        }
                        if m.len() != t.len() {
                            bad.push(format!("{} strings but len {}", m.len(), t.len()));
                        }
                    }
                }
            }
            let mut seen = std::collections::HashSet::new();
            for (k, s) in &pairs {
                if !seen.insert(*k) {
                    bad.push(format!("key {k} reported twice"));
                }
                match key::<K>(*k).and_then(|kk| obj.try_resolve(&kk).map(|x| x.to_string())) {
                    Some(x) if x == *s => {}
                    other => bad.push(format!("key {k} iterates as {} but resolves to {:?}", hex(s.as_bytes()), other)),
                }
                if let Some(g) = obj.get(s) {
                    match g {
                        Some(kk) if obj.try_resolve(&kk) == Some(*s) => {}
                        other => bad.push(format!("string {} is contained but get gives {:?}", hex(s.as_bytes()), other.map(|k| k.into_usize()))),
                    }
                }
            }
            bad
        });
        match res {
            Caught::Ok(bad) => {
                for b in bad.into_iter().take(3) {
                    self.fail("C15", "deserialized-object-inconsistent", b);
                }
            }
            _ => self.fail("C15", "deserialized-object-faults", "a safe call on a deserialised object panicked".into()),
        }
    }

    /// `roundtrip a b`: serialise `a` with serde_json, deserialise as the same container type into `b`.
    fn roundtrip(&mut self, a: usize, b: usize) -> String {
        let _ = self.slot(a.max(b));
        let obj = &self.slots[a].obj;
        let res: Caught<Option<Result<Obj<K>, String>>> = guarded(|| {
            Some(match obj {
                Obj::Rodeo(r) => serde_json::to_string(r).map_err(|e| e.to_string()).and_then(|j| serde_json::from_str::<Rodeo<K, VHasher>>(&j).map(Obj::Rodeo).map_err(|e| e.to_string())),
                Obj::Threaded(t, _) => serde_json::to_string(t).map_err(|e| e.to_string()).and_then(|j| serde_json::from_str::<ThreadedRodeo<K, VHasher>>(&j).map(|t| Obj::Threaded(t, true)).map_err(|e| e.to_string())),
                Obj::Reader(r, _) => serde_json::to_string(r).map_err(|e| e.to_string()).and_then(|j| serde_json::from_str::<RodeoReader<K, VHasher>>(&j).map(|r| Obj::Reader(r, false)).map_err(|e| e.to_string())),
                Obj::Resolver(r, _) => serde_json::to_string(r).map_err(|e| e.to_string()).and_then(|j| serde_json::from_str::<RodeoResolver<K>>(&j).map(|r| Obj::Resolver(r, false)).map_err(|e| e.to_string())),
                Obj::Gone => return None,
            })
        });
        match res {
            Caught::Ok(Some(Ok(o))) => {
                let mut sh = self.slots[a].shadow.clone();
                // nobody handed the copy a limit: "a deserialised interner keeps working as an interner"
                sh.limit = Some(usize::MAX);
                for s in sh.stat.iter_mut() {
                    *s = None;
                }
                self.slots[b] = Slot { obj: o, shadow: sh, born: "C14" };
                "ok".into()
            }
            Caught::Ok(Some(Err(e))) => {
                if self.slots[a].shadow.tracked {
                    self.fail("C14", "roundtrip-failed", format!("deserialising the serialised {} failed: {e}", self.slots[a].obj.kind()));
                }
                "err serde".into()
            }
            Caught::Ok(None) => "bad-op".into(),
            Caught::Panic | Caught::Fault(_) => {
                self.fail("C14", "roundtrip-panicked", "serialise/deserialise round trip panicked".into());
                "panic".into()
            }
        }
    }

    fn from_iter_op(&mut self, si: usize, kind: &str, items: &str, hint: &str) -> String {
        let _ = self.slot(si);
        let l = parse_list(items);
        let strs: Vec<String> = l.iter().map(|b| to_str(b).to_string()).collect();
        struct Hinted<I>(I, (usize, Option<usize>));
        impl<I: Iterator> Iterator for Hinted<I> {
            type Item = I::Item;
            fn next(&mut self) -> Option<I::Item> {
                self.0.next()
            }
            fn size_hint(&self) -> (usize, Option<usize>) {
                self.1
            }
        }
        let h = match hint {
            "exact" => (strs.len(), Some(strs.len())),
            "none" => (0, None),
            "low" => (0, Some(strs.len() * 2 + 3)),
            _ => (strs.len() / 2, None),
        };
        // the item type varies with the content of the list (no extra token in the op): borrowed `&String` /
        // `&str`, owned strings that are all alive, and owned `String`s / `Box<str>`s created lazily and
        // dropped one by one (the allocator then hands the next item the same address)
        let variant = item_variant(&l);
        let res = guarded(|| match (kind, variant) {
            ("rodeo", 0) => Some(Obj::Rodeo(Hinted(strs.iter(), h).collect::<Rodeo<K, VHasher>>())),
            ("rodeo", 1) => Some(Obj::Rodeo(Hinted(l.iter().map(|b| to_str(b).to_string()), h).collect::<Rodeo<K, VHasher>>())),
            ("rodeo", 2) => Some(Obj::Rodeo(Hinted(strs.iter().map(|s| s.as_str()), h).collect::<Rodeo<K, VHasher>>())),
            ("rodeo", 3) => Some(Obj::Rodeo(Hinted(strs.clone().into_iter(), h).collect::<Rodeo<K, VHasher>>())),
            ("rodeo", _) => Some(Obj::Rodeo(Hinted(l.iter().map(|b| to_str(b).to_string().into_boxed_str()), h).collect::<Rodeo<K, VHasher>>())),
            ("threaded", 0) => Some(Obj::Threaded(Hinted(strs.iter(), h).collect::<ThreadedRodeo<K, VHasher>>(), false)),
            ("threaded", 1) => Some(Obj::Threaded(Hinted(l.iter().map(|b| to_str(b).to_string()), h).collect::<ThreadedRodeo<K, VHasher>>(), false)),
            ("threaded", 2) => Some(Obj::Threaded(Hinted(strs.iter().map(|s| s.as_str()), h).collect::<ThreadedRodeo<K, VHasher>>(), false)),
            ("threaded", 3) => Some(Obj::Threaded(Hinted(strs.clone().into_iter(), h).collect::<ThreadedRodeo<K, VHasher>>(), false)),
            ("threaded", _) => Some(Obj::Threaded(Hinted(l.iter().map(|b| to_str(b).to_string().into_boxed_str()), h).collect::<ThreadedRodeo<K, VHasher>>(), false)),
            _ => None,
        });
        match res {
            Caught::Ok(Some(o)) => {
                let mut sh = Shadow::new();
                for x in &l {
                    if !sh.index.contains_key(x) {
                        sh.push(x.clone(), None);
                    }
                }
                let got: Vec<Vec<u8>> = o.pairs().iter().map(|(_, s)| s.as_bytes().to_vec()).collect();
                if got != sh.strs {
                    self.fail("C17", "from-iter-differs", format!("from_iter over {} items gives {} strings, the explicit intern sequence gives {}", l.len(), got.len(), sh.strs.len()));
                }
                self.slots[si] = Slot { obj: o, shadow: sh, born: "" };
                "ok".into()
            }
            Caught::Ok(None) => "bad-op".into(),
            Caught::Panic => "panic".into(),
            Caught::Fault(site) => {
                self.fail("C04", "fault-in-from-iter", site);
                "fault".into()
            }
        }
    }

    fn extend_op(&mut self, si: usize, items: &str) -> String {
        let _ = self.slot(si);
        let l = parse_list(items);
        let strs: Vec<String> = l.iter().map(|b| to_str(b).to_string()).collect();
        let variant = item_variant(&l);
        let res = guarded(|| match &mut self.slots[si].obj {
            Obj::Rodeo(r) => {
                match variant {
                    0 => r.extend(strs.iter()),
                    1 => r.extend(l.iter().map(|b| to_str(b).to_string())),
                    2 => r.extend(strs.iter().map(|s| s.as_str())),
                    3 => r.extend(strs.clone()),
                    _ => r.extend(l.iter().map(|b| to_str(b).to_string().into_boxed_str())),
                }
                true
            }
            Obj::Threaded(t, _) => {
                match variant {
                    0 => t.extend(strs.iter()),
                    1 => t.extend(l.iter().map(|b| to_str(b).to_string())),
                    2 => t.extend(strs.iter().map(|s| s.as_str())),
                    3 => t.extend(strs.clone()),
                    _ => t.extend(l.iter().map(|b| to_str(b).to_string().into_boxed_str())),
                }
                true
            }
            _ => false,
        });
        match res {
            Caught::Ok(true) => {
                for x in &l {
                    if !self.slots[si].shadow.index.contains_key(x) {
                        self.slots[si].shadow.push(x.clone(), None);
                    }
                }
                "ok".into()
            }
            Caught::Ok(false) => "bad-op".into(),
            Caught::Panic => {
                // the shadow follows the items that went in before the panic
                let n = self.slots[si].obj.len();
                for x in &l {
                    if self.slots[si].shadow.strs.len() < n && !self.slots[si].shadow.index.contains_key(x) {
                        self.slots[si].shadow.push(x.clone(), None);
                    }
                }
                "panic".into()
            }
            Caught::Fault(site) => {
                self.fail("C04", "fault-in-extend", site);
                self.slots[si].obj = Obj::Gone;
                "fault".into()
            }
        }
    }

    fn audit(&mut self, si: usize) -> String {
        let _ = self.slot(si);
        let o = &self.slots[si].obj;
        let bl: Vec<String> = o.blocks().iter().map(|(_, c, u)| format!("{c}:{u}")).collect();
        let ss: Vec<String> = o
            .pairs()
            .iter()
            .map(|(_, s)| {
                let p = self.prov(o, s);
                if p.starts_with('A') {
                    format!("{p}:{}", s.len())
                } else {
                    p
                }
            })
            .collect();
        let mem: usize = o.blocks().iter().map(|(_, c, _)| *c).sum();
        let mem = o.mem().unwrap_or(mem);
        format!("blocks {} strs {} mem {mem}", show_list(&bl), show_list(&ss))
    }

    /// Execute one protocol line.
    pub fn step(&mut self, line: &str) -> String {
        self.line_no += 1;
        self.stats.ops += 1;
        let toks: Vec<&str> = line.split_whitespace().collect();
        let (via, toks): (Option<&str>, &[&str]) = if toks.first() == Some(&"via") && toks.len() >= 3 { (Some(toks[1]), &toks[2..]) } else { (None, &toks[..]) };
        let opname = toks.first().copied().unwrap_or("");
        *self.stats.by_op.entry(if via.is_some() { format!("via:{opname}") } else { opname.to_string() }).or_insert(0) += 1;
        let p = |i: usize| -> usize { toks.get(i).and_then(|s| s.parse().ok()).unwrap_or(usize::MAX) };
        // every operation on a slot that holds nothing is a bad-op (the model does the same)
        let subjects: &[usize] = match opname {
            "new" | "ctor" | "de" | "fromIter" | "drop" => &[],
            "cloneFrom" | "tryCloneFrom" | "eq" => &[1, 2],
            _ => &[1],
        };
        for &i in subjects {
            let si = p(i);
            if si == usize::MAX || matches!(self.slot(si).obj, Obj::Gone) {
                *self.stats.by_result.entry("bad-op".into()).or_insert(0) += 1;
                return "bad-op".into();
            }
        }
        self.cur_born = match subjects.first() {
            Some(&i) => self.slots.get(p(i)).map(|s| s.born).unwrap_or(""),
            None => "",
        };
        let out = match (opname, toks.len()) {
            ("new", 6) => {
                let si = p(1);
                let (strings, bytes) = (p(3), p(4));
                let limit = parse_limit(toks[5]).unwrap_or(usize::MAX);
                let cap = lasso::Capacity::new(strings, std::num::NonZeroUsize::new(bytes).unwrap());
                let lim = lasso::MemoryLimits::for_memory_usage(limit);
                // every object gets its own hasher state (slot number); clones inherit their source's
                let h = VHasher::seeded(self.hasher, si as u64);
                let o = match toks[2] {
                    "rodeo" => Obj::Rodeo(Rodeo::with_capacity_memory_limits_and_hasher(cap, lim, h)),
                    "threaded" => Obj::Threaded(ThreadedRodeo::with_capacity_memory_limits_and_hasher(cap, lim, h), false),
                    _ => return "bad-op".into(),
                };
                *self.slot(si) = Slot { obj: o, shadow: Shadow::new(), born: "" };
                "ok".into()
            }
            ("internMany", 4) => self.intern_many(p(1), &unhex(toks[2]), p(3)),
            ("ctor", 10) => self.ctor(p(1), toks[2], toks[3], toks[4], p(5), p(6), toks[7], toks[8], toks[9]),
            ("intern", 3) => self.intern(p(1), &unhex(toks[2]), None, false, via),
            // a long string given compactly: the prefix, padded with 'a' to the length (implementation-only
            // streams; the model driver does not know this op)
            ("internRep", 4) => {
                let mut x = unhex(toks[2]);
                let n = p(3);
                if n < x.len() || n > (1 << 28) {
                    return "bad-op".into();
                }
                x.resize(n, b'a');
                self.intern(p(1), &x, None, false, via)
            }
            // lookup of a long string given compactly (see `internRep`)
            ("getRep", 4) => {
                let mut x = unhex(toks[2]);
                let n = p(3);
                if n < x.len() || n > (1 << 28) {
                    return "bad-op".into();
                }
                x.resize(n, b'a');
                self.query(p(1), "get", &hex(&x), via)
            }
            ("internP", 3) => self.intern(p(1), &unhex(toks[2]), None, true, via),
            ("internS", 3) | ("internSP", 3) => {
                let pi = p(2);
                if pi >= self.pool.len() {
                    "bad-op".into()
                } else {
                    let b = self.pool[pi].as_bytes().to_vec();
                    self.intern(p(1), &b, Some(pi), opname == "internSP", via)
                }
            }
            ("get" | "contains" | "resolve" | "index" | "tryResolve" | "resolveU" | "containsKey", 3) => self.query(p(1), opname, toks[2], via),
            ("len" | "isEmpty", 2) => self.query(p(1), opname, "", via),
            ("mem", 2) => self.slot(p(1)).obj.mem().map(|m| m.to_string()).unwrap_or_else(|| {
                let s: usize = self.slots[p(1)].obj.blocks().iter().map(|b| b.1).sum();
                s.to_string()
            }),
            ("max", 2) => self.slot(p(1)).obj.max_mem().map(show_limit).unwrap_or_else(|| "0".into()),
            ("setLimit", 3) => {
                let lim = parse_limit(toks[2]).unwrap_or(usize::MAX);
                let l = lasso::MemoryLimits::for_memory_usage(lim);
                let done = match &mut self.slot(p(1)).obj {
                    Obj::Rodeo(r) => {
                        r.set_memory_limits(l);
                        true
                    }
                    Obj::Threaded(t, _) => {
                        t.set_memory_limits(l);
                        true
                    }
                    _ => false,
                };
                if done {
                    self.slot(p(1)).shadow.limit = Some(lim);
                    "ok".into()
                } else {
                    "bad-op".into()
                }
            }
            ("clear", 2) => {
                let si = p(1);
                let before = self.slot(si).obj.mem();
                match &mut self.slots[si].obj {
                    Obj::Rodeo(r) => {
                        r.clear();
                        self.slots[si].shadow.clear();
                        if self.slots[si].born.is_empty() {
                            self.slots[si].born = "C13";
                        }
                        // (whether clear keeps or releases blocks is not part of any property: the
                        // model comparison reports a change of behaviour, the oracle does not)
                        let _ = before;
                        // ... but "empties the interner completely": no block it keeps may still count bytes as
                        // used (they would be lost to every later string, cycle after cycle)
                        let left: Vec<(usize, usize)> = self.slots[si].obj.blocks().iter().filter(|b| b.2 != 0).map(|b| (b.1, b.2)).collect();
                        if !left.is_empty() {
                            self.fail("C13", "clear-left-bytes-in-use", format!("after clear() {} block(s) still count bytes as used (capacity, used): {:?}", left.len(), &left[..left.len().min(4)]));
                        }
                        "ok".into()
                    }
                    _ => "bad-op".into(),
                }
            }
            ("drop", 2) => {
                *self.slot(p(1)) = Slot { obj: Obj::Gone, shadow: Shadow::new(), born: "" };
                "ok".into()
            }
            ("clone" | "tryClone" | "cloneFrom" | "tryCloneFrom", 3) => self.do_clone(opname, p(1), p(2)),
            ("eq", 3) => self.eq_op(p(1), p(2)),
            ("intoReader" | "intoResolver", 2) => self.convert(p(1), opname, via),
            ("iter", 2) => self.iter_all(p(1), true),
            ("strings", 2) => self.iter_all(p(1), false),
            ("iterScript", 4) => self.iter_script(p(1), toks[2], toks[3]),
            ("ser", 2) => self.ser(p(1)),
            ("de", 4) => self.de(toks[1], p(2), toks[3]),
            ("roundtrip", 3) => self.roundtrip(p(1), p(2)),
            ("fromIter", 5) => self.from_iter_op(p(1), toks[2], toks[3], toks[4]),
            ("extend", 3) => self.extend_op(p(1), toks[2]),
            ("audit", 2) => self.audit(p(1)),
            _ => "bad-op".into(),
        };
        let first = out.split(' ').next().unwrap_or("");
        let class = if matches!(first, "ok" | "err" | "panic" | "fault" | "some" | "none" | "str" | "true" | "false" | "bad-op" | "no-route" | "skipped" | "blocks" | "list" | "map" | "unsupported") {
            if first == "err" { out.clone() } else { first.to_string() }
        } else {
            "value".to_string()
        };
        *self.stats.by_result.entry(class).or_insert(0) += 1;
        if out == "fault" {
            self.stats.faults += 1;
        }
        // sweep every live object after every mutating op (small cases) or periodically (large ones)
        let mutating = !matches!(opname, "get" | "contains" | "resolve" | "index" | "tryResolve" | "resolveU" | "containsKey" | "len" | "isEmpty" | "mem" | "max" | "iter" | "strings" | "iterScript" | "ser" | "audit" | "eq");
        let total: usize = self.slots.iter().map(|s| s.shadow.strs.len()).sum();
        self.stats.max_len = self.stats.max_len.max(total);
        self.ops_since_sweep += 1;
        // (very long strings: a sweep compares every byte, so sweep every 8th op only)
        let heavy = opname == "internRep";
        if mutating && ((total <= 64 && !heavy) || self.ops_since_sweep >= if heavy { 8 } else { 64 }) {
            self.ops_since_sweep = 0;
            self.sweep();
        }
        out
    }
}

/// Which item type an `extend` / `from_iter` op feeds, derived from the list itself.
fn item_variant(l: &[Vec<u8>]) -> usize {
    (l.len() + l.iter().map(|x| x.len()).sum::<usize>()) % 5
}
