//! Executor for sequential histories: runs protocol lines against the real lasso, keeps a shadow
//! specification per object and evaluates the property oracles on the implementation's own answers.

use crate::{hex, unhex, HashKind, VHasher, DEFAULT_HASH_KIND};
use lasso::{
    Interner, IntoReader, IntoResolver, Key, Reader, Resolver, Rodeo, RodeoReader, RodeoResolver, ThreadedRodeo,
};
use std::cell::RefCell;
use std::collections::HashMap;
use std::fmt::Debug;
use std::hash::Hash;
use std::panic::{catch_unwind, AssertUnwindSafe};
use std::sync::atomic::Ordering;

pub trait KeyT:
    Key + Hash + Eq + Debug + serde::Serialize + serde::de::DeserializeOwned + Send + Sync + 'static
{
    const CAP: u128;
}
impl KeyT for lasso::Spur {
    const CAP: u128 = u32::MAX as u128;
}
impl KeyT for lasso::MiniSpur {
    const CAP: u128 = u16::MAX as u128;
}
impl KeyT for lasso::MicroSpur {
    const CAP: u128 = u8::MAX as u128;
}
impl KeyT for lasso::LargeSpur {
    const CAP: u128 = u64::MAX as u128;
}
impl<const N: usize> KeyT for crate::SmallKey<N> {
    const CAP: u128 = N as u128;
}

thread_local! {
    static LAST_PANIC: RefCell<(String, String)> = RefCell::new((String::new(), String::new()));
}

/// Crash journal: answers ("A …") and oracle lines ("O …") of the case in flight are appended to
/// `<prefix>.journal` as they are produced, so that a process abort does not lose them.
pub static JOURNAL: std::sync::Mutex<Option<std::fs::File>> = std::sync::Mutex::new(None);

pub fn journal(kind: char, text: &str) {
    if let Ok(mut g) = JOURNAL.lock() {
        if let Some(f) = g.as_mut() {
            use std::io::Write;
            let _ = writeln!(f, "{kind} {text}");
        }
    }
}

pub fn clear_last_panic() {
    LAST_PANIC.with(|p| *p.borrow_mut() = (String::new(), String::new()));
}

pub fn install_panic_hook() {
    std::panic::set_hook(Box::new(|info| {
        let msg = if let Some(s) = info.payload().downcast_ref::<&str>() {
            s.to_string()
        } else if let Some(s) = info.payload().downcast_ref::<String>() {
            s.clone()
        } else {
            "?".to_string()
        };
        let loc = info.location().map(|l| format!("{}:{}", l.file(), l.line())).unwrap_or_default();
        LAST_PANIC.with(|p| *p.borrow_mut() = (msg, loc));
    }));
}

/// Documented panics of the API (everything else that unwinds is a `fault`).
fn documented_panic(msg: &str) -> bool {
    msg.starts_with("Failed to get or intern string")
        || msg.starts_with("Failed to get or intern static string")
        || msg.starts_with("Key out of bounds")
        // the bounds assertion of the checked `resolve` (whatever the vector field is called)
        || (msg.starts_with("assertion failed: key.into_usize() < self.") && msg.trim_end().ends_with(".len()"))
        || msg.starts_with("failed to clone Rodeo")
}

pub enum Caught<T> {
    Ok(T),
    Panic,
    Fault(String),
}

pub fn guarded<T>(f: impl FnOnce() -> T) -> Caught<T> {
    match catch_unwind(AssertUnwindSafe(f)) {
        Ok(v) => Caught::Ok(v),
        Err(_) => {
            let (msg, loc) = LAST_PANIC.with(|p| p.borrow().clone());
            if documented_panic(&msg) {
                Caught::Panic
            } else {
                Caught::Fault(format!("{msg} @ {loc}"))
            }
        }
    }
}

pub enum Obj<K: KeyT> {
    Rodeo(Rodeo<K, VHasher>),
    Threaded(ThreadedRodeo<K, VHasher>, bool),
    Reader(RodeoReader<K, VHasher>, bool),
    Resolver(RodeoResolver<K>, bool),
    Gone,
}

impl<K: KeyT> Obj<K> {
    pub fn kind(&self) -> &'static str {
        match self {
            Obj::Rodeo(_) => "rodeo",
            Obj::Threaded(..) => "threaded",
            Obj::Reader(..) => "reader",
            Obj::Resolver(..) => "resolver",
            Obj::Gone => "gone",
        }
    }
    pub fn blocks(&self) -> Vec<(usize, usize, usize)> {
        match self {
            Obj::Rodeo(r) => r.verif_blocks(),
            Obj::Threaded(t, _) => t.verif_blocks(),
            Obj::Reader(r, _) => r.verif_blocks(),
            Obj::Resolver(r, _) => r.verif_blocks(),
            Obj::Gone => Vec::new(),
        }
    }
    pub fn unordered(&self) -> bool {
        match self {
            Obj::Threaded(_, u) | Obj::Reader(_, u) | Obj::Resolver(_, u) => *u,
            _ => false,
        }
    }
    pub fn len(&self) -> usize {
        match self {
            Obj::Rodeo(r) => r.len(),
            Obj::Threaded(t, _) => t.len(),
            Obj::Reader(r, _) => r.len(),
            Obj::Resolver(r, _) => r.len(),
            Obj::Gone => 0,
        }
    }
    pub fn try_resolve(&self, k: &K) -> Option<&str> {
        match self {
            Obj::Rodeo(r) => r.try_resolve(k),
            Obj::Threaded(t, _) => t.try_resolve(k),
            Obj::Reader(r, _) => r.try_resolve(k),
            Obj::Resolver(r, _) => r.try_resolve(k),
            Obj::Gone => None,
        }
    }
    pub fn contains_key(&self, k: &K) -> bool {
        match self {
            Obj::Rodeo(r) => r.contains_key(k),
            Obj::Threaded(t, _) => t.contains_key(k),
            Obj::Reader(r, _) => r.contains_key(k),
            Obj::Resolver(r, _) => r.contains_key(k),
            Obj::Gone => false,
        }
    }
    pub fn get(&self, s: &str) -> Option<Option<K>> {
        match self {
            Obj::Rodeo(r) => Some(r.get(s)),
            Obj::Threaded(t, _) => Some(t.get(s)),
            Obj::Reader(r, _) => Some(r.get(s)),
            _ => None,
        }
    }
    /// `(key index, string)` pairs in key order.
    pub fn pairs(&self) -> Vec<(usize, &str)> {
        match self {
            Obj::Rodeo(r) => r.iter().map(|(k, s)| (k.into_usize(), s)).collect(),
            Obj::Threaded(t, _) => {
                let mut v: Vec<(usize, &str)> = t.iter().map(|(k, s)| (k.into_usize(), s)).collect();
                v.sort_by_key(|x| x.0);
                v
            }
            Obj::Reader(r, _) => r.iter().map(|(k, s)| (k.into_usize(), s)).collect(),
            Obj::Resolver(r, _) => r.iter().map(|(k, s)| (k.into_usize(), s)).collect(),
            Obj::Gone => Vec::new(),
        }
    }
    pub fn mem(&self) -> Option<usize> {
        match self {
            Obj::Rodeo(r) => Some(r.current_memory_usage()),
            Obj::Threaded(t, _) => Some(t.current_memory_usage()),
            _ => None,
        }
    }
    pub fn max_mem(&self) -> Option<usize> {
        match self {
            Obj::Rodeo(r) => Some(r.max_memory_usage()),
            Obj::Threaded(t, _) => Some(t.max_memory_usage()),
            _ => None,
        }
    }
}

/// What the harness itself knows each object must contain: distinct strings in first-intern order,
/// and for each whether it was handed in as a pool (`'static`) string.
#[derive(Clone, Default)]
pub struct Shadow {
    pub strs: Vec<Vec<u8>>,
    pub stat: Vec<Option<usize>>,
    pub index: HashMap<Vec<u8>, usize>,
    /// false when the content is not predictable by the harness (e.g. after a malformed document)
    pub tracked: bool,
    /// the limit last handed to `set_memory_limits` on this very object (the harness's own record:
    /// the oracle must not ask the implementation which limit is in force)
    pub limit: Option<usize>,
}

impl Shadow {
    pub fn new() -> Self {
        Shadow { tracked: true, ..Default::default() }
    }
    pub fn from_list(l: &[Vec<u8>]) -> Self {
        let mut s = Shadow::new();
        for x in l {
            s.push(x.clone(), None);
        }
        s
    }
    pub fn push(&mut self, x: Vec<u8>, st: Option<usize>) -> usize {
        let k = self.strs.len();
        self.index.insert(x.clone(), k);
        self.strs.push(x);
        self.stat.push(st);
        k
    }
    pub fn clear(&mut self) {
        self.strs.clear();
        self.stat.clear();
        self.index.clear();
    }
}

pub struct Slot<K: KeyT> {
    pub obj: Obj<K>,
    pub shadow: Shadow,
    /// "" | "C14" (born from a serialise/deserialise round trip) | "C15" (born from a document) |
    /// "C12" (a clone or the target of clone_from) | "C06" (converted into a view) | "C13" (cleared):
    /// a failure of any oracle on such an object is also a failure of that property
    /// ("a deserialised interner keeps working", "every safe call is well-defined").
    pub born: &'static str,
}

#[derive(Default)]
pub struct Stats {
    pub ops: u64,
    pub cases: u64,
    pub by_op: HashMap<String, u64>,
    pub by_result: HashMap<String, u64>,
    pub branches: HashMap<String, u64>,
    pub oracle_checks: u64,
    pub sweeps: u64,
    pub max_len: usize,
    pub faults: u64,
}

pub struct World<K: KeyT> {
    pub pool: Vec<&'static str>,
    pub hasher: HashKind,
    pub slots: Vec<Slot<K>>,
    pub oracle: Vec<String>,
    pub stats: Stats,
    pub case_no: u64,
    pub case_header: String,
    pub line_no: u64,
    pub ops_since_sweep: u64,
    pub cur_born: &'static str,
}

fn key<K: KeyT>(i: usize) -> Option<K> {
    K::try_from_usize(i)
}

fn show_limit(n: usize) -> String {
    if n == usize::MAX {
        "max".into()
    } else {
        n.to_string()
    }
}

fn parse_limit(s: &str) -> Option<usize> {
    if s == "max" {
        Some(usize::MAX)
    } else {
        s.parse().ok()
    }
}

fn show_list(items: &[String]) -> String {
    if items.is_empty() {
        "_".into()
    } else {
        items.join(",")
    }
}

fn parse_list(s: &str) -> Vec<Vec<u8>> {
    if s == "_" {
        Vec::new()
    } else {
        s.split(',').map(unhex).collect()
    }
}

fn to_str(b: &[u8]) -> &str {
    std::str::from_utf8(b).expect("harness strings are valid UTF-8")
}

fn err_name(e: &lasso::LassoError) -> &'static str {
    match e.kind() {
        lasso::LassoErrorKind::MemoryLimitReached => "err mem",
        lasso::LassoErrorKind::KeySpaceExhaustion => "err keys",
        lasso::LassoErrorKind::FailedAllocation => "err alloc",
    }
}

include!("seqrun_ops.rs");
include!("seqrun_ops2.rs");
include!("seqrun_ops3.rs");
include!("seqrun_ops4.rs");
