pub fn placeholder() {}
