// included into seqrun.rs: wrapper routes

type IRes<K> = Caught<Result<K, lasso::LassoError>>;

fn call_interner<K: KeyT, I: Interner<K> + ?Sized>(i: &mut I, s: &'static str, stat: bool, infallible: bool) -> IRes<K> {
    guarded(|| match (stat, infallible) {
        (false, false) => i.try_get_or_intern(s),
        (false, true) => Ok(i.get_or_intern(s)),
        (true, false) => i.try_get_or_intern_static(s),
        (true, true) => Ok(i.get_or_intern_static(s)),
    })
}

/// Run `f` on the interner boxed as `Box<T>`, then put it back (also when `f` unwinds).
fn with_boxed<T, R>(slot: &mut T, f: impl FnOnce(&mut Box<T>) -> R) -> R
where
    T: Default2,
{
    let v = std::mem::replace(slot, T::placeholder());
    let mut b = Box::new(v);
    let r = catch_unwind(AssertUnwindSafe(|| f(&mut b)));
    drop(std::mem::replace(slot, *b));
    match r {
        Ok(r) => r,
        Err(e) => std::panic::resume_unwind(e),
    }
}

/// Cheap placeholder values to move interners in and out of boxes.
pub trait Default2 {
    fn placeholder() -> Self;
}
impl<K: KeyT> Default2 for Rodeo<K, VHasher> {
    fn placeholder() -> Self {
        Rodeo::with_capacity_and_hasher(lasso::Capacity::minimal(), VHasher::default())
    }
}
impl<K: KeyT> Default2 for ThreadedRodeo<K, VHasher> {
    fn placeholder() -> Self {
        ThreadedRodeo::with_capacity_and_hasher(lasso::Capacity::minimal(), VHasher::default())
    }
}

pub fn via_intern<K: KeyT>(obj: &mut Obj<K>, route: &str, s: &'static str, stat: bool, inf: bool) -> Option<IRes<K>> {
    Some(match (obj, route) {
        (Obj::Rodeo(r), "Rodeo") => call_interner::<K, Rodeo<K, VHasher>>(r, s, stat, inf),
        (Obj::Rodeo(r), "mut+Rodeo") => {
            let mut m: &mut Rodeo<K, VHasher> = r;
            call_interner::<K, &mut Rodeo<K, VHasher>>(&mut m, s, stat, inf)
        }
        (Obj::Rodeo(r), "mut+mut+Rodeo") => {
            let mut m: &mut Rodeo<K, VHasher> = r;
            let mut mm: &mut &mut Rodeo<K, VHasher> = &mut m;
            call_interner::<K, &mut &mut Rodeo<K, VHasher>>(&mut mm, s, stat, inf)
        }
        (Obj::Rodeo(r), "box+Rodeo") => with_boxed(r, |b| call_interner::<K, Box<Rodeo<K, VHasher>>>(b, s, stat, inf)),
        (Obj::Rodeo(r), "mut+box+Rodeo") => with_boxed(r, |b| {
            let mut m: &mut Box<Rodeo<K, VHasher>> = b;
            call_interner::<K, &mut Box<Rodeo<K, VHasher>>>(&mut m, s, stat, inf)
        }),
        (Obj::Rodeo(r), "box+box+Rodeo") => with_boxed(r, |b| {
            let inner = std::mem::replace(b, Box::new(Rodeo::placeholder()));
            let mut bb: Box<Box<Rodeo<K, VHasher>>> = Box::new(inner);
            let res = call_interner::<K, Box<Box<Rodeo<K, VHasher>>>>(&mut bb, s, stat, inf);
            *b = *bb;
            res
        }),
        (Obj::Rodeo(r), "boxdyn+Rodeo") => with_boxed(r, |b| {
            let inner = std::mem::replace(b, Box::new(Rodeo::placeholder()));
            let mut d: Box<dyn Interner<K>> = inner;
            let res = call_interner::<K, Box<dyn Interner<K>>>(&mut d, s, stat, inf);
            // we know the concrete type behind the trait object
            let raw = Box::into_raw(d) as *mut Rodeo<K, VHasher>;
            *b = unsafe { Box::from_raw(raw) };
            res
        }),
        (Obj::Threaded(t, _), "ThreadedRodeo") => call_interner::<K, ThreadedRodeo<K, VHasher>>(t, s, stat, inf),
        (Obj::Threaded(t, _), "tref+ThreadedRodeo") => {
            let mut r: &ThreadedRodeo<K, VHasher> = t;
            call_interner::<K, &ThreadedRodeo<K, VHasher>>(&mut r, s, stat, inf)
        }
        (Obj::Threaded(t, _), "mut+ThreadedRodeo") => {
            let mut m: &mut ThreadedRodeo<K, VHasher> = t;
            call_interner::<K, &mut ThreadedRodeo<K, VHasher>>(&mut m, s, stat, inf)
        }
        (Obj::Threaded(t, _), "mut+tref+ThreadedRodeo") => {
            let mut r: &ThreadedRodeo<K, VHasher> = t;
            let mut m: &mut &ThreadedRodeo<K, VHasher> = &mut r;
            call_interner::<K, &mut &ThreadedRodeo<K, VHasher>>(&mut m, s, stat, inf)
        }
        (Obj::Threaded(t, _), "box+ThreadedRodeo") => {
            with_boxed(t, |b| call_interner::<K, Box<ThreadedRodeo<K, VHasher>>>(b, s, stat, inf))
        }
        (Obj::Threaded(t, _), "boxdyn+ThreadedRodeo") => with_boxed(t, |b| {
            let inner = std::mem::replace(b, Box::new(ThreadedRodeo::placeholder()));
            let mut d: Box<dyn Interner<K>> = inner;
            let res = call_interner::<K, Box<dyn Interner<K>>>(&mut d, s, stat, inf);
            let raw = Box::into_raw(d) as *mut ThreadedRodeo<K, VHasher>;
            *b = unsafe { Box::from_raw(raw) };
            res
        }),
        _ => return None,
    })
}

/// Query operations through `Reader` / `Resolver` trait routes.
pub enum Q<'a, K> {
    Get(&'a str),
    Contains(&'a str),
    Resolve(K),
    TryResolve(K),
    ResolveU(K),
    ContainsKey(K),
    Len,
    IsEmpty,
}

pub enum QRes<'a, K> {
    Key(Option<K>),
    Bool(bool),
    Str(&'a str),
    OptStr(Option<&'a str>),
    Num(usize),
}

fn q_resolver<'a, K: KeyT, R: Resolver<K> + ?Sized>(r: &'a R, q: &Q<'_, K>) -> Option<QRes<'a, K>> {
    Some(match q {
        Q::Resolve(k) => QRes::Str(r.resolve(k)),
        Q::TryResolve(k) => QRes::OptStr(r.try_resolve(k)),
        Q::ResolveU(k) => QRes::Str(unsafe { r.resolve_unchecked(k) }),
        Q::ContainsKey(k) => QRes::Bool(r.contains_key(k)),
        Q::Len => QRes::Num(r.len()),
        Q::IsEmpty => QRes::Bool(r.is_empty()),
        _ => return None,
    })
}

fn q_reader<'a, K: KeyT, R: Reader<K> + ?Sized>(r: &'a R, q: &Q<'_, K>) -> Option<QRes<'a, K>> {
    match q {
        Q::Get(s) => Some(QRes::Key(r.get(s))),
        Q::Contains(s) => Some(QRes::Bool(r.contains(s))),
        _ => q_resolver::<K, R>(r, q),
    }
}

/// Queries through trait routes; the answer is rendered inside `f` so no borrow escapes.
pub fn via_query<K: KeyT, T>(obj: &Obj<K>, route: &str, q: &Q<'_, K>, f: impl FnOnce(Option<QRes<'_, K>>) -> T) -> T {
    macro_rules! routes {
        ($r:expr, $ty:ty, $base:literal, $qf:ident) => {{
            let r: &$ty = $r;
            if route == $base {
                return f($qf::<K, $ty>(r, q));
            } else if route == concat!("ref+", $base) {
                let rr: &$ty = r;
                return f($qf::<K, &$ty>(&rr, q));
            } else if route == concat!("ref+ref+", $base) {
                let rr: &$ty = r;
                let rrr: &&$ty = &rr;
                return f($qf::<K, &&$ty>(&rrr, q));
            }
        }};
    }
    match obj {
        Obj::Rodeo(r) => routes!(r, Rodeo<K, VHasher>, "Rodeo", q_reader),
        Obj::Threaded(t, _) => routes!(t, ThreadedRodeo<K, VHasher>, "ThreadedRodeo", q_reader),
        Obj::Reader(r, _) => routes!(r, RodeoReader<K, VHasher>, "RodeoReader", q_reader),
        Obj::Resolver(r, _) => routes!(r, RodeoResolver<K>, "RodeoResolver", q_resolver),
        Obj::Gone => {}
    }
    f(None)
}

/// Queries through routes that need ownership or `&mut` (`Box<T>`, `&mut T`).
pub fn via_query_mut<K: KeyT, T>(obj: &mut Obj<K>, route: &str, q: &Q<'_, K>, f: impl FnOnce(Option<QRes<'_, K>>) -> T) -> T {
    macro_rules! routes {
        ($r:expr, $ty:ty, $base:literal, $qf:ident) => {{
            let r: &mut $ty = $r;
            if route == concat!("mut+", $base) {
                let m: &mut $ty = r;
                return f($qf::<K, &mut $ty>(&m, q));
            }
        }};
    }
    match obj {
        Obj::Rodeo(r) => {
            if route == "box+Rodeo" {
                return with_boxed(r, |b| f(q_reader::<K, Box<Rodeo<K, VHasher>>>(b, q)));
            }
            routes!(r, Rodeo<K, VHasher>, "Rodeo", q_reader)
        }
        Obj::Threaded(t, _) => {
            if route == "box+ThreadedRodeo" {
                return with_boxed(t, |b| f(q_reader::<K, Box<ThreadedRodeo<K, VHasher>>>(b, q)));
            }
            routes!(t, ThreadedRodeo<K, VHasher>, "ThreadedRodeo", q_reader)
        }
        Obj::Reader(r, _) => routes!(r, RodeoReader<K, VHasher>, "RodeoReader", q_reader),
        Obj::Resolver(r, _) => routes!(r, RodeoResolver<K>, "RodeoResolver", q_resolver),
        Obj::Gone => {}
    }
    f(None)
}
