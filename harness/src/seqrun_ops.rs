// included into seqrun.rs

impl<K: KeyT> World<K> {
    pub fn new(pool: Vec<&'static str>, hasher: HashKind, case_no: u64, header: String) -> Self {
        DEFAULT_HASH_KIND.store(hasher as u8, Ordering::SeqCst);
        World {
            pool,
            hasher,
            slots: Vec::new(),
            oracle: Vec::new(),
            stats: Stats::default(),
            case_no,
            case_header: header,
            line_no: 0,
            ops_since_sweep: 0,
            cur_born: "",
        }
    }

    fn fail(&mut self, prop: &str, fp: &str, what: String) {
        // (messages quote strings in hex: megabyte strings would make megabyte reports)
        let what = if what.len() > 700 {
            let mut cut = 600;
            while !what.is_char_boundary(cut) {
                cut -= 1;
            }
            format!("{}...(+{} characters)", &what[..cut], what.len() - cut)
        } else {
            what
        };
        if !self.cur_born.is_empty() && prop != self.cur_born && self.oracle.len() < 200 {
            let born = self.cur_born;
            let how = match born {
                "C12" => "cloning (clone / try_clone / clone_from)",
                "C06" => "conversion into a reader or resolver",
                "C13" => "clear()",
                _ => "deserialisation",
            };
            self.oracle.push(format!(
                "{born} derived-object-misbehaves:{prop}:{fp} :: on an object obtained by {how}: {what} :: case {} ({}) line {}",
                self.case_no, self.case_header, self.line_no
            ));
            crate::seqrun::journal('O', self.oracle.last().unwrap());
        }
        if self.oracle.len() < 200 {
            self.oracle.push(format!(
                "{prop} {fp} :: {what} :: case {} ({}) line {}",
                self.case_no, self.case_header, self.line_no
            ));
            crate::seqrun::journal('O', self.oracle.last().unwrap());
        }
    }

    fn slot(&mut self, i: usize) -> &mut Slot<K> {
        while self.slots.len() <= i {
            self.slots.push(Slot { obj: Obj::Gone, shadow: Shadow::new(), born: "" });
        }
        &mut self.slots[i]
    }

    /// Provenance of a string returned by object `o`: block position + offset, pool index, or the empty literal.
    fn prov(&self, o: &Obj<K>, s: &str) -> String {
        let p = s.as_ptr() as usize;
        for (i, ps) in self.pool.iter().enumerate() {
            if ps.as_ptr() as usize == p && ps.len() == s.len() {
                return format!("S{i}");
            }
        }
        if s.is_empty() {
            return "E".into();
        }
        for (pos, (base, cap, _used)) in o.blocks().iter().enumerate() {
            if p >= *base && p + s.len() <= *base + *cap {
                return if o.unordered() { format!("A{pos}:?") } else { format!("A{pos}:{}", p - *base) };
            }
        }
        "X".into()
    }

    fn show_ref(&self, o: &Obj<K>, s: &str) -> String {
        format!("{} {}", hex(s.as_bytes()), self.prov(o, s))
    }

    /// Oracle sweep over every live object: C01 (every minted key still resolves to its string by
    /// every path), C02/C06 (string->key answers), C10 (len, contains_key, iteration order),
    /// C04/C08 (block audit), C16 (static provenance).
    pub fn sweep(&mut self) {
        self.stats.sweeps += 1;
        let mut fails: Vec<(&'static str, String, String)> = Vec::new();
        let mut fail_born: Vec<&'static str> = Vec::new();
        for (si, slot) in self.slots.iter().enumerate() {
            while fail_born.len() < fails.len() {
                fail_born.push(if si > 0 { self.slots[si - 1].born } else { "" });
            }
            let o = &slot.obj;
            if matches!(o, Obj::Gone) {
                continue;
            }
            let sh = &slot.shadow;
            let blocks = o.blocks();
            // ---- C04 / C08: blocks
            let mut sum_cap = 0usize;
            for (b, (_, cap, used)) in blocks.iter().enumerate() {
                sum_cap += cap;
                if used > cap {
                    fails.push(("C04", "block-overfull".into(), format!("slot {si} block {b}: used {used} > cap {cap}")));
                }
            }
            if let Some(m) = o.mem() {
                if m != sum_cap {
                    fails.push(("C08", "usage-not-sum-of-blocks".into(), format!("slot {si}: usage {m} != sum of block capacities {sum_cap}")));
                }
            }
            let pairs = o.pairs();
            self.stats.oracle_checks += pairs.len() as u64 + 2;
            // ---- C04: every non-static non-empty string inside one block of this object, within its used part, disjoint
            let mut regions: Vec<(usize, usize, usize)> = Vec::new();
            for (k, s) in &pairs {
                let p = s.as_ptr() as usize;
                let is_pool = self.pool.iter().any(|ps| ps.as_ptr() as usize == p && ps.len() == s.len());
                if is_pool || s.is_empty() {
                    continue;
                }
                match blocks.iter().find(|(base, cap, _)| p >= *base && p + s.len() <= *base + *cap) {
                    Some((base, _, used)) => {
                        if p + s.len() > *base + *used {
                            fails.push(("C04", "string-beyond-used".into(), format!("slot {si} key {k}: string extends beyond the block's used prefix")));
                        }
                        regions.push((p, p + s.len(), *k));
                    }
                    None => fails.push(("C04", "string-outside-own-blocks".into(), format!("slot {si} key {k}: {} bytes not inside a block of this object", s.len()))),
                }
            }
            regions.sort();
            for w in regions.windows(2) {
                if w[0].1 > w[1].0 {
                    fails.push(("C04", "regions-overlap".into(), format!("slot {si}: keys {} and {} overlap in memory", w[0].2, w[1].2)));
                }
            }
            if !sh.tracked {
                continue;
            }
            // ---- C10: count and order
            if o.len() != sh.strs.len() {
                fails.push(("C10", "len-mismatch".into(), format!("slot {si}: len {} but {} distinct strings interned", o.len(), sh.strs.len())));
            }
            let got: Vec<(usize, Vec<u8>)> = pairs.iter().map(|(k, s)| (*k, s.as_bytes().to_vec())).collect();
            let want: Vec<(usize, Vec<u8>)> = sh.strs.iter().cloned().enumerate().collect();
            if got != want {
                fails.push(("C10", "iteration-mismatch".into(), format!("slot {si}: iteration yields {} pairs differing from the {} expected (key order)", got.len(), want.len())));
                fails.push(("C01", "iteration-mismatch".into(), format!("slot {si}: iteration does not yield every minted (key, string) pair")));
            }
            // ---- C01 / C02 / C16 per key
            for (i, x) in sh.strs.iter().enumerate() {
                let Some(k) = key::<K>(i) else {
                    fails.push(("C07", "key-beyond-capacity".into(), format!("slot {si}: holds index {i} beyond the key capacity")));
                    continue;
                };
                match o.try_resolve(&k) {
                    Some(s) if s.as_bytes() == &x[..] => {
                        if let Some(pi) = sh.stat[i] {
                            let ps = self.pool[pi];
                            if s.as_ptr() != ps.as_ptr() || s.len() != ps.len() {
                                fails.push(("C16", "static-not-by-reference".into(), format!("slot {si} key {i}: static pool string {pi} is not returned by reference")));
                            }
                        }
                    }
                    Some(s) => {
                        fails.push(("C01", "resolve-wrong-string".into(), format!("slot {si} ({}) key {i}: resolves to {} instead of {}", o.kind(), hex(s.as_bytes()), hex(x))));
                    }
                    None => fails.push(("C01", "resolve-none".into(), format!("slot {si} ({}) key {i}: no longer resolves", o.kind()))),
                }
                if !o.contains_key(&k) {
                    fails.push(("C10", "contains-key-false".into(), format!("slot {si} key {i}: contains_key is false for a minted key")));
                }
                if let Some(g) = o.get(to_str(x)) {
                    if g.map(|k| k.into_usize()) != Some(i) {
                        fails.push(("C02", "get-wrong".into(), format!("slot {si} ({}): get({}) = {:?}, expected key {i}", o.kind(), hex(x), g.map(|k| k.into_usize()))));
                    }
                }
            }
            // one past the end is unknown
            if let Some(k) = key::<K>(sh.strs.len()) {
                if o.contains_key(&k) || o.try_resolve(&k).is_some() {
                    fails.push(("C10", "unknown-key-known".into(), format!("slot {si}: key {} (never minted) is known", sh.strs.len())));
                }
            }
        }
        while fail_born.len() < fails.len() {
            fail_born.push(self.slots.last().map(|s| s.born).unwrap_or(""));
        }
        let saved = self.cur_born;
        for ((p, fp, w), b) in fails.into_iter().zip(fail_born) {
            self.cur_born = b;
            self.fail(p, &fp, w);
        }
        self.cur_born = saved;
    }

    fn intern(&mut self, si: usize, x: &[u8], stat: Option<usize>, infallible: bool, via: Option<&str>) -> String {
        let s: &'static str = match stat {
            Some(pi) => self.pool[pi],
            // leak nothing: non-static strings are borrowed for the call only
            None => unsafe { std::mem::transmute::<&str, &'static str>(to_str(x)) },
        };
        let before_mem = self.slot(si).obj.mem();
        // the limit in force: the one the harness itself set last, else what the object reports
        let before_max = self.slot(si).shadow.limit.or(self.slot(si).obj.max_mem());
        let before_len = self.slot(si).obj.len();
        let before_blocks = self.slot(si).obj.blocks();
        let present = self.slot(si).shadow.index.get(x).copied();
        let tracked = self.slot(si).shadow.tracked;
        let slot = self.slot(si);
        let res: Caught<Result<K, lasso::LassoError>> = match via {
            None => match &mut slot.obj {
                Obj::Rodeo(r) => guarded(|| match (stat.is_some(), infallible) {
                    (false, false) => r.try_get_or_intern(s),
                    (false, true) => Ok(r.get_or_intern(s)),
                    (true, false) => r.try_get_or_intern_static(s),
                    (true, true) => Ok(r.get_or_intern_static(s)),
                }),
                Obj::Threaded(t, _) => guarded(|| match (stat.is_some(), infallible) {
                    (false, false) => t.try_get_or_intern(s),
                    (false, true) => Ok(t.get_or_intern(s)),
                    (true, false) => t.try_get_or_intern_static(s),
                    (true, true) => Ok(t.get_or_intern_static(s)),
                }),
                _ => return "bad-op".into(),
            },
            Some(route) => match via_intern(&mut slot.obj, route, s, stat.is_some(), infallible) {
                Some(r) => r,
                None => return "no-route".into(),
            },
        };
        let out = match &res {
            Caught::Ok(Ok(k)) => format!("ok {}", k.into_usize()),
            Caught::Ok(Err(e)) => err_name(e).to_string(),
            Caught::Panic => "panic".into(),
            Caught::Fault(_) => "fault".into(),
        };
        // ------------------------------------------------------------ oracles
        let via_tag = via.map(|r| format!(" via {r}")).unwrap_or_default();
        let wprop = if via.is_some() { "C17" } else { "C02" };
        if let Caught::Fault(site) = &res {
            self.fail("C04", "fault-in-intern", format!("intern{via_tag} of {} bytes faulted: {site}", x.len()));
            self.slot(si).obj = Obj::Gone;
            return out;
        }
        if !tracked {
            return out;
        }
        let after_mem = self.slots[si].obj.mem();
        let after_len = self.slots[si].obj.len();
        let n_cap = K::CAP;
        match &res {
            Caught::Ok(Ok(k)) => {
                let k = k.into_usize();
                match present {
                    Some(p) => {
                        if k != p {
                            self.fail(wprop, "present-string-new-key", format!("interning{via_tag} a present string returned key {k}, its key is {p}"));
                        }
                        if after_len != before_len || after_mem != before_mem || self.slots[si].obj.blocks() != before_blocks {
                            self.fail("C02", "present-string-changed-state", format!("interning{via_tag} a present string changed len/memory ({before_len}->{after_len}, {before_mem:?}->{after_mem:?})"));
                        }
                    }
                    None => {
                        let want = self.slots[si].shadow.strs.len();
                        if k != want {
                            self.fail("C10", "key-not-dense", format!("new string{via_tag} got key {k}, expected the next index {want}"));
                            if via.is_some() {
                                self.fail("C17", "wrapper-diverges", format!("new string{via_tag} got key {k}, the inherent call gives {want}"));
                            }
                        }
                        if (want as u128) >= n_cap {
                            self.fail("C07", "more-than-capacity", format!("a string was admitted{via_tag} although {want} keys (the capacity) are in use"));
                        }
                        if stat.is_some() || x.is_empty() {
                            if after_mem != before_mem {
                                self.fail(if stat.is_some() { "C16" } else { "C08" }, "static-or-empty-used-memory", format!("interning{via_tag} a {} string changed memory usage {before_mem:?}->{after_mem:?}", if stat.is_some() { "static" } else { "empty" }));
                                if via.is_some() && stat.is_some() {
                                    self.fail("C17", "wrapper-diverges", format!("static intern{via_tag} consumed arena memory, the inherent call does not"));
                                }
                            }
                        }
                        if let (Some(am), Some(bm), Some(mx)) = (after_mem, before_mem, before_max) {
                            if am > mx && am > bm {
                                self.fail("C08", "usage-exceeds-limit", format!("usage rose {bm}->{am} above the limit {mx}"));
                            }
                        }
                        self.slots[si].shadow.push(x.to_vec(), stat);
                    }
                }
            }
            Caught::Ok(Err(_)) | Caught::Panic => {
                let kind = match &res {
                    Caught::Ok(Err(e)) => err_name(e),
                    _ => "panic",
                };
                if let Caught::Ok(Err(e)) = &res {
                    // the error says which limit was hit, consistently through every accessor
                    let k = e.kind();
                    let want = (matches!(k, lasso::LassoErrorKind::MemoryLimitReached), matches!(k, lasso::LassoErrorKind::KeySpaceExhaustion), matches!(k, lasso::LassoErrorKind::FailedAllocation));
                    let got = (k.is_memory_limit(), k.is_keyspace_exhaustion(), k.is_failed_alloc());
                    if want != got {
                        self.fail("C07", "error-kind-predicates-disagree", format!("error kind {k:?}: (is_memory_limit, is_keyspace_exhaustion, is_failed_alloc) = {got:?}"));
                    }
                }
                if present.is_some() {
                    self.fail("C02", "present-string-failed", format!("interning{via_tag} a present string failed ({kind})"));
                }
                if matches!(res, Caught::Panic) && !infallible {
                    self.fail("C07", "fallible-panicked", format!("the fallible intern{via_tag} panicked"));
                }
                if after_len != before_len {
                    self.fail("C07", "failed-intern-changed-len", format!("failed intern{via_tag} ({kind}) changed len {before_len}->{after_len}"));
                }
                if let Some(Some(_)) = self.slots[si].obj.get(to_str(x)) {
                    if present.is_none() {
                        self.fail("C07", "failed-string-present", format!("after a failed intern{via_tag} ({kind}) the string is found by get"));
                    }
                }
                let full = (before_len as u128) >= n_cap;
                match kind {
                    "err keys" => {
                        if !full {
                            self.fail("C07", "keyspace-error-early", format!("KeySpaceExhaustion{via_tag} with {before_len} of {n_cap} keys in use"));
                        }
                    }
                    "err mem" => {
                        let is_rodeo = matches!(self.slots[si].obj, Obj::Rodeo(_));
                        // (which of the two errors is reported when both limits are reached is not part of
                        // any property: left to the model comparison)
                        let _ = is_rodeo && full;
                        if stat.is_some() || x.is_empty() {
                            self.fail("C08", "static-or-empty-memory-error", format!("memory error{via_tag} for a static/empty string"));
                            if !full {
                                self.fail("C07", "spurious-memory-error", format!("interning{via_tag} a static/empty string failed with MemoryLimitReached: it needs no memory, and {before_len} of {n_cap} keys are in use"));
                            }
                        }
                        // the budget really in use is the bytes of the blocks held (the block audit), not
                        // what the counter says: a counter that over-reports must not excuse a refusal
                        let held: usize = before_blocks.iter().map(|b| b.1).sum();
                        if let (Some(_), Some(mx)) = (before_mem, before_max) {
                            let bm = held;
                            if (bm as u128) + (x.len() as u128) <= mx as u128 {
                                self.fail("C08", "spurious-memory-error", format!("MemoryLimitReached{via_tag} although usage {bm} + len {} <= limit {mx}", x.len()));
                                if !full {
                                    self.fail("C07", "spurious-memory-error", format!("interning{via_tag} failed with MemoryLimitReached although neither limit is reached (usage {bm} + len {} <= limit {mx}, {before_len} of {n_cap} keys)", x.len()));
                                }
                            }
                        }
                        if after_mem != before_mem {
                            self.fail("C08", "failed-intern-changed-usage", format!("memory error{via_tag} changed usage {before_mem:?}->{after_mem:?}"));
                        }
                    }
                    _ => {}
                }
            }
            Caught::Fault(_) => {}
        }
        // a success that should have been a failure: key space
        out
    }
}
