// included into seqrun.rs: queries, clones, conversions, iterators, equality, serde, dispatcher

fn json_list(strs: &[Vec<u8>]) -> String {
    let v: Vec<&str> = strs.iter().map(|b| to_str(b)).collect();
    serde_json::to_string(&v).unwrap()
}

fn json_map(entries: &[(Vec<u8>, u128)]) -> String {
    // written by hand so that repeated keys survive
    let mut s = String::from("{");
    for (i, (k, v)) in entries.iter().enumerate() {
        if i > 0 {
            s.push(',');
        }
        s.push_str(&serde_json::to_string(to_str(k)).unwrap());
        s.push(':');
        s.push_str(&v.to_string());
    }
    s.push('}');
    s
}

impl<K: KeyT> World<K> {
    fn render_q(&self, o: &Obj<K>, r: Option<QRes<'_, K>>, try_form: bool) -> String {
        match r {
            None => "no-route".into(),
            Some(QRes::Key(k)) => match k {
                Some(k) => format!("some {}", k.into_usize()),
                None => "none".into(),
            },
            Some(QRes::Bool(b)) => b.to_string(),
            Some(QRes::Num(n)) => n.to_string(),
            Some(QRes::Str(s)) => { let _ = o; format!("str {} @{}:{}", hex(s.as_bytes()), s.as_ptr() as usize, s.len()) }
            Some(QRes::OptStr(Some(s))) => format!("some {} @{}:{}", hex(s.as_bytes()), s.as_ptr() as usize, s.len()),
            Some(QRes::OptStr(None)) => {
                let _ = try_form;
                "none".into()
            }
        }
    }

    /// A read-only query, inherent or through a trait route; with oracle against the shadow.
    fn query(&mut self, si: usize, op: &str, arg: &str, via: Option<&str>) -> String {
        let _ = self.slot(si);
        let kidx: Option<usize> = arg.parse().ok();
        let bytes = if matches!(op, "get" | "contains") { unhex(arg) } else { Vec::new() };
        let k: Option<K> = kidx.and_then(key::<K>);
        if matches!(op, "resolve" | "index" | "tryResolve" | "resolveU" | "containsKey") && k.is_none() {
            return "bad-op".into();
        }
        let txt = if matches!(op, "get" | "contains") { to_str(&bytes).to_string() } else { String::new() };
        let q: Q<'_, K> = match op {
            "get" => Q::Get(&txt),
            "contains" => Q::Contains(&txt),
            "resolve" | "index" => Q::Resolve(k.unwrap()),
            "tryResolve" => Q::TryResolve(k.unwrap()),
            "resolveU" => Q::ResolveU(k.unwrap()),
            "containsKey" => Q::ContainsKey(k.unwrap()),
            "len" => Q::Len,
            "isEmpty" => Q::IsEmpty,
            _ => return "bad-op".into(),
        };
        if op == "resolveU" && kidx.unwrap() >= self.slots[si].obj.len() {
            // the unchecked path is only ever exercised on keys that exist
            return "skipped".into();
        }
        let is_index = op == "index";
        let needs_mut = via.map(|r| r.starts_with("mut+") || r.starts_with("box+")).unwrap_or(false);
        let this: &World<K> = unsafe { &*(self as *const World<K>) };
        let res: Caught<String> = if let Some(route) = via {
            if needs_mut {
                let obj: &mut Obj<K> = &mut self.slots[si].obj;
                let obj_ro: &Obj<K> = unsafe { &*(obj as *const Obj<K>) };
                guarded(|| via_query_mut(obj, route, &q, |r| this.render_q(obj_ro, r, false)))
            } else {
                let obj = &self.slots[si].obj;
                guarded(|| via_query(obj, route, &q, |r| this.render_q(obj, r, false)))
            }
        } else {
            let obj = &self.slots[si].obj;
            guarded(|| match (obj, &q) {
                (Obj::Gone, _) => "bad-op".to_string(),
                (Obj::Resolver(..), Q::Get(_) | Q::Contains(_)) => "bad-op".to_string(),
                (Obj::Threaded(..), Q::ResolveU(_)) => "bad-op".to_string(),
                (Obj::Rodeo(r), Q::Resolve(k)) if is_index => this.render_q(obj, Some(QRes::Str(&r[*k])), false),
                (Obj::Threaded(r, _), Q::Resolve(k)) if is_index => this.render_q(obj, Some(QRes::Str(&r[*k])), false),
                (Obj::Reader(r, _), Q::Resolve(k)) if is_index => this.render_q(obj, Some(QRes::Str(&r[*k])), false),
                (Obj::Resolver(r, _), Q::Resolve(k)) if is_index => this.render_q(obj, Some(QRes::Str(&r[*k])), false),
                (Obj::Rodeo(r), q) => this.render_q(obj, inherent_rodeo(r, q), false),
                (Obj::Threaded(r, _), q) => this.render_q(obj, inherent_threaded(r, q), false),
                (Obj::Reader(r, _), q) => this.render_q(obj, inherent_reader(r, q), false),
                (Obj::Resolver(r, _), q) => this.render_q(obj, inherent_resolver(r, q), false),
            })
        };
        let out = match res {
            Caught::Ok(s) => s,
            Caught::Panic => "panic".into(),
            Caught::Fault(site) => {
                self.fail("C04", "fault-in-query", format!("{op} faulted: {site}"));
                "fault".into()
            }
        };
        // provenance is computed once the object is back in its slot
        let out = match out.rfind(" @") {
            Some(i) => {
                let mut it = out[i + 2..].split(':');
                let ptr: usize = it.next().unwrap().parse().unwrap();
                let len: usize = it.next().unwrap().parse().unwrap();
                let s: &str = unsafe { std::str::from_utf8_unchecked(std::slice::from_raw_parts(ptr as *const u8, len)) };
                format!("{} {}", &out[..i], self.prov(&self.slots[si].obj, s))
            }
            None => out,
        };
        // ---------------- probes that alias stored memory: a lookup with a proper prefix *slice* of a stored string
        // (same start address, shorter) must answer like a lookup with a copy of those bytes
        if op == "get" && via.is_none() && self.slots[si].shadow.tracked && !matches!(self.slots[si].obj, Obj::Resolver(..) | Obj::Gone) {
            if let Some(&kk) = self.slots[si].shadow.index.get(&bytes) {
                if let Some(key) = key::<K>(kk) {
                    let mut bad: Vec<String> = Vec::new();
                    {
                        let obj = &self.slots[si].obj;
                        let sh = &self.slots[si].shadow;
                        if let Some(stored) = obj.try_resolve(&key) {
                            let n = stored.len();
                            for l in [n.saturating_sub(1), n / 2, 1usize] {
                                if l == 0 || l >= n || !stored.is_char_boundary(l) {
                                    continue;
                                }
                                let probe: &str = &stored[..l];
                                let want = sh.index.get(probe.as_bytes()).copied();
                                let got = guarded(|| obj.get(probe));
                                match got {
                                    Caught::Ok(Some(g)) => {
                                        let g = g.map(|k| k.into_usize());
                                        if g != want {
                                            bad.push(format!("get of the first {l} bytes of the stored string of key {kk} (a slice of the interner's own memory) = {g:?}, expected {want:?}"));
                                        }
                                    }
                                    Caught::Ok(None) => {}
                                    _ => bad.push(format!("get of a prefix slice of the stored string of key {kk} panicked")),
                                }
                            }
                        }
                    }
                    for b in bad {
                        self.fail("C02", "aliasing-probe-wrong", b);
                    }
                }
            }
        }
        // ---------------- oracle
        let sh = &self.slots[si].shadow;
        if sh.tracked && out != "bad-op" && out != "no-route" && out != "fault" {
            let wprop = if via.is_some() { "C17" } else { "" };
            let expect: Option<String> = match op {
                "get" => Some(match sh.index.get(&bytes) {
                    Some(k) => format!("some {k}"),
                    None => "none".into(),
                }),
                "contains" => Some(sh.index.contains_key(&bytes).to_string()),
                "len" => Some(sh.strs.len().to_string()),
                "isEmpty" => Some(sh.strs.is_empty().to_string()),
                "containsKey" => Some((kidx.unwrap() < sh.strs.len()).to_string()),
                _ => None,
            };
            let prop = match op {
                "get" | "contains" => "C02",
                "len" | "isEmpty" | "containsKey" => "C10",
                _ => "C01",
            };
            if let Some(e) = expect {
                if e != out {
                    let w = format!("{op}({arg}){} = {out}, expected {e}", via.map(|r| format!(" via {r}")).unwrap_or_default());
                    self.fail(prop, &format!("{op}-wrong"), w.clone());
                    if !wprop.is_empty() {
                        self.fail(wprop, "wrapper-diverges", w);
                    }
                }
            } else {
                // resolution paths
                let i = kidx.unwrap();
                let exp_bytes = self.slots[si].shadow.strs.get(i).map(|b| hex(b));
                let exp_stat = self.slots[si].shadow.stat.get(i).copied().flatten();
                let got_bytes = out.split(' ').nth(1).map(|s| s.to_string());
                let ok = match (op, &exp_bytes) {
                    ("resolve" | "index", None) => out == "panic",
                    ("tryResolve", None) => out == "none",
                    (_, Some(e)) => got_bytes.as_deref() == Some(e.as_str()),
                    _ => true,
                };
                if !ok {
                    let w = format!("{op}({i}){} = {out}, expected {:?}", via.map(|r| format!(" via {r}")).unwrap_or_default(), exp_bytes);
                    let p = if op == "index" { "C17" } else { "C01" };
                    self.fail(p, &format!("{op}-wrong"), w.clone());
                    if !wprop.is_empty() && p != "C17" {
                        self.fail(wprop, "wrapper-diverges", w);
                    }
                }
                if let (Some(pi), Some(prov)) = (exp_stat, out.split(' ').nth(2)) {
                    if prov != format!("S{pi}") {
                        let w = format!("{op}({i}) of a static string has provenance {prov}, expected S{pi}");
                        self.fail("C16", "static-not-by-reference", w);
                    }
                }
            }
        }
        out
    }

    fn do_clone(&mut self, op: &str, a: usize, b: usize) -> String {
        let _ = self.slot(a.max(b));
        if op == "clone" || op == "tryClone" {
            let src_unlimited = self.slots[a].obj.max_mem() == Some(usize::MAX);
            // the limit in force on the source (the harness's own record first)
            let src_limit = self.slots[a].shadow.limit.or(self.slots[a].obj.max_mem());
            let res = match &self.slots[a].obj {
                Obj::Rodeo(r) => guarded(|| if op == "clone" { Ok(r.clone()) } else { r.try_clone() }),
                _ => return "bad-op".into(),
            };
            match res {
                Caught::Ok(Ok(c)) => {
                    self.slots[b] = Slot { obj: Obj::Rodeo(c), shadow: self.slots[a].shadow.clone(), born: "C12" };
                    // the source's limit stays in force on the copy (C08: "including after clone"), unless the
                    // content copied already takes more than that
                    let used = self.slots[b].obj.mem().unwrap_or(0);
                    self.slots[b].shadow.limit = src_limit.map(|l| l.max(used));
                    // the copy holds no static references: everything was copied into its arena
                    for s in self.slots[b].shadow.stat.iter_mut() {
                        *s = None;
                    }
                    "ok".into()
                }
                Caught::Ok(Err(e)) => {
                    if src_unlimited {
                        self.fail("C12", "unlimited-clone-failed", format!("cloning an interner without memory limit failed: {}", err_name(&e)));
                    }
                    err_name(&e).into()
                }
                Caught::Panic => {
                    if src_unlimited {
                        self.fail("C12", "unlimited-clone-failed", "cloning an interner without memory limit panicked".into());
                    }
                    "panic".into()
                }
                Caught::Fault(site) => {
                    self.fail("C04", "fault-in-clone", format!("clone faulted: {site}"));
                    "fault".into()
                }
            }
        } else {
            // cloneFrom / tryCloneFrom: target a, source b
            if a == b {
                return "bad-op".into();
            }
            let (ta, sb) = if a < b {
                let (l, r) = self.slots.split_at_mut(b);
                (&mut l[a], &r[0])
            } else {
                let (l, r) = self.slots.split_at_mut(a);
                (&mut r[0], &l[b])
            };
            let both_unlimited = ta.obj.max_mem() == Some(usize::MAX);
            let res = match (&mut ta.obj, &sb.obj) {
                (Obj::Rodeo(t), Obj::Rodeo(s)) => guarded(|| {
                    if op == "cloneFrom" {
                        t.clone_from(s);
                        Ok(())
                    } else {
                        t.try_clone_from(s)
                    }
                }),
                _ => return "bad-op".into(),
            };
            let src_shadow = sb.shadow.clone();
            match res {
                Caught::Ok(Ok(())) => {
                    let keep = self.slots[a].shadow.limit;
                    self.slots[a].shadow = src_shadow;
                    self.slots[a].shadow.limit = keep;
                    self.slots[a].born = "C12";
                    for s in self.slots[a].shadow.stat.iter_mut() {
                        *s = None;
                    }
                    "ok".into()
                }
                Caught::Ok(Err(e)) => {
                    if both_unlimited {
                        self.fail("C12", "unlimited-clone-failed", format!("clone_from into an unlimited interner failed: {}", err_name(&e)));
                    }
                    self.refused_clone_target_is_consistent(a);
                    self.slots[a] = Slot { obj: Obj::Gone, shadow: Shadow::new(), born: "" };
                    err_name(&e).into()
                }
                Caught::Panic => {
                    if both_unlimited {
                        self.fail("C12", "unlimited-clone-failed", "clone_from into an unlimited interner panicked".into());
                    }
                    self.refused_clone_target_is_consistent(a);
                    self.slots[a] = Slot { obj: Obj::Gone, shadow: Shadow::new(), born: "" };
                    "panic".into()
                }
                Caught::Fault(site) => {
                    self.fail("C04", "fault-in-clone", format!("clone_from faulted: {site}"));
                    self.slots[a] = Slot { obj: Obj::Gone, shadow: Shadow::new(), born: "" };
                    "fault".into()
                }
            }
        }
    }

    /// What a refused `clone_from` leaves behind is still an interner the program goes on using: whatever it holds
    /// (nothing, or a prefix of the source) must be found by a lookup under the key it is listed with - otherwise
    /// interning one of those strings again hands out a second key for it.
    fn refused_clone_target_is_consistent(&mut self, a: usize) {
        let mut bad: Vec<String> = Vec::new();
        {
            let obj = &self.slots[a].obj;
            let pairs: Vec<(usize, String)> = match guarded(|| obj.pairs().into_iter().map(|(k, s)| (k, s.to_string())).collect::<Vec<_>>()) {
                Caught::Ok(p) => p,
                _ => {
                    bad.push("iterating the target of a refused clone_from panicked".into());
                    Vec::new()
                }
            };
            if pairs.len() != obj.len() {
                bad.push(format!("the target of a refused clone_from lists {} pairs but reports len {}", pairs.len(), obj.len()));
            }
            for (k, s) in pairs.iter().take(64) {
                match guarded(|| obj.get(s)) {
                    Caught::Ok(Some(Some(g))) if g.into_usize() == *k => {}
                    Caught::Ok(Some(other)) => bad.push(format!("the target of a refused clone_from holds {:?} under key {k} but get finds {:?}", hex(s.as_bytes()), other.map(|x| x.into_usize()))),
                    Caught::Ok(None) => {}
                    _ => bad.push("a lookup on the target of a refused clone_from panicked".into()),
                }
            }
        }
        for b in bad.into_iter().take(3) {
            self.fail("C12", "refused-clone-from-left-inconsistent-target", b);
        }
    }

    fn convert(&mut self, si: usize, op: &str, via: Option<&str>) -> String {
        let _ = self.slot(si);
        let obj = std::mem::replace(&mut self.slots[si].obj, Obj::Gone);
        let res: Caught<Option<Obj<K>>> = guarded(|| {
            Some(match (obj, op, via) {
                (Obj::Rodeo(r), "intoReader", None) => Obj::Reader(r.into_reader(), false),
                (Obj::Rodeo(r), "intoResolver", None) => Obj::Resolver(r.into_resolver(), false),
                (Obj::Rodeo(r), "intoReader", Some("Rodeo")) => Obj::Reader(IntoReader::into_reader(r), false),
                (Obj::Rodeo(r), "intoResolver", Some("Rodeo")) => Obj::Resolver(IntoResolver::into_resolver(r), false),
                (Obj::Rodeo(r), "intoReader", Some("box+Rodeo")) => Obj::Reader(IntoReader::into_reader(Box::new(r)), false),
                (Obj::Rodeo(r), "intoResolver", Some("box+Rodeo")) => Obj::Resolver(IntoResolver::into_resolver(Box::new(r)), false),
                (Obj::Rodeo(r), "intoReader", Some("boxdyn+Rodeo")) => {
                    let d: Box<dyn IntoReader<K, Reader = RodeoReader<K, VHasher>>> = Box::new(r);
                    Obj::Reader(d.into_reader(), false)
                }
                (Obj::Rodeo(r), "intoResolver", Some("boxdyn+Rodeo")) => {
                    let d: Box<dyn IntoResolver<K, Resolver = RodeoResolver<K>>> = Box::new(r);
                    Obj::Resolver(d.into_resolver(), false)
                }
                (Obj::Threaded(t, u), "intoReader", None) => Obj::Reader(t.into_reader(), u),
                (Obj::Threaded(t, u), "intoResolver", None) => Obj::Resolver(t.into_resolver(), u),
                (Obj::Threaded(t, u), "intoReader", Some("ThreadedRodeo")) => Obj::Reader(IntoReader::into_reader(t), u),
                (Obj::Threaded(t, u), "intoResolver", Some("ThreadedRodeo")) => Obj::Resolver(IntoResolver::into_resolver(t), u),
                (Obj::Threaded(t, u), "intoReader", Some("box+ThreadedRodeo")) => Obj::Reader(IntoReader::into_reader(Box::new(t)), u),
                (Obj::Threaded(t, u), "intoResolver", Some("box+ThreadedRodeo")) => Obj::Resolver(IntoResolver::into_resolver(Box::new(t)), u),
                (Obj::Reader(r, u), "intoResolver", None) => Obj::Resolver(r.into_resolver(), u),
                (Obj::Reader(r, u), "intoResolver", Some("RodeoReader")) => Obj::Resolver(IntoResolver::into_resolver(r), u),
                (Obj::Reader(r, u), "intoResolver", Some("box+RodeoReader")) => Obj::Resolver(IntoResolver::into_resolver(Box::new(r)), u),
                (o, _, _) => {
                    // not applicable: leak nothing, report
                    std::mem::forget(o);
                    return None;
                }
            })
        });
        match res {
            Caught::Ok(Some(o)) => {
                self.slots[si].obj = o;
                if self.slots[si].born.is_empty() {
                    self.slots[si].born = "C06";
                }
                "ok".into()
            }
            Caught::Ok(None) => "bad-op".into(),
            Caught::Panic | Caught::Fault(_) => {
                let site = if let Caught::Fault(s) = &res { s.clone() } else { "documented-panic message".into() };
                self.cur_born = self.slots[si].born;
                self.fail("C06", "fault-in-conversion", format!("{op} faulted: {site}"));
                self.fail("C04", "fault-in-conversion", format!("{op} faulted: {site}"));
                self.slots[si].shadow = Shadow::new();
                "fault".into()
            }
        }
    }
}

fn inherent_rodeo<'a, K: KeyT>(r: &'a Rodeo<K, VHasher>, q: &Q<'_, K>) -> Option<QRes<'a, K>> {
    Some(match q {
        Q::Get(s) => QRes::Key(r.get(s)),
        Q::Contains(s) => QRes::Bool(r.contains(s)),
        Q::Resolve(k) => QRes::Str(r.resolve(k)),
        Q::TryResolve(k) => QRes::OptStr(r.try_resolve(k)),
        Q::ResolveU(k) => QRes::Str(unsafe { r.resolve_unchecked(k) }),
        Q::ContainsKey(k) => QRes::Bool(r.contains_key(k)),
        Q::Len => QRes::Num(r.len()),
        Q::IsEmpty => QRes::Bool(r.is_empty()),
    })
}
fn inherent_threaded<'a, K: KeyT>(r: &'a ThreadedRodeo<K, VHasher>, q: &Q<'_, K>) -> Option<QRes<'a, K>> {
    Some(match q {
        Q::Get(s) => QRes::Key(r.get(s)),
        Q::Contains(s) => QRes::Bool(r.contains(s)),
        Q::Resolve(k) => QRes::Str(r.resolve(k)),
        Q::TryResolve(k) => QRes::OptStr(r.try_resolve(k)),
        Q::ResolveU(_) => return None,
        Q::ContainsKey(k) => QRes::Bool(r.contains_key(k)),
        Q::Len => QRes::Num(r.len()),
        Q::IsEmpty => QRes::Bool(r.is_empty()),
    })
}
fn inherent_reader<'a, K: KeyT>(r: &'a RodeoReader<K, VHasher>, q: &Q<'_, K>) -> Option<QRes<'a, K>> {
    Some(match q {
        Q::Get(s) => QRes::Key(r.get(s)),
        Q::Contains(s) => QRes::Bool(r.contains(s)),
        Q::Resolve(k) => QRes::Str(r.resolve(k)),
        Q::TryResolve(k) => QRes::OptStr(r.try_resolve(k)),
        Q::ResolveU(k) => QRes::Str(unsafe { r.resolve_unchecked(k) }),
        Q::ContainsKey(k) => QRes::Bool(r.contains_key(k)),
        Q::Len => QRes::Num(r.len()),
        Q::IsEmpty => QRes::Bool(r.is_empty()),
    })
}
fn inherent_resolver<'a, K: KeyT>(r: &'a RodeoResolver<K>, q: &Q<'_, K>) -> Option<QRes<'a, K>> {
    Some(match q {
        Q::Get(_) | Q::Contains(_) => return None,
        Q::Resolve(k) => QRes::Str(r.resolve(k)),
        Q::TryResolve(k) => QRes::OptStr(r.try_resolve(k)),
        Q::ResolveU(k) => QRes::Str(unsafe { r.resolve_unchecked(k) }),
        Q::ContainsKey(k) => QRes::Bool(r.contains_key(k)),
        Q::Len => QRes::Num(r.len()),
        Q::IsEmpty => QRes::Bool(r.is_empty()),
    })
}
