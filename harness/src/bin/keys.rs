//! C11 correspondence: the real key conversions on exhaustive / boundary / sampled indices.
//!
//! usage: keys <quick|thorough> <seed> <out-prefix>
//! writes <out>.ops (driver input), <out>.impl (implementation answers, one per op line),
//! <out>.oracle (property-oracle failures evaluated on the implementation's own answers) and
//! <out>.stats (JSON).

use harness::Rng;
use lasso::{Key, LargeSpur, MicroSpur, MiniSpur, Spur};
use std::fmt::Debug;
use std::io::Write;

struct Out {
    ops: std::io::BufWriter<std::fs::File>,
    imp: std::io::BufWriter<std::fs::File>,
    oracle: Vec<String>,
    n_ops: u64,
    n_oracle_checks: u64,
}

fn run_type<K>(name: &str, cap: u128, idxs: &[usize], out: &mut Out, emit_ops: bool)
where
    K: Key + Debug + Ord + serde::Serialize + serde::de::DeserializeOwned + Default,
{
    let mut prev: Option<(usize, K)> = None;
    let mut anchors: Vec<(usize, K)> = Vec::new();
    for &i in idxs {
        let got = std::panic::catch_unwind(|| K::try_from_usize(i));
        let line = match &got {
            Ok(Some(k)) => {
                // raw value through serde (the raw NonZero is what is serialised)
                let raw = serde_json::to_string(k).unwrap_or_else(|_| "?".into());
                format!("some {raw}")
            }
            Ok(None) => "none".to_string(),
            Err(_) => "fault".to_string(),
        };
        if emit_ops {
            writeln!(out.ops, "keyFrom {name} {i}").unwrap();
            writeln!(out.imp, "{line}").unwrap();
            out.n_ops += 1;
        }
        // ---- oracle (C11), on the implementation's own answers
        out.n_oracle_checks += 1;
        let expect_some = (i as u128) < cap;
        match &got {
            Ok(Some(k)) => {
                if !expect_some {
                    out.oracle.push(format!("{name}: try_from_usize({i}) succeeded beyond capacity {cap}"));
                }
                let kk = *k;
                let back = std::panic::catch_unwind(std::panic::AssertUnwindSafe(move || kk.into_usize()));
                let bline = match &back {
                    Ok(b) => format!("{b}"),
                    Err(_) => "fault".into(),
                };
                if emit_ops {
                    let raw = serde_json::to_string(k).unwrap_or_else(|_| "?".into());
                    writeln!(out.ops, "keyInto {name} {raw}").unwrap();
                    writeln!(out.imp, "{bline}").unwrap();
                    out.n_ops += 1;
                }
                if back.as_ref().ok() != Some(&i) {
                    out.oracle.push(format!("{name}: into_usize(try_from_usize({i})) = {bline}"));
                }
                // serde round trip
                match serde_json::to_string(k).ok().and_then(|s| serde_json::from_str::<K>(&s).ok()) {
                    Some(k2) if k2 == *k => {}
                    other => out.oracle.push(format!("{name}: serde round trip of index {i} gave {other:?}")),
                }
                // ... in every position serde can put a key: as a map key (JSON writes it as a string), inside a
                // sequence, and through the self-describing `Value`
                {
                    let mut m = std::collections::BTreeMap::new();
                    m.insert(*k, i);
                    let back = serde_json::to_string(&m).ok().and_then(|s| serde_json::from_str::<std::collections::BTreeMap<K, usize>>(&s).ok());
                    if back.as_ref() != Some(&m) {
                        out.oracle.push(format!("{name}: serde round trip of index {i} as a map key gave {back:?}"));
                    }
                    let v = vec![*k, *k];
                    let back = serde_json::to_string(&v).ok().and_then(|s| serde_json::from_str::<Vec<K>>(&s).ok());
                    if back.as_ref() != Some(&v) {
                        out.oracle.push(format!("{name}: serde round trip of index {i} inside a sequence gave {back:?}"));
                    }
                    let back = serde_json::to_value(k).ok().and_then(|v| serde_json::from_value::<K>(v).ok());
                    if back != Some(*k) {
                        out.oracle.push(format!("{name}: serde round trip of index {i} through serde_json::Value gave {back:?}"));
                    }
                }
                // raw value is index + 1
                if let Ok(raw) = serde_json::to_string(k) {
                    if raw.parse::<u128>().ok() != Some(i as u128 + 1) {
                        out.oracle.push(format!("{name}: index {i} serialises as {raw}"));
                    }
                }
                // ordering and distinctness against the previous successful index (indices ascend)
                if let Some((pi, pk)) = &prev {
                    if *pi < i && !(pk < k && pk != k) {
                        out.oracle.push(format!("{name}: keys of {pi} and {i} not ordered like their indices"));
                    }
                }
                prev = Some((i, *k));
                // ... and against keys far below: index 0 and the last key seen before each power of two
                // (an order computed from a wrapped difference is right for neighbours and wrong across half the range)
                for (ai, ak) in anchors.iter() {
                    let ok = ak < k && ak != k && ak.cmp(k) == std::cmp::Ordering::Less && k.cmp(ak) == std::cmp::Ordering::Greater
                        && ak.partial_cmp(k) == Some(std::cmp::Ordering::Less) && std::cmp::max(*ak, *k) == *k;
                    if !ok {
                        out.oracle.push(format!("{name}: keys of {ai} and {i} not ordered like their indices"));
                    }
                    out.n_oracle_checks += 1;
                }
                if anchors.is_empty() || (i + 1).is_power_of_two() || i.is_power_of_two() || (i >= 3 && (i - 1).is_power_of_two()) {
                    if anchors.len() < 200 {
                        anchors.push((i, *k));
                    }
                }
            }
            Ok(None) => {
                if expect_some {
                    out.oracle.push(format!("{name}: try_from_usize({i}) failed below capacity {cap}"));
                }
            }
            Err(_) => out.oracle.push(format!("{name}: try_from_usize({i}) panicked")),
        }
    }
    // default key is index 0, Option<K> is no larger than K
    if K::default().into_usize() != 0 {
        out.oracle.push(format!("{name}: default key is not index 0"));
    }
    if std::mem::size_of::<Option<K>>() != std::mem::size_of::<K>() {
        out.oracle.push(format!("{name}: Option<K> larger than K"));
    }
    out.n_oracle_checks += 2;
}

fn boundaries(cap: u128) -> Vec<usize> {
    let mut v: Vec<u128> = vec![0, 1, 2, 3, 127, 128, 254, 255, 256, 257, 65534, 65535, 65536, 65537];
    for d in [3u128, 2, 1] {
        v.push(cap.saturating_sub(d));
    }
    v.push(cap);
    v.push(cap + 1);
    v.push(cap + 2);
    for p in [31u32, 32, 33, 47, 63] {
        v.push((1u128 << p) - 2);
        v.push((1u128 << p) - 1);
        v.push(1u128 << p);
        v.push((1u128 << p) + 1);
    }
    v.push(u64::MAX as u128 - 1);
    v.push(u64::MAX as u128);
    let mut v: Vec<usize> = v.into_iter().filter(|x| *x <= u64::MAX as u128).map(|x| x as usize).collect();
    v.sort();
    v.dedup();
    v
}

fn main() {
    let args: Vec<String> = std::env::args().collect();
    let tier = args.get(1).map(|s| s.as_str()).unwrap_or("quick");
    let seed: u64 = args.get(2).and_then(|s| s.parse().ok()).unwrap_or(1);
    let prefix = args.get(3).cloned().unwrap_or_else(|| "/tmp/keys".into());
    std::panic::set_hook(Box::new(|_| {}));
    let mut out = Out {
        ops: std::io::BufWriter::new(std::fs::File::create(format!("{prefix}.ops")).unwrap()),
        imp: std::io::BufWriter::new(std::fs::File::create(format!("{prefix}.impl")).unwrap()),
        oracle: Vec::new(),
        n_ops: 0,
        n_oracle_checks: 0,
    };
    let mut rng = Rng::new(seed);
    let mut sampled = |n: usize, rng: &mut Rng| -> Vec<usize> {
        let mut v: Vec<usize> = (0..n)
            .map(|_| {
                let bits = rng.range(1, 64);
                (rng.next() >> (64 - bits)) as usize
            })
            .collect();
        v.sort();
        v.dedup();
        v
    };
    let n_samples = if tier == "thorough" { 200_000 } else { 5_000 };

    // 8-bit and 16-bit: every index up to well beyond capacity, all sent to the model too
    let mut idx8: Vec<usize> = (0..=1024).collect();
    idx8.extend(boundaries(255));
    idx8.extend(sampled(n_samples / 10, &mut rng));
    idx8.sort();
    idx8.dedup();
    run_type::<MicroSpur>("MicroSpur", 255, &idx8, &mut out, true);

    let mut idx16: Vec<usize> = (0..=70_000).collect();
    idx16.extend(boundaries(65535));
    idx16.extend(sampled(n_samples / 10, &mut rng));
    idx16.sort();
    idx16.dedup();
    run_type::<MiniSpur>("MiniSpur", 65535, &idx16, &mut out, true);

    // 32-bit: boundaries + samples to the model; thorough additionally sweeps all 2^32 indices
    // through the oracle only (closed form proved equal to the model's evaluation in C11.lean)
    let mut idx32 = boundaries(u32::MAX as u128);
    idx32.extend(sampled(n_samples, &mut rng));
    idx32.extend((0..2000).map(|i| u32::MAX as usize - 1000 + i));
    idx32.sort();
    idx32.dedup();
    run_type::<Spur>("Spur", u32::MAX as u128, &idx32, &mut out, true);
    let mut swept32 = 0u64;
    if tier == "thorough" {
        // chunked so that `prev` ordering check stays local; no ops emitted
        let all: Vec<usize> = Vec::new();
        drop(all);
        let mut prev: Option<Spur> = None;
        for i in 0..=(u32::MAX as usize + 4096) {
            let k = Spur::try_from_usize(i);
            let ok = match k {
                Some(k) => {
                    let far = i == 0 || (Spur::try_from_usize(0).map(|z| z < k && k > z).unwrap_or(false) && Spur::try_from_usize(i / 2).map(|h| i / 2 == i || (h < k && k > h)).unwrap_or(false));
                    let good = i < u32::MAX as usize && k.into_usize() == i && k.into_inner().get() as usize == i + 1 && prev.map(|p| p < k).unwrap_or(true) && far;
                    prev = Some(k);
                    good
                }
                None => i >= u32::MAX as usize,
            };
            if !ok {
                out.oracle.push(format!("Spur: full sweep fails at index {i}"));
                if out.oracle.len() > 20 {
                    break;
                }
            }
            swept32 += 1;
        }
    }

    let mut idx64 = boundaries(u64::MAX as u128);
    idx64.extend(sampled(n_samples, &mut rng));
    idx64.sort();
    idx64.dedup();
    run_type::<LargeSpur>("LargeSpur", u64::MAX as u128, &idx64, &mut out, true);

    out.ops.flush().unwrap();
    out.imp.flush().unwrap();
    let mut f = std::fs::File::create(format!("{prefix}.oracle")).unwrap();
    for l in &out.oracle {
        writeln!(f, "C11 {l}").unwrap();
    }
    let mut f = std::fs::File::create(format!("{prefix}.stats")).unwrap();
    writeln!(
        f,
        "{{\"ops\": {}, \"oracle_checks\": {}, \"oracle_failures\": {}, \"micro_indices\": {}, \"mini_indices\": {}, \"spur_indices\": {}, \"spur_full_sweep\": {}, \"large_indices\": {}, \"exhaustive_8_16\": true}}",
        out.n_ops,
        out.n_oracle_checks + swept32,
        out.oracle.len(),
        idx8.len(),
        idx16.len(),
        idx32.len(),
        swept32,
        idx64.len()
    )
    .unwrap();
}
