//! Uncontrolled stress runs of the concurrent interner (no schedule hooks installed): a search aid for
//! failing inputs when a proof obligation or the schedule correspondence of C05 / C09 no longer checks,
//! and a sanity run in the thorough tier.  Nothing here stands in for a theorem.
//!
//!   stress c09 <iterations> <threads> <seed>
//!   stress c05 <iterations> <threads> <seed>
//!
//! One line `ORACLE <prop> <what>` per failed oracle (at most 20), then `stats ...`.

use harness::Rng;
use lasso::{Capacity, MemoryLimits, Spur, ThreadedRodeo};
use std::num::NonZeroUsize;
use std::sync::atomic::{AtomicBool, AtomicUsize, Ordering};
use std::sync::Arc;

fn spin_barrier(arrived: &AtomicUsize, n: usize) {
    arrived.fetch_add(1, Ordering::SeqCst);
    while arrived.load(Ordering::SeqCst) < n {
        std::hint::spin_loop();
    }
}

/// Every call needs a new block; the limit admits only some of them.
fn c09(iters: usize, threads: usize, seed: u64) -> (Vec<String>, String) {
    let mut rng = Rng::new(seed);
    let mut fails = Vec::new();
    let mut max_seen_over = 0usize;
    let mut errs = 0usize;
    let mut oks = 0usize;
    for it in 0..iters {
        let block = *rng.pick(&[4usize, 8, 10, 16]);
        let extra = rng.range(1, (threads as u64) * 3) as usize;
        // blocks double: the limit sits somewhere inside the next few blocks
        let limit = block + extra * block + rng.below(block as u64) as usize;
        let rodeo: Arc<ThreadedRodeo<Spur>> = Arc::new(ThreadedRodeo::with_capacity_and_memory_limits(
            Capacity::new(64, NonZeroUsize::new(block).unwrap()),
            MemoryLimits::for_memory_usage(limit),
        ));
        let arrived = Arc::new(AtomicUsize::new(0));
        let stop = Arc::new(AtomicBool::new(false));
        let over = Arc::new(AtomicUsize::new(0));
        // an observer thread reads the usage all the time
        let obs = {
            let (rodeo, stop, over) = (rodeo.clone(), stop.clone(), over.clone());
            std::thread::spawn(move || {
                while !stop.load(Ordering::Relaxed) {
                    let u = rodeo.current_memory_usage();
                    if u > limit {
                        over.fetch_max(u, Ordering::Relaxed);
                    }
                }
            })
        };
        let mut hs = Vec::new();
        for t in 0..threads {
            let (rodeo, arrived, over) = (rodeo.clone(), arrived.clone(), over.clone());
            hs.push(std::thread::spawn(move || {
                let mut res = (0usize, 0usize);
                spin_barrier(&arrived, threads);
                for j in 0..3 {
                    // as long as a block: never fits what is left of a shared block
                    let s = format!("{:0width$}", t * 10 + j, width = block);
                    match rodeo.try_get_or_intern(&s) {
                        Ok(_) => res.0 += 1,
                        Err(_) => res.1 += 1,
                    }
                    let u = rodeo.current_memory_usage();
                    if u > limit {
                        over.fetch_max(u, Ordering::Relaxed);
                    }
                }
                res
            }));
        }
        for h in hs {
            let (o, e) = h.join().unwrap();
            oks += o;
            errs += e;
        }
        stop.store(true, Ordering::Relaxed);
        obs.join().unwrap();
        let usage = rodeo.current_memory_usage();
        let blocks = rodeo.verif_blocks();
        let held: usize = blocks.iter().map(|b| b.1).sum();
        let seen = over.load(Ordering::Relaxed);
        if seen > limit && fails.len() < 20 {
            max_seen_over = max_seen_over.max(seen);
            fails.push(format!(
                "ORACLE C09 usage-above-limit: {threads} threads each interning 3 distinct {block}-byte strings into a ThreadedRodeo with {block}-byte blocks and limit {limit}: current_memory_usage() reported {seen} (iteration {it}, seed {seed})"
            ));
        }
        if usage != held && fails.len() < 20 {
            fails.push(format!(
                "ORACLE C09 usage-not-held: at quiescence current_memory_usage() = {usage} but the blocks hold {held} bytes ({} blocks; block {block}, limit {limit}, iteration {it}, seed {seed})",
                blocks.len()
            ));
        }
    }
    (fails, format!("stats c09 iterations={iters} threads={threads} ok_calls={oks} err_calls={errs}"))
}

/// Threads store strings of mixed sizes into shared small blocks.
fn c05(iters: usize, threads: usize, seed: u64) -> (Vec<String>, String) {
    let mut rng = Rng::new(seed);
    let mut fails = Vec::new();
    let mut strings = 0usize;
    let mut nblocks = 0usize;
    for it in 0..iters {
        let block = *rng.pick(&[8usize, 16, 32, 64]);
        let per = 12usize;
        let rodeo: Arc<ThreadedRodeo<Spur>> = Arc::new(ThreadedRodeo::with_capacity(Capacity::new(64, NonZeroUsize::new(block).unwrap())));
        let arrived = Arc::new(AtomicUsize::new(0));
        let mut hs = Vec::new();
        for t in 0..threads {
            let (rodeo, arrived) = (rodeo.clone(), arrived.clone());
            let mut r = Rng::new(seed ^ ((it as u64) << 20) ^ (t as u64));
            hs.push(std::thread::spawn(move || {
                let mut mine: Vec<(String, Spur)> = Vec::new();
                let mut bad = Vec::new();
                spin_barrier(&arrived, threads);
                for j in 0..per {
                    let hi = if r.chance(1, 8) { (block as u64) * 2 } else { 6 };
                    let len = r.range(1, hi) as usize;
                    let mut s = format!("{t:x}.{j:x}.");
                    while s.len() < len + 4 {
                        s.push((b'a' + (r.below(26) as u8)) as char);
                    }
                    let k = rodeo.get_or_intern(&s);
                    // every string this thread stored so far is still intact
                    for (x, kx) in mine.iter().chain(std::iter::once(&(s.clone(), k))) {
                        if rodeo.resolve(kx) != x.as_str() {
                            bad.push(format!("torn-or-altered: key of {x:?} resolves to {:?}", rodeo.resolve(kx)));
                        }
                    }
                    mine.push((s, k));
                }
                (mine, bad)
            }));
        }
        let mut all: Vec<(String, Spur)> = Vec::new();
        for h in hs {
            let (mine, bad) = h.join().unwrap();
            for b in bad {
                if fails.len() < 20 {
                    fails.push(format!("ORACLE C05 {b} (block {block}, {threads} threads, iteration {it}, seed {seed})"));
                }
            }
            all.extend(mine);
        }
        let blocks = rodeo.verif_blocks();
        nblocks += blocks.len();
        strings += all.len();
        // every string lies inside the used prefix of exactly one block; regions are disjoint
        let mut regions: Vec<(usize, usize, &str)> = Vec::new();
        for (x, k) in &all {
            let got = rodeo.resolve(k);
            if got != x.as_str() && fails.len() < 20 {
                fails.push(format!("ORACLE C05 torn-or-altered at quiescence: {x:?} resolves to {got:?} (block {block}, iteration {it}, seed {seed})"));
            }
            let a = got.as_ptr() as usize;
            let inside = blocks.iter().filter(|b| a >= b.0 && a + got.len() <= b.0 + b.2 && b.2 <= b.1).count();
            if inside != 1 && fails.len() < 20 {
                fails.push(format!("ORACLE C05 region-outside-blocks: {x:?} lies in {inside} blocks' reserved prefix (block {block}, iteration {it}, seed {seed})"));
            }
            regions.push((a, got.len(), x.as_str()));
        }
        regions.sort();
        for w in regions.windows(2) {
            if w[0].0 + w[0].1 > w[1].0 && fails.len() < 20 {
                fails.push(format!("ORACLE C05 regions-overlap: {:?} and {:?} overlap (block {block}, iteration {it}, seed {seed})", w[0].2, w[1].2));
            }
        }
        // no block lost: the usage counter is the sum of the blocks reachable from the list
        let held: usize = blocks.iter().map(|b| b.1).sum();
        if held != rodeo.current_memory_usage() && fails.len() < 20 {
            fails.push(format!(
                "ORACLE C05 block-lost: usage {} but the list holds {held} bytes in {} blocks (block {block}, iteration {it}, seed {seed})",
                rodeo.current_memory_usage(),
                blocks.len()
            ));
        }
        let used: usize = blocks.iter().map(|b| b.2).sum();
        let stored: usize = all.iter().map(|(x, _)| x.len()).sum();
        if used != stored && fails.len() < 20 {
            fails.push(format!("ORACLE C05 reserved-bytes-mismatch: blocks have {used} reserved bytes, strings total {stored} (block {block}, iteration {it}, seed {seed})"));
        }
    }
    (fails, format!("stats c05 iterations={iters} threads={threads} strings={strings} blocks={nblocks}"))
}

fn main() {
    let a: Vec<String> = std::env::args().collect();
    std::panic::set_hook(Box::new(|_| {}));
    let iters: usize = a[2].parse().unwrap();
    let threads: usize = a[3].parse().unwrap();
    let seed: u64 = a[4].parse().unwrap();
    let r = std::panic::catch_unwind(|| match a[1].as_str() {
        "c09" => c09(iters, threads, seed),
        _ => c05(iters, threads, seed),
    });
    let out = std::io::stdout();
    let mut out = out.lock();
    use std::io::Write;
    match r {
        Ok((fails, stats)) => {
            for f in fails {
                writeln!(out, "{f}").unwrap();
            }
            writeln!(out, "{stats}").unwrap();
        }
        Err(e) => {
            let msg = e.downcast_ref::<String>().cloned().or_else(|| e.downcast_ref::<&str>().map(|s| s.to_string())).unwrap_or_default();
            writeln!(out, "ORACLE {} panic during the stress run: {msg}", if a[1] == "c09" { "C09" } else { "C05" }).unwrap();
        }
    }
}
