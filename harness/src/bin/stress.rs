//! Uncontrolled stress runs of the concurrent interner (no schedule hooks installed): a search aid for
//! failing inputs when a proof obligation or the schedule correspondence of C05 / C09 no longer checks,
//! and a sanity run in the thorough tier.  Nothing here stands in for a theorem.
//!
//!   stress c09 <iterations> <threads> <seed>
//!   stress c05 <iterations> <threads> <seed>
//!   stress c03 <iterations> <threads> <seed>
//!
//! One line `ORACLE <prop> <what>` per failed oracle (at most 20), then `stats ...`.

use harness::Rng;
use lasso::{Capacity, Key, MemoryLimits, Spur, ThreadedRodeo};
use std::collections::BTreeMap;
use std::num::NonZeroUsize;
use std::sync::atomic::{AtomicBool, AtomicUsize, Ordering};
use std::sync::Arc;

static FIRST_PANIC: std::sync::Mutex<String> = std::sync::Mutex::new(String::new());

/// Strings in reports: long ones are cut (a megabyte string must not become a megabyte report).
fn cut(s: &str) -> String {
    if s.len() <= 80 {
        format!("{s:?}")
    } else {
        let mut e = 60;
        while !s.is_char_boundary(e) {
            e -= 1;
        }
        format!("{:?}...({} bytes)", &s[..e], s.len())
    }
}

fn spin_barrier(arrived: &AtomicUsize, n: usize) {
    arrived.fetch_add(1, Ordering::SeqCst);
    while arrived.load(Ordering::SeqCst) < n {
        std::hint::spin_loop();
    }
}

/// Every call needs a new block; the limit admits only some of them.
fn c09(iters: usize, threads: usize, seed: u64) -> (Vec<String>, String) {
    let mut rng = Rng::new(seed);
    let mut fails = Vec::new();
    let mut max_seen_over = 0usize;
    let mut errs = 0usize;
    let mut oks = 0usize;
    for it in 0..iters {
        let block = *rng.pick(&[4usize, 8, 10, 16]);
        let extra = rng.range(1, (threads as u64) * 3) as usize;
        // blocks double: the limit sits somewhere inside the next few blocks
        let limit = block + extra * block + rng.below(block as u64) as usize;
        let rodeo: Arc<ThreadedRodeo<Spur>> = Arc::new(ThreadedRodeo::with_capacity_and_memory_limits(
            Capacity::new(64, NonZeroUsize::new(block).unwrap()),
            MemoryLimits::for_memory_usage(limit),
        ));
        let arrived = Arc::new(AtomicUsize::new(0));
        let stop = Arc::new(AtomicBool::new(false));
        let over = Arc::new(AtomicUsize::new(0));
        // an observer thread reads the usage all the time
        let obs = {
            let (rodeo, stop, over) = (rodeo.clone(), stop.clone(), over.clone());
            std::thread::spawn(move || {
                while !stop.load(Ordering::Relaxed) {
                    let u = rodeo.current_memory_usage();
                    if u > limit {
                        over.fetch_max(u, Ordering::Relaxed);
                    }
                }
            })
        };
        // every third round the limit changes while the threads intern (between `limit` and a lower
        // value): the bound that must hold is the highest limit ever in force, i.e. `limit`
        let toggler = if it % 3 == 1 {
            let (rodeo, stop) = (rodeo.clone(), stop.clone());
            let low = limit.saturating_sub(block).max(1);
            Some(std::thread::spawn(move || {
                let mut k = 0usize;
                while !stop.load(Ordering::Relaxed) {
                    rodeo.set_memory_limits(MemoryLimits::for_memory_usage(if k % 2 == 0 { low } else { limit }));
                    k += 1;
                }
                rodeo.set_memory_limits(MemoryLimits::for_memory_usage(limit));
            }))
        } else {
            None
        };
        let mut hs = Vec::new();
        for t in 0..threads {
            let (rodeo, arrived, over) = (rodeo.clone(), arrived.clone(), over.clone());
            hs.push(std::thread::spawn(move || {
                let mut res = (0usize, 0usize);
                spin_barrier(&arrived, threads);
                for j in 0..3 {
                    // as long as a block: never fits what is left of a shared block
                    let s = format!("{:0width$}", t * 10 + j, width = block);
                    match rodeo.try_get_or_intern(&s) {
                        Ok(_) => res.0 += 1,
                        Err(_) => res.1 += 1,
                    }
                    let u = rodeo.current_memory_usage();
                    if u > limit {
                        over.fetch_max(u, Ordering::Relaxed);
                    }
                }
                res
            }));
        }
        for h in hs {
            let (o, e) = h.join().unwrap();
            oks += o;
            errs += e;
        }
        stop.store(true, Ordering::Relaxed);
        obs.join().unwrap();
        if let Some(t) = toggler {
            t.join().unwrap();
        }
        let usage = rodeo.current_memory_usage();
        let blocks = rodeo.verif_blocks();
        let held: usize = blocks.iter().map(|b| b.1).sum();
        let seen = over.load(Ordering::Relaxed);
        if seen > limit && fails.len() < 20 {
            max_seen_over = max_seen_over.max(seen);
            fails.push(format!(
                "ORACLE C09 usage-above-limit: {threads} threads each interning 3 distinct {block}-byte strings into a ThreadedRodeo with {block}-byte blocks and limit {limit}: current_memory_usage() reported {seen} (iteration {it}, seed {seed})"
            ));
        }
        if usage != held && fails.len() < 20 {
            fails.push(format!(
                "ORACLE C09 usage-not-held: at quiescence current_memory_usage() = {usage} but the blocks hold {held} bytes ({} blocks; block {block}, limit {limit}, iteration {it}, seed {seed})",
                blocks.len()
            ));
        }
    }
    (fails, format!("stats c09 iterations={iters} threads={threads} ok_calls={oks} err_calls={errs}"))
}

/// Threads store strings of mixed sizes into shared small blocks.
fn c05(iters: usize, threads: usize, seed: u64) -> (Vec<String>, String) {
    let mut rng = Rng::new(seed);
    let mut fails = Vec::new();
    let mut strings = 0usize;
    let mut nblocks = 0usize;
    for it in 0..iters {
        // every fifth round uses the 8-bit key type and enough strings to exhaust it while threads in different
        // shards are reserving: whatever the interner does with a string that gets no key must not disturb the
        // regions of the strings that did
        if it % 5 == 4 {
            c05_round::<lasso::MicroSpur>(it, threads, seed, &mut rng, &mut fails, &mut strings, &mut nblocks, 44);
        } else {
            c05_round::<Spur>(it, threads, seed, &mut rng, &mut fails, &mut strings, &mut nblocks, 12);
        }
    }
    (fails, format!("stats c05 iterations={iters} threads={threads} strings={strings} blocks={nblocks}"))
}

#[allow(clippy::too_many_arguments)]
fn c05_round<K: lasso::Key + std::hash::Hash + Send + Sync + 'static>(
    it: usize, threads: usize, seed: u64, rng: &mut Rng, fails: &mut Vec<String>, strings_total: &mut usize, nblocks_total: &mut usize, per: usize,
) {
    let exhausting = per > 12;
    {
        // every fourth round: 1 MiB blocks under a 2.5 MiB limit, thread 0 stores one string of 1 MiB + 16 bytes
        // (it needs the block made of "whatever budget is left", and copying it takes a while) while the
        // others store short strings; every third of the remaining rounds: a limit a few blocks away, so that
        // the remaining-budget branch and refusals happen while others reserve
        let long_copy = it % 4 == 3;
        let block = if long_copy { 1usize << 20 } else { *rng.pick(&[8usize, 16, 32, 64]) };
        let limit = if long_copy {
            Some((5usize << 19) + rng.below(64) as usize)
        } else if it % 3 == 1 {
            Some(block * (2 + rng.below(12) as usize) + 1 + rng.below(block as u64) as usize)
        } else {
            None
        };
        let rodeo: Arc<ThreadedRodeo<K>> = Arc::new(match limit {
            Some(l) => ThreadedRodeo::with_capacity_and_memory_limits(Capacity::new(64, NonZeroUsize::new(block).unwrap()), lasso::MemoryLimits::for_memory_usage(l)),
            None => ThreadedRodeo::with_capacity(Capacity::new(64, NonZeroUsize::new(block).unwrap())),
        });
        let arrived = Arc::new(AtomicUsize::new(0));
        let mut hs = Vec::new();
        for t in 0..threads {
            let (rodeo, arrived) = (rodeo.clone(), arrived.clone());
            let mut r = Rng::new(seed ^ ((it as u64) << 20) ^ (t as u64));
            hs.push(std::thread::spawn(move || {
                let mut mine: Vec<(String, K)> = Vec::new();
                let mut bad = Vec::new();
                spin_barrier(&arrived, threads);
                for j in 0..per {
                    let hi = if long_copy { 24 } else if r.chance(1, 8) { (block as u64) * 2 } else { 6 };
                    let len = if long_copy && t == 0 && j == 0 { (1usize << 20) + 12 } else { r.range(1, hi) as usize };
                    let mut s = format!("{t:x}.{j:x}.");
                    if len > 4096 {
                        // fill quickly, deterministically
                        let pad = len + 4 - s.len();
                        s.extend(std::iter::repeat((b'a' + (t as u8 % 26)) as char).take(pad));
                    }
                    while s.len() < len + 4 {
                        s.push((b'a' + (r.below(26) as u8)) as char);
                    }
                    // (under a limit a call may be refused: that string is simply not stored)
                    let k = match rodeo.try_get_or_intern(&s) {
                        Ok(k) => k,
                        Err(_) if limit.is_some() || exhausting => continue,
                        Err(e) => {
                            bad.push(format!("intern-failed-without-limit: {e:?}"));
                            continue;
                        }
                    };
                    // every string this thread stored so far is still intact
                    for (x, kx) in mine.iter().chain(std::iter::once(&(s.clone(), k))) {
                        if rodeo.resolve(kx) != x.as_str() {
                            bad.push(format!("torn-or-altered: key of {} resolves to {}", cut(x), cut(rodeo.resolve(kx))));
                        }
                    }
                    mine.push((s, k));
                }
                (mine, bad)
            }));
        }
        let mut all: Vec<(String, K)> = Vec::new();
        for h in hs {
            let (mine, bad) = h.join().unwrap();
            for b in bad {
                if fails.len() < 20 {
                    fails.push(format!("ORACLE C05 {b} (block {block}, {threads} threads, iteration {it}, seed {seed})"));
                }
            }
            all.extend(mine);
        }
        let blocks = rodeo.verif_blocks();
        *nblocks_total += blocks.len();
        *strings_total += all.len();
        // every string lies inside the used prefix of exactly one block; regions are disjoint
        let mut regions: Vec<(usize, usize, &str)> = Vec::new();
        for (x, k) in &all {
            let got = rodeo.resolve(k);
            if got != x.as_str() && fails.len() < 20 {
                fails.push(format!("ORACLE C05 torn-or-altered at quiescence: {} resolves to {} (block {block}, iteration {it}, seed {seed})", cut(x), cut(got)));
            }
            let a = got.as_ptr() as usize;
            let inside = blocks.iter().filter(|b| a >= b.0 && a + got.len() <= b.0 + b.2 && b.2 <= b.1).count();
            if inside != 1 && fails.len() < 20 {
                fails.push(format!("ORACLE C05 region-outside-blocks: {} lies in {inside} blocks' reserved prefix (block {block}, iteration {it}, seed {seed})", cut(x)));
            }
            regions.push((a, got.len(), x.as_str()));
        }
        regions.sort();
        for w in regions.windows(2) {
            if w[0].0 + w[0].1 > w[1].0 && fails.len() < 20 {
                fails.push(format!("ORACLE C05 regions-overlap: {} and {} overlap (block {block}, iteration {it}, seed {seed})", cut(w[0].2), cut(w[1].2)));
            }
        }
        // no block lost: the usage counter is the sum of the blocks reachable from the list
        let held: usize = blocks.iter().map(|b| b.1).sum();
        if held != rodeo.current_memory_usage() && fails.len() < 20 {
            fails.push(format!(
                "ORACLE C05 block-lost: usage {} but the list holds {held} bytes in {} blocks (block {block}, iteration {it}, seed {seed})",
                rodeo.current_memory_usage(),
                blocks.len()
            ));
        }
        let used: usize = blocks.iter().map(|b| b.2).sum();
        let stored: usize = all.iter().map(|(x, _)| x.len()).sum();
        // (a string refused for lack of keys has already been copied into the arena: only without such refusals
        // do the reserved bytes equal the bytes of the stored strings)
        if !exhausting && used != stored && fails.len() < 20 {
            fails.push(format!("ORACLE C05 reserved-bytes-mismatch: blocks have {used} reserved bytes, strings total {stored} (block {block}, iteration {it}, seed {seed})"));
        }
    }
}

/// Same-string and different-string races on the interning path, incl. racing for the last keys of an
/// 8-bit key type.  Oracles of C03 (also the concurrent clauses of C01, C02, C07, C10).
fn c03_round<K: lasso::Key + std::hash::Hash + Send + Sync + 'static>(
    it: usize,
    threads: usize,
    per: usize,
    shared: usize,
    capacity: Option<usize>,
    seed: u64,
    fails: &mut Vec<String>,
) -> (usize, usize) {
    let rodeo: Arc<ThreadedRodeo<K>> = Arc::new(ThreadedRodeo::with_capacity(Capacity::new(8, NonZeroUsize::new(16).unwrap())));
    let arrived = Arc::new(AtomicUsize::new(0));
    let mut hs = Vec::new();
    for t in 0..threads {
        let (rodeo, arrived) = (rodeo.clone(), arrived.clone());
        let mut r = Rng::new(seed ^ ((it as u64) << 24) ^ ((t as u64) << 8) ^ 0x5bd1);
        hs.push(std::thread::spawn(move || {
            let mut told: Vec<(String, usize)> = Vec::new();
            let mut failed: Vec<String> = Vec::new();
            let mut bad: Vec<String> = Vec::new();
            spin_barrier(&arrived, threads);
            for j in 0..per {
                // a shared string (raced by several threads) or one of this thread's own
                // near the end of the key space: new strings that several threads ask for at the same moment
                let near_end = capacity.map(|c| (j + 1) * threads + 48 >= c).unwrap_or(false);
                let s = if near_end && r.chance(1, 2) {
                    // long strings: hashing them keeps the caller between its lookup and whatever comes next for a while
                    let n = r.below(64);
                    let mut l = format!("late-{n}-");
                    l.extend(std::iter::repeat('x').take(if n % 2 == 0 { 48 * 1024 } else { 0 }));
                    l
                } else if r.chance(1, 3) {
                    format!("shared-{}", r.below(shared as u64))
                } else {
                    format!("t{t}-{j}")
                };
                let res = if r.chance(1, 5) {
                    let st: &'static str = Box::leak(s.clone().into_boxed_str());
                    rodeo.try_get_or_intern_static(st)
                } else {
                    rodeo.try_get_or_intern(&s)
                };
                match res {
                    Ok(k) => {
                        // resolves at once, and a lookup finds exactly this key
                        if rodeo.try_resolve(&k) != Some(s.as_str()) {
                            bad.push(format!("key-resolves-wrong: key {} returned for {s:?} resolves to {:?} right after the call", k.into_usize(), rodeo.try_resolve(&k)));
                        }
                        match rodeo.get(&s) {
                            Some(g) if g.into_usize() == k.into_usize() => {}
                            other => bad.push(format!("lookup-after-intern: get({s:?}) = {:?} after interning returned key {}", other.map(|x| x.into_usize()), k.into_usize())),
                        }
                        told.push((s, k.into_usize()));
                    }
                    Err(_) => failed.push(s),
                }
                if r.chance(1, 4) {
                    // a key obtained through a lookup resolves too
                    let probe = format!("shared-{}", r.below(shared as u64));
                    if let Some(k) = rodeo.get(&probe) {
                        if rodeo.try_resolve(&k) != Some(probe.as_str()) {
                            bad.push(format!("looked-up-key-resolves-wrong: get({probe:?}) = {} resolves to {:?}", k.into_usize(), rodeo.try_resolve(&k)));
                        }
                        told.push((probe, k.into_usize()));
                    }
                }
            }
            (told, failed, bad)
        }));
    }
    let mut told: Vec<(String, usize)> = Vec::new();
    let mut failed: Vec<String> = Vec::new();
    let ctx = format!("{threads} threads x {per} calls, {} keys, iteration {it}, seed {seed}", capacity.map(|c| c.to_string()).unwrap_or_else(|| "2^32".into()));
    for h in hs {
        let (t, f, bad) = h.join().unwrap();
        for b in bad {
            if fails.len() < 20 {
                fails.push(format!("ORACLE C03 {b} ({ctx})"));
            }
        }
        told.extend(t);
        failed.extend(f);
    }
    let mut by_string: BTreeMap<&str, usize> = BTreeMap::new();
    let mut by_key: BTreeMap<usize, &str> = BTreeMap::new();
    for (s, k) in &told {
        if let Some(k0) = by_string.insert(s.as_str(), *k) {
            if k0 != *k && fails.len() < 20 {
                fails.push(format!("ORACLE C03 two-keys-for-one-string: {s:?} was given keys {k0} and {k} ({ctx})"));
            }
        }
        if let Some(s0) = by_key.insert(*k, s.as_str()) {
            if s0 != s.as_str() && fails.len() < 20 {
                fails.push(format!("ORACLE C03 one-key-for-two-strings: key {k} was given for {s0:?} and for {s:?} ({ctx})"));
            }
        }
    }
    let count = by_string.len();
    // still valid at quiescence
    for (s, k) in &by_string {
        let key = K::try_from_usize(*k).unwrap();
        if rodeo.try_resolve(&key) != Some(*s) && fails.len() < 20 {
            fails.push(format!("ORACLE C03 key-resolves-wrong at quiescence: key {k} of {s:?} resolves to {:?} ({ctx})", rodeo.try_resolve(&key)));
        }
        if rodeo.get(*s).map(|x| x.into_usize()) != Some(*k) && fails.len() < 20 {
            fails.push(format!("ORACLE C03 lookup-lost at quiescence: get({s:?}) = {:?}, interning had returned {k} ({ctx})", rodeo.get(*s).map(|x| x.into_usize())));
        }
    }
    let dense = by_key.keys().copied().eq(0..count);
    if !dense && fails.len() < 20 {
        let keys: Vec<usize> = by_key.keys().copied().take(12).collect();
        fails.push(format!("ORACLE C03 keys-not-dense: {count} distinct strings were interned but the keys in use are not 0..{count} (first keys {keys:?}) ({ctx})"));
    }
    if rodeo.len() != count && fails.len() < 20 {
        fails.push(format!("ORACLE C03 len-disagrees: len() = {} with {count} distinct strings interned ({ctx})", rodeo.len()));
    }
    if let Some(cap) = capacity {
        // C07: exactly `cap` distinct strings are admitted when more are offered
        let mut offered: Vec<&str> = failed.iter().map(|s| s.as_str()).chain(by_string.keys().copied()).collect();
        offered.sort();
        offered.dedup();
        if offered.len() > cap && count != cap && fails.len() < 20 {
            fails.push(format!("ORACLE C03 capacity-not-exact: {} distinct strings offered to a {cap}-key interner, {count} admitted ({ctx})", offered.len()));
        }
        if count > cap && fails.len() < 20 {
            fails.push(format!("ORACLE C03 more-keys-than-capacity: {count} strings hold keys of a {cap}-key type ({ctx})"));
        }
        for s in &failed {
            if by_string.contains_key(s.as_str()) {
                // keys are never given back: a call refused for lack of keys means the string was absent with every
                // key in use, so it can never be interned afterwards - and had it been interned before, the call
                // had to return its key
                if fails.len() < 20 {
                    fails.push(format!("ORACLE C07 refused-although-interned: a call interning {} was refused, yet the string holds key {} ({ctx})", cut(s), by_string[s.as_str()]));
                }
                continue;
            }
            if rodeo.get(s).is_some() && fails.len() < 20 {
                fails.push(format!("ORACLE C03 failed-intern-visible: interning {s:?} failed for every caller but get finds it ({ctx})"));
            }
        }
    }
    (told.len(), failed.len())
}

fn c03(iters: usize, threads: usize, seed: u64) -> (Vec<String>, String) {
    let mut fails = Vec::new();
    let (mut oks, mut errs) = (0, 0);
    for it in 0..iters {
        let (o, e) = if it % 3 == 2 {
            // racing for the last keys of an 8-bit key type
            let per = 255 / threads + 40;
            c03_round::<lasso::MicroSpur>(it, threads, per, 24, Some(255), seed, &mut fails)
        } else {
            c03_round::<Spur>(it, threads, 40, 16, None, seed, &mut fails)
        };
        oks += o;
        errs += e;
    }
    (fails, format!("stats c03 iterations={iters} threads={threads} keys_told={oks} failed_calls={errs}"))
}

/// Views shared by reference between threads (C06: "any number of threads may query a view at once"; C19: "sharing
/// a reader or resolver with ordinary keys and hashers compiles and works"): every thread asks for its own strings,
/// every answer is checked against what the source handed out.
fn views(iters: usize, threads: usize, seed: u64) -> (Vec<String>, String) {
    use lasso::{Rodeo, RodeoReader, RodeoResolver};
    let mut fails: Vec<String> = Vec::new();
    let mut lookups = 0usize;
    for it in 0..iters {
        let n = 24 + (it % 5) * 8;
        // same-length words (a torn memo of pointer / length / index would go unnoticed otherwise less often)
        let words: Vec<String> = (0..n).map(|i| format!("w{:03}-{:02}", i, it % 100)).collect();
        let (reader, resolver, keys): (RodeoReader<Spur>, RodeoResolver<Spur>, Vec<Spur>) = if it % 2 == 0 {
            let mut r: Rodeo<Spur> = Rodeo::with_capacity(Capacity::new(4, NonZeroUsize::new(32).unwrap()));
            let keys: Vec<Spur> = words.iter().map(|w| r.get_or_intern(w)).collect();
            let mut r2: Rodeo<Spur> = Rodeo::new();
            for w in &words {
                r2.get_or_intern(w);
            }
            (r.into_reader(), r2.into_resolver(), keys)
        } else {
            let t: ThreadedRodeo<Spur> = ThreadedRodeo::with_capacity(Capacity::new(4, NonZeroUsize::new(32).unwrap()));
            let keys: Vec<Spur> = words.iter().map(|w| t.get_or_intern(w)).collect();
            let t2: ThreadedRodeo<Spur> = ThreadedRodeo::new();
            for w in &words {
                t2.get_or_intern(w);
            }
            (t.into_reader(), t2.into_resolver(), keys)
        };
        let (reader, resolver, words, keys) = (Arc::new(reader), Arc::new(resolver), Arc::new(words), Arc::new(keys));
        let arrived = Arc::new(AtomicUsize::new(0));
        let mut hs = Vec::new();
        for t in 0..threads {
            let (reader, resolver, words, keys, arrived) = (reader.clone(), resolver.clone(), words.clone(), keys.clone(), arrived.clone());
            let mut r = Rng::new(seed ^ ((it as u64) << 20) ^ ((t as u64) << 4) ^ 0x71e5);
            hs.push(std::thread::spawn(move || {
                let mut bad: Vec<String> = Vec::new();
                let mine: Vec<usize> = (0..words.len()).filter(|i| i % threads == t % words.len().max(1) || threads > words.len()).collect();
                spin_barrier(&arrived, threads);
                let mut done = 0usize;
                for j in 0..3000 {
                    let i = mine[(j + r.below(3) as usize) % mine.len()];
                    let (w, k) = (&words[i], keys[i]);
                    match reader.get(w.as_str()) {
                        Some(g) if g == k => {}
                        other => bad.push(format!("shared-view-wrong-answer: reader.get({w:?}) = {:?}, the key is {}", other.map(|x| x.into_usize()), k.into_usize())),
                    }
                    if !reader.contains(w.as_str()) || !reader.contains_key(&k) {
                        bad.push(format!("shared-view-wrong-answer: reader.contains / contains_key false for {w:?}"));
                    }
                    if reader.try_resolve(&k) != Some(w.as_str()) || reader.resolve(&k) != w.as_str() {
                        bad.push(format!("shared-view-wrong-answer: reader resolves key {} to {:?} instead of {w:?}", k.into_usize(), reader.try_resolve(&k)));
                    }
                    // (the resolver was filled in the same order: same keys)
                    if resolver.try_resolve(&k) != Some(w.as_str()) {
                        bad.push(format!("shared-view-wrong-answer: resolver resolves key {} to {:?} instead of {w:?}", k.into_usize(), resolver.try_resolve(&k)));
                    }
                    if j % 512 == 0 && (reader.len() != words.len() || reader.iter().count() != words.len() || resolver.len() != words.len()) {
                        bad.push("shared-view-wrong-answer: len / iteration count changed under concurrent readers".to_string());
                    }
                    done += 4;
                    if bad.len() > 3 {
                        break;
                    }
                }
                (bad, done)
            }));
        }
        for h in hs {
            let (bad, done) = h.join().unwrap();
            lookups += done;
            for b in bad {
                if fails.len() < 20 {
                    fails.push(format!("ORACLE C06 {b} ({threads} threads sharing one view, iteration {it}, seed {seed})"));
                }
            }
        }
        if !fails.is_empty() {
            break;
        }
    }
    (fails, format!("stats views iterations={iters} threads={threads} lookups={lookups}"))
}

fn main() {
    let a: Vec<String> = std::env::args().collect();
    // remember the first panic (message and location) of any thread
    std::panic::set_hook(Box::new(|info| {
        let mut g = FIRST_PANIC.lock().unwrap_or_else(|e| e.into_inner());
        if g.is_empty() {
            *g = info.to_string().replace('\n', " ");
        }
    }));
    let iters: usize = a[2].parse().unwrap();
    let threads: usize = a[3].parse().unwrap();
    let seed: u64 = a[4].parse().unwrap();
    let r = std::panic::catch_unwind(|| match a[1].as_str() {
        "c09" => c09(iters, threads, seed),
        "c03" => c03(iters, threads, seed),
        "views" => views(iters, threads, seed),
        _ => c05(iters, threads, seed),
    });
    let out = std::io::stdout();
    let mut out = out.lock();
    use std::io::Write;
    match r {
        Ok((fails, stats)) => {
            for f in fails {
                writeln!(out, "{f}").unwrap();
            }
            writeln!(out, "{stats}").unwrap();
        }
        Err(e) => {
            let _ = e;
            let msg = FIRST_PANIC.lock().unwrap_or_else(|e| e.into_inner()).clone();
            writeln!(out, "ORACLE {} panic-in-library: a thread panicked during the uncontrolled run: {msg}", a[1].to_uppercase()).unwrap();
        }
    }
}
