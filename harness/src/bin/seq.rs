//! Sequential correspondence stream.
//!   seq run  <profile> <tier> <seed> <prefix> [mult]   generate, execute (child processes), write stats
//!   seq exec <prefix> <from_case>                      (internal) execute cases >= from_case, appending
//!   seq file <opsfile> <prefix>                        execute a given ops file (replay / corpus)

use harness::gen::Gen;
use harness::seqrun::{install_panic_hook, KeyT, World};
use harness::{HashKind, SmallKey};
use std::io::{BufRead, Write};

/// Pool strings live in `store` (kept alive until every object of the case is gone) and are handed
/// out as `&'static str` with addresses of their own (also the empty ones).
fn make_pool(items: &[&str], store: &mut Vec<Box<str>>) -> Vec<&'static str> {
    let mut made: Vec<&'static str> = Vec::new();
    for h in items {
        let b = harness::unhex(h);
        // a proper, non-empty prefix of an earlier pool string shares that string's start address
        // (overlapping 'static slices are ordinary Rust: `&S[..n]` and `S`)
        let alias = made.iter().find(|m| !b.is_empty() && m.len() > b.len() && m.as_bytes().starts_with(&b) && m.is_char_boundary(b.len())).copied();
        // (never hand out the very same slice twice: equal pool strings stay distinguishable by address)
        let alias = alias.map(|m| &m[..b.len()]).filter(|c| !made.iter().any(|m| m.as_ptr() == c.as_ptr() && m.len() == c.len()));
        let s = match alias {
            Some(c) => c,
            None => make_one(&b, store),
        };
        made.push(s);
    }
    made
}

fn make_one(b: &[u8], store: &mut Vec<Box<str>>) -> &'static str {
    let b = b.to_vec();
    {
        {
            let empty = b.is_empty();
            let owned: Box<str> = if empty { String::from("x").into_boxed_str() } else { String::from_utf8(b).unwrap().into_boxed_str() };
            let s: &'static str = unsafe { std::mem::transmute::<&str, &'static str>(&*owned) };
            store.push(owned);
            if empty {
                &s[0..0]
            } else {
                s
            }
        }
    }
}

struct Sink {
    imp: std::fs::File,
    oracle: std::fs::File,
    journal: Option<String>,
}

fn merge(a: &mut std::collections::HashMap<String, u64>, b: &std::collections::HashMap<String, u64>) {
    for (k, v) in b {
        *a.entry(k.clone()).or_insert(0) += v;
    }
}

#[derive(Default)]
struct Totals {
    ops: u64,
    cases: u64,
    checks: u64,
    sweeps: u64,
    faults: u64,
    max_len: usize,
    leak_checked: u64,
    by_op: std::collections::HashMap<String, u64>,
    by_result: std::collections::HashMap<String, u64>,
    keys: std::collections::HashMap<String, u64>,
    hashers: std::collections::HashMap<String, u64>,
}

/// Runs one case; returns the answers, the oracle lines and the net change of allocated bytes over
/// the case (everything the case created has been dropped when it is measured).
fn run_case_once<K: KeyT>(case_no: u64, header: &str, hasher: HashKind, lines: &[String], tot: Option<&mut Totals>, keep: bool) -> (Vec<String>, Vec<String>, isize) {
    harness::seqrun::clear_last_panic();
    let mut answers: Vec<String> = Vec::new();
    let mut oracle: Vec<String> = Vec::new();
    let mut stats = None;
    let n0 = harness::net_bytes();
    let delta;
    {
        let mut store: Vec<Box<str>> = Vec::new();
        let mut world: Option<World<K>> = None;
        let mut local: Vec<String> = Vec::with_capacity(lines.len());
        for l in lines {
            let out = if l.starts_with("pool") {
                let items: Vec<&str> = l.split_whitespace().skip(1).collect();
                let pool = make_pool(&items, &mut store);
                let n = pool.len();
                world = Some(World::new(pool, hasher, case_no, header.to_string()));
                format!("pool {n}")
            } else {
                match world.as_mut() {
                    Some(w) => w.step(l),
                    None => "bad-op".into(),
                }
            };
            if keep {
                harness::seqrun::journal('A', &out);
            }
            local.push(out);
        }
        let mut local_oracle = Vec::new();
        let mut local_stats = None;
        if let Some(mut w) = world.take() {
            w.sweep();
            // drop every object first; a crash here is attributed to this case
            w.slots.clear();
            local_oracle = std::mem::take(&mut w.oracle);
            local_stats = Some(std::mem::take(&mut w.stats));
            drop(w);
        }
        drop(store);
        harness::seqrun::clear_last_panic();
        if keep {
            answers = local;
            oracle = local_oracle;
            stats = local_stats;
            delta = 0;
        } else {
            drop(local);
            drop(local_oracle);
            drop(local_stats);
            delta = harness::net_bytes() - n0;
        }
    }
    if let (Some(tot), Some(st)) = (tot, stats.as_ref()) {
        tot.ops += st.ops;
        tot.checks += st.oracle_checks;
        tot.sweeps += st.sweeps;
        tot.faults += st.faults;
        tot.max_len = tot.max_len.max(st.max_len);
        merge(&mut tot.by_op, &st.by_op);
        merge(&mut tot.by_result, &st.by_result);
        tot.cases += 1;
    }
    (answers, oracle, delta)
}

fn run_case<K: KeyT>(case_no: u64, header: &str, hasher: HashKind, lines: &[String], sink: &mut Sink, tot: &mut Totals) {
    // fresh journal for this case
    if let Some(j) = sink.journal.as_ref() {
        *harness::seqrun::JOURNAL.lock().unwrap() = std::fs::File::create(j).ok();
    }
    let (answers, oracle, _delta) = run_case_once::<K>(case_no, header, hasher, lines, Some(tot), true);
    *harness::seqrun::JOURNAL.lock().unwrap() = None;
    if let Some(j) = sink.journal.as_ref() {
        let _ = std::fs::write(j, "");
    }
    for a in &answers {
        writeln!(sink.imp, "{a}").unwrap();
    }
    for o in &oracle {
        writeln!(sink.oracle, "{o}").unwrap();
    }
    // leak / bad-free check: measured on a second and third run of the same case, so that one-time
    // lazy initialisations inside std or the dependencies are not mistaken for a leak
    if std::env::var("SEQ_NO_LEAK_RERUN").is_err() && (case_no % 4 == 0 || lines.len() < 400) {
        let (_, _, d1) = run_case_once::<K>(case_no, header, hasher, lines, None, false);
        if d1 != 0 {
            let (_, _, d2) = run_case_once::<K>(case_no, header, hasher, lines, None, false);
            if d2 != 0 && d2 == d1 {
                writeln!(sink.oracle, "C04 leak-or-bad-free :: net allocated bytes change by {d2} over the case although every object was dropped :: case {case_no} ({header})").unwrap();
            }
        }
        tot.leak_checked += 1;
    }
}

fn exec(prefix: &str, from_case: u64) {
    install_panic_hook();
    let ops = std::fs::File::open(format!("{prefix}.ops")).unwrap();
    let mut sink = Sink {
        imp: std::fs::OpenOptions::new().append(true).create(true).open(format!("{prefix}.impl")).unwrap(),
        oracle: std::fs::OpenOptions::new().append(true).create(true).open(format!("{prefix}.oracle")).unwrap(),
        journal: Some(format!("{prefix}.journal")),
    };
    let mut tot = Totals::default();
    let mut cases: Vec<(String, Vec<String>)> = Vec::new();
    for line in std::io::BufReader::new(ops).lines() {
        let line = line.unwrap();
        if line.starts_with("case ") {
            cases.push((line, Vec::new()));
        } else if let Some(c) = cases.last_mut() {
            c.1.push(line);
        }
    }
    for (i, (header, lines)) in cases.iter().enumerate() {
        let i = i as u64;
        if i < from_case {
            continue;
        }
        // progress marker first: if the process dies, the parent knows which case was in flight
        std::fs::write(format!("{prefix}.progress"), format!("{i}")).unwrap();
        writeln!(sink.imp, "case").unwrap();
        let t: Vec<&str> = header.split_whitespace().collect();
        let hasher = HashKind::parse(t.get(2).copied().unwrap_or("fnv1a")).unwrap_or(HashKind::Fnv1a);
        let kname = t.get(1).copied().unwrap_or("spur");
        *tot.keys.entry(kname.to_string()).or_insert(0) += 1;
        *tot.hashers.entry(hasher.name().to_string()).or_insert(0) += 1;
        match kname {
            "micro" => run_case::<lasso::MicroSpur>(i, header, hasher, lines, &mut sink, &mut tot),
            "mini" => run_case::<lasso::MiniSpur>(i, header, hasher, lines, &mut sink, &mut tot),
            "spur" => run_case::<lasso::Spur>(i, header, hasher, lines, &mut sink, &mut tot),
            "large" => run_case::<lasso::LargeSpur>(i, header, hasher, lines, &mut sink, &mut tot),
            "small:1" => run_case::<SmallKey<1>>(i, header, hasher, lines, &mut sink, &mut tot),
            "small:2" => run_case::<SmallKey<2>>(i, header, hasher, lines, &mut sink, &mut tot),
            "small:3" => run_case::<SmallKey<3>>(i, header, hasher, lines, &mut sink, &mut tot),
            "small:5" => run_case::<SmallKey<5>>(i, header, hasher, lines, &mut sink, &mut tot),
            "small:8" => run_case::<SmallKey<8>>(i, header, hasher, lines, &mut sink, &mut tot),
            _ => {
                for _ in lines {
                    writeln!(sink.imp, "bad-op").unwrap();
                }
            }
        }
        sink.imp.flush().unwrap();
    }
    std::fs::write(format!("{prefix}.progress"), "done").unwrap();
    let j = |m: &std::collections::HashMap<String, u64>| {
        let mut v: Vec<_> = m.iter().collect();
        v.sort();
        format!("{{{}}}", v.iter().map(|(k, v)| format!("\"{k}\": {v}")).collect::<Vec<_>>().join(", "))
    };
    let stats = format!(
        "{{\"cases\": {}, \"ops\": {}, \"oracle_checks\": {}, \"sweeps\": {}, \"faults\": {}, \"cases_checked_for_leaks\": {}, \"max_strings_in_a_case\": {}, \"ops_by_kind\": {}, \"results_by_class\": {}, \"key_types\": {}, \"hashers\": {}}}",
        tot.cases, tot.ops, tot.checks, tot.sweeps, tot.faults, tot.leak_checked, tot.max_len, j(&tot.by_op), j(&tot.by_result), j(&tot.keys), j(&tot.hashers)
    );
    std::fs::write(format!("{prefix}.stats"), stats).unwrap();
}

fn supervise(prefix: &str) {
    for ext in ["impl", "oracle", "progress", "stats"] {
        let _ = std::fs::remove_file(format!("{prefix}.{ext}"));
    }
    std::fs::write(format!("{prefix}.oracle"), "").unwrap();
    let n_cases = std::fs::read_to_string(format!("{prefix}.ops")).unwrap().lines().filter(|l| l.starts_with("case ")).count() as u64;
    let me = std::env::current_exe().unwrap();
    let mut from = 0u64;
    let mut crashes = 0;
    loop {
        let st = std::process::Command::new(&me).arg("exec").arg(prefix).arg(from.to_string()).status().unwrap();
        let progress = std::fs::read_to_string(format!("{prefix}.progress")).unwrap_or_default();
        if st.success() && progress == "done" {
            break;
        }
        // the child died inside case `progress`
        let c: u64 = progress.trim().parse().unwrap_or(from);
        crashes += 1;
        // pad the answers of the crashed case so that later cases stay aligned with the ops file
        let ops = std::fs::read_to_string(format!("{prefix}.ops")).unwrap();
        let mut case_idx: i64 = -1;
        let mut need = 0usize;
        let mut total_before = 0usize;
        for l in ops.lines() {
            if l.starts_with("case ") {
                case_idx += 1;
            }
            if (case_idx as u64) < c {
                total_before += 1;
            } else if case_idx as u64 == c {
                need += 1;
            }
        }
        let have = std::fs::read_to_string(format!("{prefix}.impl")).unwrap_or_default().lines().count();
        let mut f = std::fs::OpenOptions::new().append(true).open(format!("{prefix}.impl")).unwrap();
        let mut o = std::fs::OpenOptions::new().append(true).open(format!("{prefix}.oracle")).unwrap();
        let mut done_in_case = have.saturating_sub(total_before);
        // what the dead process had answered and found before it died (if it died in the first run of the case)
        let journal = std::fs::read_to_string(format!("{prefix}.journal")).unwrap_or_default();
        let case_lines: Vec<&str> = {
            let mut idx: i64 = -1;
            ops.lines().filter(|l| { if l.starts_with("case ") { idx += 1; } idx as u64 == c }).collect()
        };
        if done_in_case <= 1 {
            for l in journal.lines() {
                if let Some(a) = l.strip_prefix("A ") {
                    if done_in_case < need {
                        writeln!(f, "{a}").unwrap();
                        done_in_case += 1;
                    }
                } else if let Some(x) = l.strip_prefix("O ") {
                    writeln!(o, "{x}").unwrap();
                }
            }
        }
        for i in done_in_case..need {
            writeln!(f, "{}", if i == done_in_case { "fault abort" } else { "skipped" }).unwrap();
        }
        let at = case_lines.get(done_in_case).copied().unwrap_or("(after the last op: final sweep, drop, or the leak re-run)");
        writeln!(o, "C04 process-abort :: the process died ({st}) inside case {c} while executing op {done_in_case} of the case: {at} :: case {c}").unwrap();
        from = c + 1;
        if from >= n_cases || crashes > 50 {
            if !std::path::Path::new(&format!("{prefix}.stats")).exists() {
                std::fs::write(format!("{prefix}.stats"), format!("{{\"cases\": {n_cases}, \"crashes\": {crashes}}}")).unwrap();
            }
            break;
        }
    }
}

fn main() {
    let args: Vec<String> = std::env::args().collect();
    match args.get(1).map(|s| s.as_str()) {
        Some("exec") => exec(&args[2], args[3].parse().unwrap()),
        Some("file") => {
            let prefix = &args[3];
            std::fs::copy(&args[2], format!("{prefix}.ops")).unwrap();
            supervise(prefix);
        }
        Some("big") => {
            // oracle-only stream of very long strings (sizes around and beyond any plausible internal
            // threshold, relative to the current block capacity): `seq big <tier> <seed> <prefix>`
            let tier = &args[2];
            let seed: u64 = args[3].parse().unwrap();
            let prefix = &args[4];
            let mut rng = harness::Rng::new(seed ^ 0xb16);
            let mut lines: Vec<String> = Vec::new();
            let mut n = 0u64;
            let caps: Vec<usize> = if tier == "thorough" { vec![4096, 1 << 16, 1 << 20, 3 << 20, 4 << 20, 5 << 20, (1 << 22) + 1] } else { vec![4096, 5 << 20] };
            for kind in ["rodeo", "threaded"] {
                for &cap0 in &caps {
                    lines.push("case spur fnv1a".into());
                    lines.push("pool".into());
                    lines.push(format!("new 0 {kind} 0 {cap0} max"));
                    let mut cap = cap0;
                    let mut sizes: Vec<usize> = Vec::new();
                    // grow by doubling up to 8 MiB blocks, probing around the current capacity on the way
                    while cap <= (8 << 20) {
                        sizes.extend([cap + 1, cap * 2 - 1, cap * 2, cap / 2 + 1]);
                        if rng.chance(1, 2) {
                            sizes.push(cap + 1 + rng.below(cap as u64) as usize);
                        }
                        cap *= 2;
                    }
                    sizes.extend([(4 << 20) + 1, 5 << 20, 6 << 20, (8 << 20) - 1, 9 << 20]);
                    for sz in sizes {
                        n += 1;
                        lines.push(format!("internRep 0 {} {sz}", harness::hex(format!("#{n}#").as_bytes())));
                        if n % 5 == 0 {
                            lines.push("audit 0".into());
                        }
                    }
                    lines.push("audit 0".into());
                    lines.push("len 0".into());
                }
                // blocks of tens of MiB: a string just above 32 MiB (64, 128 in thorough) that must land in a
                // doubled block
                lines.push("case spur fnv1a".into());
                lines.push("pool".into());
                lines.push(format!("new 0 {kind} 0 {} max", 20usize << 20));
                // 20 MiB blocks: 32 MiB + 1 lands in a doubled block of 40 MiB, 41 MiB then needs one of 80 MiB
                let mut huge = vec![(32usize << 20) + 1, 41 << 20];
                if tier == "thorough" {
                    huge.extend([(128 << 20) + 1, (300 << 20) + 7]);
                }
                let mut last = Vec::new();
                for sz in huge {
                    n += 1;
                    lines.push(format!("internRep 0 {} {sz}", harness::hex(format!("#{n}#").as_bytes())));
                    lines.push("audit 0".into());
                    last.push((n, sz));
                }
                lines.push("len 0".into());
            }
            std::fs::write(format!("{prefix}.ops"), lines.join("\n") + "\n").unwrap();
            // the leak re-runs would triple the cost; the block audit and the content oracles are what matters here
            std::env::set_var("SEQ_NO_LEAK_RERUN", "1");
            supervise(prefix);
        }
        Some("longdoc") => {
            // oracle-only stream of very long documents (more entries than any plausible pre-sizing or
            // growth threshold of the tables): `seq longdoc <tier> <seed> <prefix>`.  Every accepted
            // object gets the C15 self-consistency sweep (each listed string is found under a key that
            // resolves back to it).
            let tier = &args[2];
            let seed: u64 = args[3].parse().unwrap();
            let prefix = &args[4];
            let mut rng = harness::Rng::new(seed ^ 0x10d0c);
            let mut lines: Vec<String> = Vec::new();
            let sizes: Vec<usize> = if tier == "thorough" { vec![1500, 7300, 9000, 15000, 30000, 70000, 120000, 270000, 600000] } else { vec![7300, 9000, 15000, 120000] };
            let hashers: Vec<&str> = if tier == "thorough" { vec!["fnv1a", "topBitsConst"] } else { vec!["fnv1a"] };
            for h in hashers {
                for kind in ["reader", "rodeo", "resolver", "threaded"] {
                    lines.push(format!("case spur {h}"));
                    lines.push("pool".into());
                    let mut slot = 0;
                    for &n in &sizes {
                        if h != "fnv1a" && n > 9000 {
                            continue;
                        }
                        // the largest documents only for the deserialisers that build a table
                        if n > 100000 && (kind == "resolver" || kind == "threaded") && tier != "thorough" {
                            continue;
                        }
                        let tagged = rng.below(1000);
                        let strs: Vec<String> = (0..n).map(|i| harness::hex(format!("s{tagged}-{i}{}", if i % 7 == 0 { "-longer-tail" } else { "" }).as_bytes())).collect();
                        let doc = if kind == "threaded" {
                            // a dense map, entries in a scrambled order
                            let mut e: Vec<String> = strs.iter().enumerate().map(|(i, s)| format!("{s}={}", i + 1)).collect();
                            let k = e.len();
                            for i in 0..k {
                                let j = rng.below(k as u64) as usize;
                                e.swap(i, j);
                            }
                            e.join(",")
                        } else {
                            strs.join(",")
                        };
                        lines.push(format!("de {kind} {slot} {doc}"));
                        lines.push(format!("len {slot}"));
                        // a few lookups of early, middle and late entries, and of an absent string
                        for i in [0, 1, n / 2, n - 1] {
                            lines.push(format!("get {slot} {}", strs[i]));
                            lines.push(format!("tryResolve {slot} {i}"));
                        }
                        lines.push(format!("get {slot} {}", harness::hex(b"absent-string")));
                        if kind != "resolver" && kind != "threaded" && n <= 30000 {
                            // the same list with one late repeat: must be refused (or at least stay consistent)
                            let mut l2 = strs.clone();
                            let at = n - 1 - rng.below(50) as usize;
                            l2[at] = strs[3].clone();
                            lines.push(format!("de {kind} {} {}", slot + 1, l2.join(",")));
                        }
                        lines.push(format!("drop {slot}"));
                        slot += 2;
                    }
                }
            }
            // repeated entries whose text is long and multi-byte at every offset (whatever a rejection path does
            // with the offending string - truncating, quoting - must not depend on where characters begin)
            for kind in ["rodeo", "reader", "resolver", "threaded"] {
                lines.push("case spur fnv1a".into());
                lines.push("pool".into());
                let mut slot = 0;
                for unit in ["\u{e9}", "\u{221a}", "\u{1f600}"] {
                    for k in 0..4usize {
                        let s = format!("{}{}", "a".repeat(k), unit.repeat(1300 / unit.len()));
                        let h = harness::hex(s.as_bytes());
                        let doc = if kind == "threaded" {
                            format!("{}=1,{h}=2,{}=3,{h}=2,{}=4", harness::hex(b"first"), harness::hex(b"middle"), harness::hex(b"last"))
                        } else {
                            format!("{},{h},{},{h},{}", harness::hex(b"first"), harness::hex(b"middle"), harness::hex(b"last"))
                        };
                        lines.push(format!("de {kind} {slot} {doc}"));
                        lines.push(format!("len {slot}"));
                        slot += 1;
                    }
                }
            }
            std::fs::write(format!("{prefix}.ops"), lines.join("\n") + "\n").unwrap();
            std::env::set_var("SEQ_NO_LEAK_RERUN", "1");
            supervise(prefix);
        }
        Some("hugeeq") => {
            // oracle-only stream about *finding* very long strings again (16 MiB and more): present strings keep
            // their keys whatever the limit is now, and under hashers that cannot tell strings of one length
            // apart an absent string of that length stays absent - in the interner and in the reader made from it
            let _tier = &args[2];
            let prefix = &args[4];
            let mut lines: Vec<String> = Vec::new();
            for kind in ["rodeo", "threaded"] {
                lines.push("case spur fnv1a".into());
                lines.push("pool".into());
                lines.push(format!("new 0 {kind} 0 4096 max"));
                let last = [(1usize, (16usize << 20) + 5), (2usize, (17usize << 20) + 1)];
                for (m, sz) in &last {
                    lines.push(format!("internRep 0 {} {sz}", harness::hex(format!("#{m}#").as_bytes())));
                }
                lines.push("len 0".into());
                // strings already present must be found again whatever the limit is now
                lines.push("setLimit 0 4096".into());
                for (m, sz) in &last {
                    lines.push(format!("internRep 0 {} {sz}", harness::hex(format!("#{m}#").as_bytes())));
                    lines.push(format!("getRep 0 {} {sz}", harness::hex(format!("#{m}#").as_bytes())));
                }
                lines.push("setLimit 0 max".into());
                lines.push("len 0".into());
                // very long strings of one length under hashers that cannot tell them apart: present ones keep
                // their keys, an absent one of the same length stays absent - in the interner and in its reader
                for h in ["len", "const0"] {
                    lines.push(format!("case spur {h}"));
                    lines.push("pool".into());
                    lines.push(format!("new 0 {kind} 0 4096 max"));
                    let sz = (16usize << 20) + 3;
                    for p in ["p1", "p2"] {
                        lines.push(format!("internRep 0 {} {sz}", harness::hex(p.as_bytes())));
                    }
                    for p in ["p1", "p2", "p3"] {
                        lines.push(format!("getRep 0 {} {sz}", harness::hex(p.as_bytes())));
                    }
                    lines.push("intoReader 0".into());
                    for p in ["p2", "p1", "p3"] {
                        lines.push(format!("getRep 0 {} {sz}", harness::hex(p.as_bytes())));
                    }
                    lines.push("len 0".into());
                }
            }
            std::fs::write(format!("{prefix}.ops"), lines.join("\n") + "\n").unwrap();
            std::env::set_var("SEQ_NO_LEAK_RERUN", "1");
            supervise(prefix);
        }
        Some("many") => {
            // oracle-only stream of very many strings (hundreds of thousands: beyond the capacity of the 16-bit
            // key type and beyond any plausible "large interner" threshold): `seq many <tier> <seed> <prefix>`
            let tier = &args[2];
            let seed: u64 = args[3].parse().unwrap();
            let prefix = &args[4];
            let mut rng = harness::Rng::new(seed ^ 0x3a17);
            let mut lines: Vec<String> = Vec::new();
            let big_n: usize = if tier == "thorough" { 1_200_000 } else { 300_000 };
            for kind in ["rodeo", "threaded"] {
                // 1. the 16-bit key type filled to its capacity through real interning, then one more
                lines.push("case mini fnv1a".into());
                lines.push("pool".into());
                lines.push(format!("new 0 {kind} 0 4096 max"));
                lines.push(format!("internMany 0 {} 65535", harness::hex(b"m")));
                lines.push("len 0".into());
                lines.push(format!("intern 0 {}", harness::hex(b"one-more")));
                lines.push(format!("intern 0 {}", harness::hex(b"m123")));
                // ... and more refused calls (the concurrent interner's counter keeps counting): no key may be
                // handed out again, the first strings keep their keys
                for extra in ["one-more-2", "one-more-3", "one-more-4"] {
                    lines.push(format!("intern 0 {}", harness::hex(extra.as_bytes())));
                    lines.push("tryResolve 0 0".into());
                    lines.push("tryResolve 0 1".into());
                    lines.push(format!("get 0 {}", harness::hex(b"m0")));
                    lines.push(format!("get 0 {}", harness::hex(extra.as_bytes())));
                }
                lines.push("len 0".into());
                lines.push(format!("get 0 {}", harness::hex(b"m65534")));
                lines.push("tryResolve 0 65534".into());
                lines.push("tryResolve 0 65535".into());
                lines.push("intoReader 0".into());
                lines.push(format!("get 0 {}", harness::hex(b"m40000")));
                lines.push("len 0".into());
                // 2. a large interner: fill, query, clear and refill (single-threaded interner), clone, views
                lines.push("case spur fnv1a".into());
                lines.push("pool".into());
                lines.push(format!("new 0 {kind} 0 4096 max"));
                lines.push(format!("internMany 0 {} {big_n}", harness::hex(b"k")));
                lines.push("len 0".into());
                for _ in 0..6 {
                    let i = rng.below(big_n as u64);
                    lines.push(format!("get 0 {}", harness::hex(format!("k{i}").as_bytes())));
                    lines.push(format!("tryResolve 0 {i}"));
                }
                lines.push(format!("tryResolve 0 {big_n}"));
                lines.push("audit 0".into());
                // a serialisation round trip of the large interner, then lookups and continued interning on the copy
                lines.push("roundtrip 0 2".into());
                lines.push("len 2".into());
                lines.push(format!("get 2 {}", harness::hex(b"k5")));
                lines.push(format!("get 2 {}", harness::hex(format!("k{}", big_n - 1).as_bytes())));
                lines.push(format!("intern 2 {}", harness::hex(b"k77")));
                lines.push(format!("intern 2 {}", harness::hex(b"fresh-after-roundtrip")));
                lines.push("drop 2".into());
                if kind == "rodeo" {
                    lines.push("clone 0 1".into());
                    lines.push("len 1".into());
                    lines.push(format!("get 1 {}", harness::hex(format!("k{}", big_n - 1).as_bytes())));
                    lines.push("clear 0".into());
                    lines.push("len 0".into());
                    lines.push("audit 0".into());
                    lines.push(format!("get 0 {}", harness::hex(b"k5")));
                    lines.push(format!("internMany 0 {} 2000", harness::hex(b"again")));
                    lines.push("len 0".into());
                    lines.push("tryResolve 0 1999".into());
                    lines.push("audit 0".into());
                    lines.push("drop 1".into());
                }
                lines.push("intoResolver 0".into());
                lines.push("len 0".into());
                lines.push("tryResolve 0 7".into());
                // 3. a limited interner filled until the memory limit refuses, then cleared and refilled
                lines.push("case spur fnv1a".into());
                lines.push("pool".into());
                lines.push(format!("new 0 {kind} 0 4096 {}", 4usize << 20));
                lines.push(format!("internMany 0 {} {}", harness::hex(b"lim"), 1usize << 20));
                lines.push("len 0".into());
                lines.push("mem 0".into());
                lines.push("audit 0".into());
                if kind == "rodeo" {
                    lines.push("clear 0".into());
                    lines.push("len 0".into());
                    lines.push(format!("internMany 0 {} 3000", harness::hex(b"after")));
                    lines.push("len 0".into());
                    lines.push("audit 0".into());
                }
                lines.push("setLimit 0 max".into());
                lines.push(format!("internMany 0 {} 5000", harness::hex(b"raised")));
                lines.push("len 0".into());
            }
            std::fs::write(format!("{prefix}.ops"), lines.join("\n") + "\n").unwrap();
            std::env::set_var("SEQ_NO_LEAK_RERUN", "1");
            supervise(prefix);
        }
        Some("run") => {
            let profile = &args[2];
            let tier = &args[3];
            let seed: u64 = args[4].parse().unwrap();
            let prefix = &args[5];
            let mult: usize = args.get(6).and_then(|s| s.parse().ok()).unwrap_or(1);
            let mut g = Gen::new(seed ^ harness::Rng::new(profile.len() as u64 * 7919 + profile.bytes().map(|b| b as u64).sum::<u64>()).next(), profile);
            let (n_cases, n_ops) = if tier == "thorough" { (4000 * mult, 160) } else { (150 * mult, 100) };
            // corpus first (if present), then guaranteed regimes, then the random cases
            if profile == "core" || profile == "growth" {
                for h in ["fnv1a", "const0", "topBitsConst"] {
                    g.growth_case(if tier == "thorough" { 1200 } else { 80 }, h);
                }
            }
            if profile == "eq" {
                let sizes: &[usize] = if tier == "thorough" { &[2, 3, 17, 63, 64, 65, 130, 257, 1025] } else { &[3, 64, 130] };
                for &n in sizes {
                    for variant in 0..4 {
                        for kinds in 0..3 {
                            g.eq_pairs_case(n, variant, kinds);
                        }
                    }
                }
            }
            if profile != "growth" {
                for _ in 0..n_cases {
                    g.case(n_ops);
                }
            }
            let mut f = std::io::BufWriter::new(std::fs::File::create(format!("{prefix}.ops")).unwrap());
            let corpus = format!("{}/../corpus/{profile}.ops", env!("CARGO_MANIFEST_DIR"));
            if let Ok(c) = std::fs::read_to_string(&corpus) {
                f.write_all(c.as_bytes()).unwrap();
            }
            for l in &g.lines {
                writeln!(f, "{l}").unwrap();
            }
            f.flush().unwrap();
            drop(f);
            supervise(prefix);
        }
        _ => {
            eprintln!("usage: seq run <profile> <tier> <seed> <prefix> [mult] | seq file <ops> <prefix>");
            std::process::exit(2);
        }
    }
}
