//! Schedule replay for the concurrent interner (C03 and the cross-property mechanisms).
//!
//!   conc shards <scenario-file>            prints `cshard <hex> <shard>` for every string of the scenario
//!   conc run <ops-file> <prefix> [class]   executes every `crun <schedule>` line of the file on the real
//!                                          ThreadedRodeo, one answer line per input line (scenario lines
//!                                          answer `ok`), written to <prefix>.impl; oracle lines to <prefix>.oracle
//!
//! The controller is position-agnostic: a schedule entry `t` means "let thread t run to its next
//! schedule point (of the enabled class), whichever that is".

use harness::{hex, unhex, HashKind, SmallKey, VHasher};
use lasso::verif::Point;
use lasso::{Capacity, Key, MemoryLimits, ThreadedRodeo};
use std::cell::Cell;
use std::collections::BTreeMap;
use std::io::{BufRead, Write};
use std::sync::{Arc, Condvar, Mutex};
use std::time::{Duration, Instant};

#[derive(Clone, Debug)]
enum Call {
    Intern(String),
    InternStatic(&'static str),
    Get(String),
    TryResolve(usize),
    ContainsKey(usize),
    Len,
}

#[derive(Default, Clone)]
struct Scenario {
    key: String,
    cap: usize,
    max: usize,
    programs: Vec<Vec<String>>, // raw call tokens
    prefill: Vec<String>,
}

struct Ctl {
    turn: Option<usize>,
    parked: Vec<bool>,
    finished: Vec<bool>,
    steps: Vec<u64>,
}

struct Shared {
    m: Mutex<Ctl>,
    cv: Condvar,
}

thread_local! {
    static TID: Cell<usize> = Cell::new(usize::MAX);
    static SHARED: std::cell::RefCell<Option<Arc<Shared>>> = std::cell::RefCell::new(None);
}

static CLASS: std::sync::atomic::AtomicU8 = std::sync::atomic::AtomicU8::new(0);

/// 0 = interner-level points (C03), 1 = arena-level points (C05), 2 = memory-accounting points (C09)
fn in_class(p: Point) -> bool {
    let c = CLASS.load(std::sync::atomic::Ordering::Relaxed);
    match p {
        Point::BeforeShardLock | Point::BeforeStore | Point::BeforeKeyFetch | Point::BeforeStringsInsert | Point::BeforeMapInsert | Point::BeforeEntry => c == 0,
        Point::AllocLoadMax | Point::AllocUpdate | Point::GrowLoadUsage | Point::GrowLoadMax | Point::GrowLoadCapacity | Point::StoreCapacity => c == 1 || c == 2,
        _ => c == 1,
    }
}

fn park() {
    let tid = TID.with(|t| t.get());
    if tid == usize::MAX {
        return;
    }
    let sh = SHARED.with(|s| s.borrow().clone());
    let Some(sh) = sh else { return };
    let mut g = sh.m.lock().unwrap();
    g.parked[tid] = true;
    sh.cv.notify_all();
    while g.turn != Some(tid) {
        g = sh.cv.wait(g).unwrap();
    }
    g.turn = None;
    g.parked[tid] = false;
    g.steps[tid] += 1;
}

fn hook(p: Point) {
    if in_class(p) {
        park();
    }
}

fn show_res<K: Key>(r: Result<K, lasso::LassoError>) -> String {
    match r {
        Ok(k) => format!("ok{}", k.into_usize()),
        Err(e) => match e.kind() {
            lasso::LassoErrorKind::MemoryLimitReached => "errmem".into(),
            lasso::LassoErrorKind::KeySpaceExhaustion => "errkeys".into(),
            _ => "err".into(),
        },
    }
}

fn parse_call(tok: &str, statics: &mut Vec<Box<str>>) -> Call {
    let (kind, arg) = tok.split_once(':').unwrap_or((tok, ""));
    match kind {
        "i" => Call::Intern(String::from_utf8(unhex(arg)).unwrap()),
        "s" => {
            let b: Box<str> = String::from_utf8(unhex(arg)).unwrap().into_boxed_str();
            let st: &'static str = unsafe { std::mem::transmute::<&str, &'static str>(&*b) };
            statics.push(b);
            Call::InternStatic(st)
        }
        "g" => Call::Get(String::from_utf8(unhex(arg)).unwrap()),
        "r" => Call::TryResolve(arg.parse().unwrap()),
        "c" => Call::ContainsKey(arg.parse().unwrap()),
        _ => Call::Len,
    }
}

/// Runs one schedule; returns the canonical result line and oracle failures.
fn run_schedule<K>(sc: &Scenario, sched: &[usize], free: bool, arena_fmt: bool) -> (String, Vec<String>)
where
    K: Key + std::hash::Hash + Send + Sync + 'static,
{
    let mut oracle = Vec::new();
    let mut statics: Vec<Box<str>> = Vec::new();
    let rodeo: Arc<ThreadedRodeo<K, VHasher>> = Arc::new(ThreadedRodeo::with_capacity_memory_limits_and_hasher(
        Capacity::new(0, std::num::NonZeroUsize::new(sc.cap).unwrap()),
        MemoryLimits::for_memory_usage(sc.max),
        VHasher::new(HashKind::Fnv1a),
    ));
    for p in &sc.prefill {
        let _ = rodeo.try_get_or_intern(String::from_utf8(unhex(p)).unwrap());
    }
    let n = sc.programs.len();
    let programs: Vec<Vec<Call>> = sc.programs.iter().map(|p| p.iter().map(|t| parse_call(t, &mut statics)).collect()).collect();
    let shared = Arc::new(Shared { m: Mutex::new(Ctl { turn: None, parked: vec![false; n], finished: vec![false; n], steps: vec![0; n] }), cv: Condvar::new() });
    lasso::verif::set_hook(Some(hook));
    let mut handles = Vec::new();
    for (tid, prog) in programs.into_iter().enumerate() {
        let rodeo = rodeo.clone();
        let shared = shared.clone();
        handles.push(std::thread::spawn(move || {
            TID.with(|t| t.set(tid));
            SHARED.with(|s| *s.borrow_mut() = Some(shared.clone()));
            let mut results: Vec<String> = Vec::new();
            // every observation a thread makes: (string, key) pairs it was told
            let mut told: Vec<(String, usize)> = Vec::new();
            let r = std::panic::catch_unwind(std::panic::AssertUnwindSafe(|| {
                for c in &prog {
                    park(); // call start
                    match c {
                        Call::Intern(x) => {
                            let r = rodeo.try_get_or_intern(x);
                            if let Ok(k) = &r {
                                told.push((x.clone(), k.into_usize()));
                                // immediately resolvable (C03: "resolves to its string immediately")
                                if rodeo.try_resolve(k) != Some(x.as_str()) {
                                    results.push("ORACLE-unresolvable".into());
                                }
                            }
                            results.push(show_res(r));
                        }
                        Call::InternStatic(x) => {
                            let r = rodeo.try_get_or_intern_static(x);
                            if let Ok(k) = &r {
                                told.push((x.to_string(), k.into_usize()));
                                if rodeo.try_resolve(k) != Some(*x) {
                                    results.push("ORACLE-unresolvable".into());
                                }
                            }
                            results.push(show_res(r));
                        }
                        Call::Get(x) => {
                            let g = rodeo.get(x);
                            if let Some(k) = &g {
                                told.push((x.clone(), k.into_usize()));
                                if rodeo.try_resolve(k) != Some(x.as_str()) {
                                    results.push("ORACLE-unresolvable".into());
                                }
                            }
                            results.push(match g {
                                Some(k) => format!("some{}", k.into_usize()),
                                None => "none".into(),
                            });
                        }
                        Call::TryResolve(k) => results.push(match K::try_from_usize(*k).and_then(|k| rodeo.try_resolve(&k)) {
                            Some(s) => format!("str{}", hex(s.as_bytes())),
                            None => "nostr".into(),
                        }),
                        Call::ContainsKey(k) => results.push(K::try_from_usize(*k).map(|k| rodeo.contains_key(&k)).unwrap_or(false).to_string()),
                        Call::Len => results.push(rodeo.len().to_string()),
                    }
                }
            }));
            if r.is_err() {
                results.push("PANIC".into());
            }
            let mut g = shared.m.lock().unwrap();
            g.finished[tid] = true;
            shared.cv.notify_all();
            drop(g);
            (results, told)
        }));
    }
    // controller
    // `free` schedules are not generated by the model: a released thread may turn out to be blocked on a
    // lock; it is then left alone (it moves on by itself once the lock is free) and the next entry is taken
    let release = |t: usize| -> Result<(), String> {
        let mut g = shared.m.lock().unwrap();
        if g.finished[t] {
            return Ok(()); // a thread that finished early: the entry is skipped
        }
        let deadline = Instant::now() + Duration::from_secs(5);
        let soft = Instant::now() + Duration::from_millis(25);
        // wait until it is parked
        while !g.parked[t] && !g.finished[t] {
            let (ng, _) = shared.cv.wait_timeout(g, Duration::from_millis(5)).unwrap();
            g = ng;
            if free && Instant::now() > soft {
                return Ok(()); // still blocked from an earlier release
            }
            if Instant::now() > deadline {
                return Err(format!("thread {t} never reached a schedule point"));
            }
        }
        if g.finished[t] {
            return Ok(());
        }
        g.turn = Some(t);
        shared.cv.notify_all();
        loop {
            let (ng, _) = shared.cv.wait_timeout(g, Duration::from_millis(5)).unwrap();
            g = ng;
            if g.turn.is_none() && (g.parked[t] || g.finished[t]) {
                return Ok(());
            }
            if free && g.turn.is_none() && Instant::now() > soft {
                return Ok(()); // blocked on a lock held by a parked thread
            }
            if Instant::now() > deadline {
                return Err(format!("thread {t} did not reach its next schedule point (blocked?)"));
            }
        }
    };
    let mut hang: Option<String> = None;
    for &t in sched {
        if t >= n {
            continue;
        }
        if let Err(e) = release(t) {
            hang = Some(e);
            break;
        }
    }
    if hang.is_none() {
        // complete whatever is left, in index order (a complete schedule leaves nothing)
        'outer: for _round in 0..10_000 {
            let mut any = false;
            for t in 0..n {
                let fin = shared.m.lock().unwrap().finished[t];
                if !fin {
                    any = true;
                    if let Err(e) = release(t) {
                        hang = Some(e);
                        break 'outer;
                    }
                }
            }
            if !any {
                break;
            }
        }
    }
    if let Some(h) = hang {
        // cannot recover the stuck threads: report and let the supervisor restart the process
        println!("HANG {h}");
        std::io::stdout().flush().unwrap();
        std::process::exit(3);
    }
    lasso::verif::set_hook(None);
    let mut per_thread = Vec::new();
    let mut all_told: Vec<(String, usize)> = Vec::new();
    for (i, h) in handles.into_iter().enumerate() {
        let (res, told) = h.join().unwrap();
        for r in &res {
            if r.starts_with("ORACLE") {
                oracle.push("C03 key-not-resolvable :: a thread obtained a key that did not resolve to its string at once".to_string());
            }
            if r == "PANIC" {
                oracle.push("C03 call-panicked :: a call panicked under this schedule".to_string());
            }
        }
        let shown: Vec<String> = res.into_iter().filter(|r| !r.starts_with("ORACLE")).collect();
        per_thread.push(format!("T{i}:{}", shown.join(",")));
        all_told.extend(told);
    }
    // ---------------- property oracle on the implementation's own answers (C03)
    let mut by_str: BTreeMap<String, usize> = BTreeMap::new();
    let mut by_key: BTreeMap<usize, String> = BTreeMap::new();
    for (s, k) in &all_told {
        if let Some(k0) = by_str.get(s) {
            if k0 != k {
                oracle.push(format!("C03 two-keys-for-one-string :: string {} was given keys {k0} and {k}", hex(s.as_bytes())));
            }
        }
        by_str.insert(s.clone(), *k);
        if let Some(s0) = by_key.get(k) {
            if s0 != s {
                oracle.push(format!("C03 one-key-for-two-strings :: key {k} was given to {} and {}", hex(s0.as_bytes()), hex(s.as_bytes())));
            }
        }
        by_key.insert(*k, s.clone());
    }
    // final state
    let mut strs: Vec<(usize, String)> = rodeo.iter().map(|(k, s)| (k.into_usize(), s.to_string())).collect();
    strs.sort();
    for (s, k) in &all_told {
        // forever after: still resolves, still found
        match K::try_from_usize(*k).and_then(|kk| rodeo.try_resolve(&kk)) {
            Some(x) if x == s => {}
            other => oracle.push(format!("C03 key-lost :: key {k} obtained for {} resolves to {:?} at the end", hex(s.as_bytes()), other.map(|x| hex(x.as_bytes())))),
        }
        if rodeo.get(s).map(|k| k.into_usize()) != Some(*k) {
            oracle.push(format!("C03 returned-intern-not-found :: {} was interned as {k} but a later get gives {:?}", hex(s.as_bytes()), rodeo.get(s).map(|k| k.into_usize())));
        }
    }
    // dense: keys in use are exactly 0..count-1
    if strs.iter().enumerate().any(|(i, (k, _))| *k != i) || strs.len() != rodeo.len() {
        oracle.push(format!("C03 keys-not-dense :: keys in use at quiescence are {:?}, count {}", strs.iter().map(|x| x.0).collect::<Vec<_>>(), rodeo.len()));
    }
    let mut map: Vec<String> = strs.iter().filter_map(|(_, s)| rodeo.get(s).map(|k| format!("{}={}", hex(s.as_bytes()), k.into_usize()))).collect();
    map.sort();
    let strs_s: Vec<String> = strs.iter().map(|(k, s)| format!("{k}={}", hex(s.as_bytes()))).collect();
    let mut strs_sorted = strs_s.clone();
    strs_sorted.sort();
    if arena_fmt {
        // arena view: results without keys, blocks in list order, location of every stored string
        let blocks = rodeo.verif_blocks();
        let per: Vec<String> = per_thread
            .iter()
            .map(|p| {
                let (name, rest) = p.split_once(':').unwrap();
                let rs: Vec<String> = rest.split(',').filter(|x| !x.is_empty()).map(|r| if r.starts_with("ok") { "ok".to_string() } else { r.to_string() }).collect();
                format!("{name}:{}", rs.join(","))
            })
            .collect();
        let mut locs: Vec<String> = Vec::new();
        let mut regions: Vec<(usize, usize, String)> = Vec::new();
        for (_k, st) in rodeo.iter() {
            if st.is_empty() {
                continue;
            }
            let p = st.as_ptr() as usize;
            match blocks.iter().position(|(b, c, _)| p >= *b && p + st.len() <= *b + *c) {
                Some(pos) => {
                    locs.push(format!("{}@{}:{}", hex(st.as_bytes()), pos, p - blocks[pos].0));
                    regions.push((p, p + st.len(), hex(st.as_bytes())));
                    if p + st.len() > blocks[pos].0 + blocks[pos].2 {
                        oracle.push(format!("C05 string-beyond-reserved :: {} lies beyond the reserved length of its block", hex(st.as_bytes())));
                    }
                }
                None => oracle.push(format!("C05 string-outside-blocks :: {} is not inside any block of the arena", hex(st.as_bytes()))),
            }
        }
        regions.sort();
        for w in regions.windows(2) {
            if w[0].1 > w[1].0 {
                oracle.push(format!("C05 regions-overlap :: {} and {} overlap in memory", w[0].2, w[1].2));
            }
        }
        for (b, (_, c, u)) in blocks.iter().enumerate() {
            if u > c {
                oracle.push(format!("C05 block-overfull :: block {b}: reserved {u} > capacity {c}"));
            }
        }
        let sum: usize = blocks.iter().map(|b| b.1).sum();
        if sum != rodeo.current_memory_usage() {
            oracle.push(format!("C09 usage-not-sum-of-blocks :: at quiescence usage {} but the blocks held sum to {sum}", rodeo.current_memory_usage()));
        }
        if rodeo.current_memory_usage() > sc.max.max(sc.cap) {
            oracle.push(format!("C09 usage-exceeds-limit :: usage {} exceeds the limit {}", rodeo.current_memory_usage(), sc.max));
        }
        // every string a thread stored reads back intact
        for (s0, k) in &all_told {
            if K::try_from_usize(*k).and_then(|kk| rodeo.try_resolve(&kk)) != Some(s0.as_str()) {
                oracle.push(format!("C05 string-altered :: {} no longer reads back", hex(s0.as_bytes())));
            }
        }
        locs.sort();
        let line = format!(
            "{}|blocks:{}|locs:{}|usage={}|done=true",
            per.join(";"),
            blocks.iter().map(|(_, c, u)| format!("{c}:{u}")).collect::<Vec<_>>().join(","),
            locs.join(","),
            rodeo.current_memory_usage()
        );
        drop(rodeo);
        drop(statics);
        return (line, oracle);
    }
    let line = format!(
        "{}|map:{}|strs:{}|ctr={}|mem={}|done=true",
        per_thread.join(";"),
        map.join(","),
        strs_sorted.join(","),
        rodeo.verif_key_counter(),
        rodeo.current_memory_usage()
    );
    drop(rodeo);
    drop(statics);
    (line, oracle)
}

fn dispatch(sc: &Scenario, sched: &[usize], free: bool, arena_fmt: bool) -> (String, Vec<String>) {
    match sc.key.as_str() {
        "1" => run_schedule::<SmallKey<1>>(sc, sched, free, arena_fmt),
        "2" => run_schedule::<SmallKey<2>>(sc, sched, free, arena_fmt),
        "3" => run_schedule::<SmallKey<3>>(sc, sched, free, arena_fmt),
        "4" => run_schedule::<SmallKey<4>>(sc, sched, free, arena_fmt),
        "5" => run_schedule::<SmallKey<5>>(sc, sched, free, arena_fmt),
        "255" => run_schedule::<lasso::MicroSpur>(sc, sched, free, arena_fmt),
        _ => run_schedule::<lasso::Spur>(sc, sched, free, arena_fmt),
    }
}

fn strings_of(sc: &Scenario) -> Vec<String> {
    let mut v: Vec<String> = sc.prefill.clone();
    for p in &sc.programs {
        for c in p {
            if let Some((k, a)) = c.split_once(':') {
                if matches!(k, "i" | "s" | "g") {
                    v.push(a.to_string());
                }
            }
        }
    }
    v.sort();
    v.dedup();
    v
}

fn main() {
    let args: Vec<String> = std::env::args().collect();
    std::panic::set_hook(Box::new(|_| {}));
    let mode = args.get(1).map(|s| s.as_str()).unwrap_or("");
    let file = std::fs::File::open(&args[2]).expect("ops file");
    let lines: Vec<String> = std::io::BufReader::new(file).lines().map(|l| l.unwrap()).collect();
    if mode == "shards" {
        // shard of every string under the harness hasher, for each scenario in the file
        let probe: ThreadedRodeo<lasso::Spur, VHasher> = ThreadedRodeo::with_hasher(VHasher::new(HashKind::Fnv1a));
        let mut sc = Scenario::default();
        let mut out = Vec::new();
        let flush = |sc: &Scenario, out: &mut Vec<String>| {
            for s in strings_of(sc) {
                let text = String::from_utf8(unhex(&s)).unwrap();
                out.push(format!("cshard {s} {}", probe.verif_shard_of(&text)));
            }
        };
        for l in &lines {
            let t: Vec<&str> = l.split_whitespace().collect();
            match t.first().copied() {
                Some("conc") => {
                    flush(&sc, &mut out);
                    sc = Scenario::default();
                }
                Some("cthread") => sc.programs.push(t[1..].iter().map(|x| x.to_string()).collect()),
                Some("cprefill") => sc.prefill = t[1..].iter().map(|x| x.to_string()).collect(),
                _ => {}
            }
        }
        flush(&sc, &mut out);
        out.sort();
        out.dedup();
        for o in out {
            println!("{o}");
        }
        return;
    }
    let prefix = &args[3];
    let from: usize = args.get(4).and_then(|s| s.parse().ok()).unwrap_or(0);
    let class: u8 = args.get(5).and_then(|s| s.parse().ok()).unwrap_or(0);
    CLASS.store(class, std::sync::atomic::Ordering::SeqCst);
    let mut imp = std::fs::OpenOptions::new().append(true).create(true).open(format!("{prefix}.impl")).unwrap();
    let mut orc = std::fs::OpenOptions::new().append(true).create(true).open(format!("{prefix}.oracle")).unwrap();
    let mut sc = Scenario::default();
    let mut n_sched = 0u64;
    for (i, l) in lines.iter().enumerate() {
        let t: Vec<&str> = l.split_whitespace().collect();
        let mut answer = "ok".to_string();
        match t.first().copied() {
            Some("conc") => {
                sc = Scenario { key: t[1].to_string(), cap: t[2].parse().unwrap(), max: if t[3] == "max" { usize::MAX } else { t[3].parse().unwrap() }, ..Default::default() };
            }
            Some("cthread") => sc.programs.push(t[1..].iter().map(|x| x.to_string()).collect()),
            Some("cprefill") => sc.prefill = t[1..].iter().map(|x| x.to_string()).collect(),
            Some("cshard") => {}
            Some("crun") | Some("cfree") | Some("arun") | Some("afree") => {
                let free = t[0] == "cfree" || t[0] == "afree";
                let arena_fmt = t[0].starts_with('a');
                if i < from {
                    continue;
                }
                std::fs::write(format!("{prefix}.progress"), format!("{i}")).unwrap();
                let sched: Vec<usize> = match t.get(1) {
                    Some(s) if *s != "_" => s.split(',').filter_map(|x| x.parse().ok()).collect(),
                    _ => Vec::new(),
                };
                let (line, oracle) = dispatch(&sc, &sched, free, arena_fmt);
                for o in oracle {
                    writeln!(orc, "{o} :: schedule {} of scenario [{} cap {} max {} programs {:?} prefill {:?}] (line {})", t.get(1).unwrap_or(&"_"), sc.key, sc.cap, sc.max, sc.programs, sc.prefill, i + 1).unwrap();
                }
                answer = if free { "free".to_string() } else { line };
                n_sched += 1;
            }
            _ => answer = "bad-op".into(),
        }
        if i >= from {
            writeln!(imp, "{answer}").unwrap();
        }
    }
    std::fs::write(format!("{prefix}.progress"), "done").unwrap();
    std::fs::write(format!("{prefix}.stats"), format!("{{\"schedules_replayed\": {n_sched}}}")).unwrap();
}
