//! Generator of sequential histories (type-directed, mostly valid, every choice from one PRNG).

use crate::{hex, HashKind, Rng};

#[derive(Clone)]
struct GSlot {
    kind: &'static str, // rodeo | threaded | reader | resolver | gone
    strs: Vec<Vec<u8>>, // approximate content
    bytes: usize,
    limit: Option<usize>,
}

pub struct Gen {
    rng: Rng,
    pub lines: Vec<String>,
    slots: Vec<GSlot>,
    universe: Vec<Vec<u8>>,
    pool: Vec<Vec<u8>>,
    cap: u128,
    fresh: u64,
    profile: String,
}

pub const KEYS: [(&str, u128); 9] = [
    ("micro", 255),
    ("mini", 65535),
    ("spur", 4294967295),
    ("large", 18446744073709551615),
    ("small:1", 1),
    ("small:2", 2),
    ("small:3", 3),
    ("small:5", 5),
    ("small:8", 8),
];

fn filler(len: usize, variant: u64) -> Vec<u8> {
    // valid UTF-8 of exactly `len` bytes
    let mut s = String::new();
    let units: [&str; 4] = ["a", "é", "√", "😀"];
    let unit = units[(variant % 4) as usize];
    while s.len() + unit.len() <= len {
        s.push_str(unit);
    }
    while s.len() < len {
        s.push('z');
    }
    let mut b = s.into_bytes();
    if variant >= 4 && !b.is_empty() {
        // differ from the plain variant in the last byte only (stay ASCII there)
        let n = b.len();
        if b[n - 1] < 0x80 {
            b[n - 1] = b'a' + (variant % 26) as u8;
        }
    }
    b
}

impl Gen {
    pub fn new(seed: u64, profile: &str) -> Self {
        Gen { rng: Rng::new(seed), lines: Vec::new(), slots: Vec::new(), universe: Vec::new(), pool: Vec::new(), cap: 0, fresh: 0, profile: profile.to_string() }
    }

    fn emit(&mut self, s: String) {
        self.lines.push(s);
    }

    fn pick_key(&mut self) -> (&'static str, u128) {
        let w: &[(usize, u32)] = match self.profile.as_str() {
            "exhaust" => &[(0, 40), (4, 12), (5, 12), (6, 12), (7, 12), (8, 12)],
            "docs" => &[(0, 40), (2, 30), (6, 10), (7, 10), (8, 10)],
            _ => &[(0, 20), (1, 12), (2, 38), (3, 10), (6, 5), (7, 7), (8, 8)],
        };
        let total: u32 = w.iter().map(|x| x.1).sum();
        let mut r = self.rng.below(total as u64) as u32;
        for (i, wt) in w {
            if r < *wt {
                return KEYS[*i];
            }
            r -= wt;
        }
        KEYS[2]
    }

    fn pick_bytes(&mut self) -> usize {
        let r = self.rng.below(100);
        if r < 70 {
            self.rng.range(1, 16) as usize
        } else if r < 85 {
            4096
        } else {
            self.rng.range(17, 64) as usize
        }
    }

    fn pick_limit(&mut self, bytes: usize) -> Option<usize> {
        let r = self.rng.below(100);
        let p = if self.profile == "mem" { 15 } else if self.profile == "exhaust" { 85 } else { 55 };
        if r < p {
            return None;
        }
        let b = bytes as i64;
        let opts = [b - 1, b, b + 1, 2 * b - 1, 2 * b, 2 * b + 1, 3 * b, 3 * b + 1, 4 * b + 3, 7 * b, b + self.rng.range(0, 40) as i64, 0];
        let v = *self.rng.pick(&opts);
        Some(v.max(0) as usize)
    }

    fn build_universe(&mut self, bytes: usize) {
        let b = bytes.min(24);
        let mut lens: Vec<usize> = vec![0, 1, 1, 2, 3, b.saturating_sub(1), b, b + 1, (2 * b).saturating_sub(1), 2 * b, 2 * b + 1, 3 * b + 2, 5];
        lens.sort();
        lens.dedup();
        self.universe.clear();
        for l in lens {
            let nv = if l == 0 { 1 } else { self.rng.range(1, 3) };
            for v in 0..nv {
                let var = if v == 0 { self.rng.below(4) } else { 4 + self.rng.below(40) };
                let s = filler(l, var);
                if !self.universe.contains(&s) {
                    self.universe.push(s);
                }
            }
        }
        // long strings (well beyond any block and beyond typical "hash only a prefix" thresholds),
        // sharing everything but the last byte
        if self.rng.chance(1, 3) {
            let l = *self.rng.pick(&[129usize, 200, 300, 520]);
            for v in 0..2 {
                let s = filler(l, 4 + v * 7);
                if !self.universe.contains(&s) {
                    self.universe.push(s);
                }
            }
        }
        // same first byte / same length families for the degenerate hashers
        for i in 0..4u8 {
            let s = vec![b'q', b'a' + i];
            if !self.universe.contains(&s) {
                self.universe.push(s);
            }
        }
        self.pool.clear();
        let np = self.rng.range(3, 7);
        for i in 0..np {
            let l = *self.rng.pick(&[0usize, 1, 2, b, 2 * b + 1, 3 * b + 5, 4]);
            let mut s = filler(l, self.rng.below(4));
            if i == 1 && !self.universe.is_empty() {
                // a pool string equal in content to a universe string
                s = self.universe[self.rng.below(self.universe.len() as u64) as usize].clone();
            }
            if i == 2 && !self.pool.is_empty() {
                // equal content at a second address
                s = self.pool[0].clone();
            }
            if i == 3 && self.pool[0].len() >= 2 {
                // a proper prefix of pool string 0: the harness lets it share pool 0's start address
                let full = String::from_utf8(self.pool[0].clone()).unwrap();
                let mut cut = full.len() / 2;
                while cut > 0 && !full.is_char_boundary(cut) {
                    cut -= 1;
                }
                if cut > 0 {
                    s = full.as_bytes()[..cut].to_vec();
                }
            }
            self.pool.push(s);
        }
    }

    fn fresh_str(&mut self) -> Vec<u8> {
        self.fresh += 1;
        // short, distinct, never in the universe (starts with '#')
        let mut n = self.fresh;
        let mut v = vec![b'#'];
        loop {
            v.push(b'0' + (n % 64) as u8 % 75);
            n /= 64;
            if n == 0 {
                break;
            }
        }
        v
    }

    fn some_string(&mut self, si: usize) -> Vec<u8> {
        let r = self.rng.below(100);
        let have = self.slots.get(si).map(|s| s.strs.len()).unwrap_or(0);
        if r < 30 && have > 0 {
            let k = self.rng.below(have as u64) as usize;
            self.slots[si].strs[k].clone()
        } else if r < 85 {
            self.universe[self.rng.below(self.universe.len() as u64) as usize].clone()
        } else if r < 93 && !self.pool.is_empty() {
            self.pool[self.rng.below(self.pool.len() as u64) as usize].clone()
        } else {
            self.fresh_str()
        }
    }

    fn some_key(&mut self, si: usize) -> u128 {
        let have = self.slots.get(si).map(|s| s.strs.len()).unwrap_or(0) as u128;
        let r = self.rng.below(100);
        let k = if r < 70 && have > 0 { self.rng.below(have as u64) as u128 } else { have + self.rng.below(3) as u128 };
        k.min(self.cap.saturating_sub(1))
    }

    fn live(&self, kinds: &[&str]) -> Vec<usize> {
        self.slots.iter().enumerate().filter(|(_, s)| kinds.contains(&s.kind)).map(|(i, _)| i).collect()
    }

    fn note_intern(&mut self, si: usize, x: Vec<u8>) {
        // approximate: assume success unless clearly at capacity
        let s = &mut self.slots[si];
        if !s.strs.contains(&x) && (s.strs.len() as u128) < self.cap {
            s.strs.push(x);
        }
    }

    fn new_slot(&mut self, kind: &'static str, bytes: usize, limit: Option<usize>) -> usize {
        let si = self.slots.iter().position(|s| s.kind == "gone").unwrap_or(self.slots.len());
        if si == self.slots.len() {
            self.slots.push(GSlot { kind: "gone", strs: Vec::new(), bytes, limit });
        }
        // mostly small tables (growth is exercised), now and then a heavily over-provisioned one
        let strings = if self.rng.chance(1, 2) { 0 } else if self.rng.chance(1, 10) { self.rng.range(2000, 6000) } else { self.rng.range(1, 60) };
        let l = limit.map(|l| l.to_string()).unwrap_or_else(|| "max".into());
        if self.rng.chance(1, 5) {
            // through one of the other constructors and the Capacity / MemoryLimits builders; the generator
            // keeps the *documented* effective configuration for its own bookkeeping
            let ctor = *self.rng.pick(&["new", "withCapacity", "withMemoryLimits", "withCapacityAndMemoryLimits", "withHasher", "withCapacityAndHasher", "full", "withCapacityAndMemoryLimits", "withCapacity"]);
            let cap_b = *self.rng.pick(&["new", "new", "forBytes", "forBytes", "forStrings", "minimal", "default"]);
            let lim_b = *self.rng.pick(&["new", "forMemoryUsage", "forMemoryUsage", "default"]);
            let takes_cap = matches!(ctor, "withCapacity" | "withCapacityAndMemoryLimits" | "withCapacityAndHasher" | "full");
            let takes_lim = matches!(ctor, "withMemoryLimits" | "withCapacityAndMemoryLimits" | "full");
            let eff_bytes = if !takes_cap { 4096 } else { match cap_b { "new" | "forBytes" => bytes, "minimal" => 1, _ => 4096 } };
            let eff_limit = if !takes_lim || lim_b == "default" { None } else { limit };
            let b = eff_bytes.min(40);
            let items: Vec<String> = [1, b, 2 * b + 1, b / 2 + 1].iter().enumerate().map(|(i, &n)| crate::hex(&filler(n.max(1), 50 + i as u64))).collect();
            self.slots[si] = GSlot { kind, strs: Vec::new(), bytes: eff_bytes, limit: eff_limit };
            self.emit(format!("ctor {si} {kind} {ctor} {cap_b} {strings} {bytes} {lim_b} {l} {}", items.join(",")));
            return si;
        }
        self.slots[si] = GSlot { kind, strs: Vec::new(), bytes, limit };
        self.emit(format!("new {si} {kind} {strings} {bytes} {l}"));
        si
    }

    fn route_for(&mut self, kind: &str, class: &str) -> Option<&'static str> {
        // class: "intern" | "query" | "convert"
        let opts: &[&'static str] = match (kind, class) {
            ("rodeo", "intern") => &["Rodeo", "mut+Rodeo", "mut+mut+Rodeo", "box+Rodeo", "mut+box+Rodeo", "box+box+Rodeo", "boxdyn+Rodeo"],
            ("threaded", "intern") => &["ThreadedRodeo", "tref+ThreadedRodeo", "mut+ThreadedRodeo", "mut+tref+ThreadedRodeo", "box+ThreadedRodeo", "boxdyn+ThreadedRodeo"],
            ("rodeo", "query") => &["Rodeo", "ref+Rodeo", "ref+ref+Rodeo", "mut+Rodeo", "box+Rodeo"],
            ("threaded", "query") => &["ThreadedRodeo", "ref+ThreadedRodeo", "mut+ThreadedRodeo", "box+ThreadedRodeo"],
            ("reader", "query") => &["RodeoReader", "ref+RodeoReader", "ref+ref+RodeoReader", "mut+RodeoReader"],
            ("resolver", "query") => &["RodeoResolver", "ref+RodeoResolver", "mut+RodeoResolver"],
            ("rodeo", "convert") => &["Rodeo", "box+Rodeo", "boxdyn+Rodeo"],
            ("threaded", "convert") => &["ThreadedRodeo", "box+ThreadedRodeo"],
            ("reader", "convert") => &["RodeoReader", "box+RodeoReader"],
            _ => return None,
        };
        Some(*self.rng.pick(opts))
    }

    fn weights(&self) -> Vec<(&'static str, u32)> {
        let base: Vec<(&'static str, u32)> = vec![
            ("intern", 30), ("internP", 6), ("internS", 8), ("internSP", 2), ("get", 8), ("contains", 3),
            ("resolve", 6), ("index", 2), ("tryResolve", 5), ("resolveU", 2), ("containsKey", 3), ("len", 2), ("isEmpty", 1),
            ("mem", 2), ("max", 1), ("setLimit", 2), ("clear", 2), ("clone", 1), ("tryClone", 1), ("cloneFrom", 1),
            ("tryCloneFrom", 1), ("drop", 1), ("intoReader", 1), ("intoResolver", 1), ("iter", 1), ("strings", 1),
            ("iterScript", 2), ("eq", 1), ("ser", 1), ("roundtrip", 1), ("audit", 3), ("new", 2), ("via", 3), ("extend", 1), ("fromIter", 1), ("de", 1),
        ];
        let boost = |ops: &[(&'static str, u32)]| -> Vec<(&'static str, u32)> {
            let mut b = base.clone();
            for (o, w) in ops {
                for e in b.iter_mut() {
                    if e.0 == *o {
                        e.1 = *w;
                    }
                }
            }
            b
        };
        match self.profile.as_str() {
            "mem" => boost(&[("intern", 40), ("setLimit", 8), ("mem", 6), ("audit", 10), ("clear", 4), ("internS", 5), ("tryClone", 3), ("tryCloneFrom", 3), ("via", 6)]),
            "exhaust" => boost(&[("intern", 30), ("internS", 12), ("internP", 10), ("internSP", 6), ("get", 10), ("clear", 1), ("via", 5)]),
            "clone" => boost(&[("clone", 8), ("tryClone", 6), ("cloneFrom", 6), ("tryCloneFrom", 6), ("drop", 5), ("new", 5), ("clear", 3), ("audit", 6), ("eq", 4)]),
            "clear" => boost(&[("clear", 10), ("intern", 40), ("internS", 10), ("audit", 5), ("get", 10), ("tryResolve", 10)]),
            "views" => boost(&[("intoReader", 6), ("intoResolver", 6), ("new", 6), ("get", 12), ("tryResolve", 8), ("iter", 4), ("via", 8), ("clone", 2), ("clear", 2)]),
            "iter" => boost(&[("iterScript", 25), ("iter", 5), ("strings", 5), ("intoReader", 3), ("intoResolver", 3), ("new", 4)]),
            "serde" => boost(&[("roundtrip", 12), ("ser", 8), ("new", 5), ("intoReader", 3), ("intoResolver", 3), ("internS", 6)]),
            "static" => boost(&[("internS", 25), ("internSP", 8), ("via", 25), ("intoReader", 3), ("intoResolver", 3), ("resolve", 10), ("clone", 2), ("mem", 5)]),
            "wrap" => boost(&[("via", 45), ("extend", 5), ("fromIter", 5), ("index", 6), ("iterScript", 4), ("intoReader", 2), ("intoResolver", 2)]),
            "docs" => boost(&[("de", 45), ("intern", 10), ("get", 10), ("tryResolve", 10), ("iter", 6), ("intoReader", 5), ("intoResolver", 6), ("ser", 3), ("roundtrip", 3), ("iterScript", 4), ("audit", 3), ("drop", 4), ("internS", 3)]),
            "eq" => boost(&[("eq", 30), ("new", 10), ("clone", 6), ("intoReader", 5), ("intoResolver", 5), ("fromIter", 5), ("roundtrip", 4)]),
            _ => base,
        }
    }

    fn script(&mut self) -> String {
        let n = self.rng.range(2, 14);
        let mut v = Vec::new();
        for _ in 0..n {
            let r = self.rng.below(100);
            v.push(if r < 35 {
                "n".to_string()
            } else if r < 60 {
                "b".to_string()
            } else if r < 80 {
                format!("t{}", self.rng.below(4))
            } else {
                "l".to_string()
            });
        }
        v.join(",")
    }

    fn items(&mut self, si: usize) -> String {
        let n = self.rng.below(8);
        let mut v = Vec::new();
        if self.rng.chance(1, 4) {
            // a run of distinct strings of one length (neighbours that differ only in content), now and then
            // with a genuine repeat in the middle
            let tag = self.rng.below(90) + 10;
            let len_pad = self.rng.below(3) as usize;
            let m = 2 + self.rng.below(6);
            for i in 0..m {
                let j = if i > 0 && self.rng.chance(1, 6) { i - 1 } else { i };
                v.push(hex(format!("r{tag}{}{j}", "_".repeat(len_pad)).as_bytes()));
            }
        }
        for _ in 0..n {
            let s = self.some_string(si);
            v.push(hex(&s));
        }
        if v.is_empty() {
            "_".into()
        } else {
            v.join(",")
        }
    }

    fn gen_op(&mut self) {
        let w = self.weights();
        let total: u32 = w.iter().map(|x| x.1).sum();
        let mut r = self.rng.below(total as u64) as u32;
        let mut op = "intern";
        for (o, wt) in &w {
            if r < *wt {
                op = o;
                break;
            }
            r -= wt;
        }
        let interners = self.live(&["rodeo", "threaded"]);
        let rodeos = self.live(&["rodeo"]);
        let any = self.live(&["rodeo", "threaded", "reader", "resolver"]);
        if any.is_empty() || (interners.is_empty() && self.rng.chance(1, 2)) {
            op = "new";
        }
        match op {
            "new" => {
                if self.live(&["rodeo", "threaded", "reader", "resolver"]).len() >= 5 {
                    return;
                }
                let kind = if self.rng.chance(2, 3) { "rodeo" } else { "threaded" };
                let bytes = if self.rng.chance(2, 3) { self.slots.first().map(|s| s.bytes).unwrap_or(8) } else { self.pick_bytes() };
                let limit = self.pick_limit(bytes);
                self.new_slot(kind, bytes, limit);
            }
            "intern" | "internP" => {
                let Some(&si) = interners.get(self.rng.below(interners.len().max(1) as u64) as usize) else { return };
                let x = self.some_string(si);
                self.emit(format!("{op} {si} {}", hex(&x)));
                self.note_intern(si, x);
            }
            "internS" | "internSP" => {
                let Some(&si) = interners.get(self.rng.below(interners.len().max(1) as u64) as usize) else { return };
                if self.pool.is_empty() {
                    return;
                }
                let pi = self.rng.below(self.pool.len() as u64) as usize;
                self.emit(format!("{op} {si} {pi}"));
                let x = self.pool[pi].clone();
                self.note_intern(si, x);
            }
            "get" | "contains" => {
                let c = self.live(&["rodeo", "threaded", "reader"]);
                let Some(&si) = c.get(self.rng.below(c.len().max(1) as u64) as usize) else { return };
                let x = self.some_string(si);
                self.emit(format!("{op} {si} {}", hex(&x)));
            }
            "resolve" | "index" | "tryResolve" | "containsKey" | "resolveU" => {
                let si = any[self.rng.below(any.len() as u64) as usize];
                let mut k = self.some_key(si);
                if op == "resolveU" && self.slots[si].kind == "threaded" {
                    return;
                }
                let _ = &mut k;
                self.emit(format!("{op} {si} {k}"));
            }
            "len" | "isEmpty" | "mem" | "max" | "iter" | "strings" | "ser" | "audit" => {
                let si = any[self.rng.below(any.len() as u64) as usize];
                if op == "max" && !interners.contains(&si) {
                    return;
                }
                self.emit(format!("{op} {si}"));
            }
            "setLimit" => {
                let Some(&si) = interners.get(self.rng.below(interners.len().max(1) as u64) as usize) else { return };
                let b = self.slots[si].bytes;
                let l = self.pick_limit(b);
                self.slots[si].limit = l;
                self.emit(format!("setLimit {si} {}", l.map(|x| x.to_string()).unwrap_or_else(|| "max".into())));
            }
            "clear" => {
                let Some(&si) = rodeos.get(self.rng.below(rodeos.len().max(1) as u64) as usize) else { return };
                self.slots[si].strs.clear();
                self.emit(format!("clear {si}"));
            }
            "clone" | "tryClone" => {
                let Some(&a) = rodeos.get(self.rng.below(rodeos.len().max(1) as u64) as usize) else { return };
                if any.len() >= 6 {
                    return;
                }
                let b = self.slots.iter().position(|s| s.kind == "gone").unwrap_or(self.slots.len());
                if b == self.slots.len() {
                    self.slots.push(self.slots[a].clone());
                } else {
                    self.slots[b] = self.slots[a].clone();
                }
                self.emit(format!("{op} {a} {b}"));
            }
            "cloneFrom" | "tryCloneFrom" => {
                if rodeos.len() < 2 {
                    return;
                }
                let a = rodeos[self.rng.below(rodeos.len() as u64) as usize];
                let b = rodeos[self.rng.below(rodeos.len() as u64) as usize];
                if a == b {
                    return;
                }
                let src = self.slots[b].strs.clone();
                self.slots[a].strs = src;
                self.emit(format!("{op} {a} {b}"));
            }
            "drop" => {
                if any.len() < 2 {
                    return;
                }
                let si = any[self.rng.below(any.len() as u64) as usize];
                self.slots[si].kind = "gone";
                self.emit(format!("drop {si}"));
            }
            "intoReader" | "intoResolver" => {
                let c = if op == "intoReader" { self.live(&["rodeo", "threaded"]) } else { self.live(&["rodeo", "threaded", "reader"]) };
                let Some(&si) = c.get(self.rng.below(c.len().max(1) as u64) as usize) else { return };
                // keep at least one interner around most of the time
                if interners.len() <= 1 && interners.contains(&si) && self.rng.chance(2, 3) {
                    return;
                }
                let kind = self.slots[si].kind;
                let via = if self.rng.chance(1, 2) { self.route_for(kind, "convert") } else { None };
                self.slots[si].kind = if op == "intoReader" { "reader" } else { "resolver" };
                match via {
                    Some(r) => self.emit(format!("via {r} {op} {si}")),
                    None => self.emit(format!("{op} {si}")),
                }
            }
            "iterScript" => {
                let c = self.live(&["rodeo", "reader", "resolver"]);
                let Some(&si) = c.get(self.rng.below(c.len().max(1) as u64) as usize) else { return };
                let kind = *self.rng.pick(&["iter", "strings", "intoiter"]);
                let sc = self.script();
                self.emit(format!("iterScript {si} {kind} {sc}"));
            }
            "eq" => {
                let a = any[self.rng.below(any.len() as u64) as usize];
                let b = any[self.rng.below(any.len() as u64) as usize];
                // supported pairings only (the others do not compile)
                let (ka, kb) = (self.slots[a].kind, self.slots[b].kind);
                if kb == "threaded" && ka != "threaded" {
                    return;
                }
                self.emit(format!("eq {a} {b}"));
            }
            "roundtrip" => {
                let a = any[self.rng.below(any.len() as u64) as usize];
                if any.len() >= 6 {
                    return;
                }
                let b = self.slots.iter().position(|s| s.kind == "gone").unwrap_or(self.slots.len());
                if b == self.slots.len() {
                    self.slots.push(self.slots[a].clone());
                } else {
                    self.slots[b] = self.slots[a].clone();
                }
                self.slots[b].limit = None;
                self.emit(format!("roundtrip {a} {b}"));
                // a deserialised interner must keep working: continue the history on it
                let kind = self.slots[b].kind;
                if (kind == "rodeo" || kind == "threaded") && self.rng.chance(3, 4) {
                    for _ in 0..self.rng.range(1, 3) {
                        let x = if self.rng.chance(2, 3) { self.fresh_str() } else { self.some_string(b) };
                        self.emit(format!("intern {b} {}", hex(&x)));
                        self.note_intern(b, x);
                    }
                    let k = self.some_key(b);
                    self.emit(format!("tryResolve {b} {k}"));
                }
            }
            "de" => {
                if any.len() >= 6 {
                    // make room
                    let si = any[self.rng.below(any.len() as u64) as usize];
                    self.slots[si].kind = "gone";
                    self.emit(format!("drop {si}"));
                }
                let b = self.slots.iter().position(|s| s.kind == "gone").unwrap_or(self.slots.len());
                let kind: &'static str = *self.rng.pick(&["rodeo", "reader", "resolver", "threaded", "threaded"]);
                let cap = self.cap;
                let roll = if cap <= 255 { self.rng.below(10) } else { self.rng.below(7) };
                let n = match roll {
                    0 => 0,
                    1..=6 => self.rng.range(1, 6) as usize,
                    7 => (cap.min(300) as usize).saturating_sub(1),
                    8 => cap.min(300) as usize,
                    _ => (cap.min(300) as usize) + self.rng.range(1, 3) as usize,
                };
                let mut strs: Vec<Vec<u8>> = Vec::new();
                for i in 0..n {
                    let r = self.rng.below(100);
                    if r < 25 && !strs.is_empty() && n <= 12 {
                        // a repetition, anywhere
                        let j = self.rng.below(strs.len() as u64) as usize;
                        strs.push(strs[j].clone());
                    } else if n > 12 {
                        let mut v = vec![b'd'];
                        v.extend(i.to_string().bytes());
                        strs.push(v);
                    } else {
                        let sidx = if self.slots.is_empty() { 0 } else { 0 };
                        let x = self.some_string(sidx);
                        strs.push(x);
                    }
                }
                if n > 12 && self.rng.chance(1, 3) && n >= 2 {
                    let j = self.rng.below((n - 1) as u64) as usize;
                    strs[n - 1] = strs[j].clone();
                }
                let doc = if kind == "threaded" {
                    // keys: dense permutation, then damaged in various ways
                    let mut keys: Vec<u128> = (1..=n as u128).collect();
                    for i in (1..keys.len()).rev() {
                        let j = self.rng.below((i + 1) as u64) as usize;
                        keys.swap(i, j);
                    }
                    if !keys.is_empty() {
                        let i = self.rng.below(keys.len() as u64) as usize;
                        match self.rng.below(9) {
                            0 => keys[i] = 0,
                            1 => keys[i] = keys[(i + 1) % keys.len()],
                            2 => keys[i] += 1 + self.rng.below(5) as u128,
                            3 => keys[i] = cap,
                            4 => keys[i] = cap + 1,
                            5 => keys[i] = u64::MAX as u128,
                            _ => {}
                        }
                    }
                    let items: Vec<String> = strs.iter().zip(keys.iter()).map(|(s, k)| format!("{}={}", hex(s), k)).collect();
                    if items.is_empty() { "_".to_string() } else { items.join(",") }
                } else if strs.is_empty() {
                    "_".to_string()
                } else {
                    strs.iter().map(|s| hex(s)).collect::<Vec<_>>().join(",")
                };
                let mut uniq: Vec<Vec<u8>> = Vec::new();
                for x in &strs {
                    if !uniq.contains(x) {
                        uniq.push(x.clone());
                    }
                }
                let gs = GSlot { kind, strs: uniq, bytes: 4096, limit: None };
                if b == self.slots.len() {
                    self.slots.push(gs);
                } else {
                    self.slots[b] = gs;
                }
                self.emit(format!("de {kind} {b} {doc}"));
                // every safe call on the result must be well-defined: use it right away
                let r = self.rng.below(100);
                if kind == "threaded" || kind == "rodeo" {
                    if r < 35 {
                        let op = if self.rng.chance(1, 2) { "intoResolver" } else { "intoReader" };
                        self.slots[b].kind = if op == "intoReader" { "reader" } else { "resolver" };
                        self.emit(format!("{op} {b}"));
                        self.emit(format!("iter {b}"));
                    } else if r < 70 {
                        let x = if self.rng.chance(1, 2) { self.fresh_str() } else { self.some_string(b) };
                        self.emit(format!("intern {b} {}", hex(&x)));
                        self.note_intern(b, x);
                        let y = self.some_string(b);
                        self.emit(format!("get {b} {}", hex(&y)));
                    }
                } else if r < 50 {
                    self.emit(format!("iter {b}"));
                    let k = self.some_key(b);
                    self.emit(format!("tryResolve {b} {k}"));
                }
            }
            "extend" => {
                let Some(&si) = interners.get(self.rng.below(interners.len().max(1) as u64) as usize) else { return };
                let it = self.items(si);
                self.emit(format!("extend {si} {it}"));
            }
            "fromIter" => {
                if any.len() >= 6 {
                    return;
                }
                let b = self.slots.iter().position(|s| s.kind == "gone").unwrap_or(self.slots.len());
                let kind: &'static str = if self.rng.chance(2, 3) { "rodeo" } else { "threaded" };
                if b == self.slots.len() {
                    self.slots.push(GSlot { kind, strs: Vec::new(), bytes: 4096, limit: None });
                } else {
                    self.slots[b] = GSlot { kind, strs: Vec::new(), bytes: 4096, limit: None };
                }
                let it = self.items(b);
                let hint = *self.rng.pick(&["exact", "none", "low", "half"]);
                self.emit(format!("fromIter {b} {kind} {it} {hint}"));
            }
            "via" => {
                let si = any[self.rng.below(any.len() as u64) as usize];
                let kind = self.slots[si].kind;
                let r = self.rng.below(100);
                if r < 55 && (kind == "rodeo" || kind == "threaded") {
                    let Some(route) = self.route_for(kind, "intern") else { return };
                    let r2 = self.rng.below(100);
                    if r2 < 45 && !self.pool.is_empty() {
                        let pi = self.rng.below(self.pool.len() as u64) as usize;
                        let o = if self.rng.chance(3, 4) { "internS" } else { "internSP" };
                        self.emit(format!("via {route} {o} {si} {pi}"));
                        let x = self.pool[pi].clone();
                        self.note_intern(si, x);
                    } else {
                        let x = self.some_string(si);
                        let o = if self.rng.chance(3, 4) { "intern" } else { "internP" };
                        self.emit(format!("via {route} {o} {si} {}", hex(&x)));
                        self.note_intern(si, x);
                    }
                } else {
                    let Some(route) = self.route_for(kind, "query") else { return };
                    let q = *self.rng.pick(&["get", "contains", "resolve", "tryResolve", "containsKey", "len", "isEmpty"]);
                    if kind == "resolver" && (q == "get" || q == "contains") {
                        return;
                    }
                    match q {
                        "get" | "contains" => {
                            let x = self.some_string(si);
                            self.emit(format!("via {route} {q} {si} {}", hex(&x)));
                        }
                        "len" | "isEmpty" => self.emit(format!("via {route} {q} {si}")),
                        _ => {
                            let k = self.some_key(si);
                            self.emit(format!("via {route} {q} {si} {k}"));
                        }
                    }
                }
            }
            _ => {}
        }
    }

    /// One generated case.
    pub fn case(&mut self, n_ops: usize) {
        let (kname, cap) = self.pick_key();
        self.cap = cap;
        let hk = *self.rng.pick(&HashKind::ALL);
        let hk = if self.rng.chance(2, 5) { HashKind::Fnv1a } else { hk };
        let bytes = self.pick_bytes();
        self.slots.clear();
        self.build_universe(bytes);
        self.emit(format!("case {kname} {}", hk.name()));
        let pool: Vec<String> = self.pool.iter().map(|p| hex(p)).collect();
        self.emit(format!("pool {}", pool.join(" ")));
        let limit = self.pick_limit(bytes);
        let kind = if self.profile == "clone" || self.profile == "clear" || self.rng.chance(2, 3) { "rodeo" } else { "threaded" };
        let s0 = self.new_slot(kind, bytes, limit);
        if self.profile == "exhaust" {
            // fill close to capacity with distinct short strings, then play at the boundary
            let target = (cap as usize).saturating_sub(self.rng.below(3) as usize).min(300);
            for _ in 0..target {
                let x = self.fresh_str();
                let st = self.rng.chance(1, 8) && !self.pool.is_empty();
                if st {
                    let pi = self.rng.below(self.pool.len() as u64) as usize;
                    self.emit(format!("internS {s0} {pi}"));
                    let x = self.pool[pi].clone();
                    self.note_intern(s0, x);
                } else {
                    self.emit(format!("intern {s0} {}", hex(&x)));
                    self.note_intern(s0, x);
                }
            }
        }
        if self.profile == "eq" && kind == "rodeo" && self.pool.len() > 3 && self.rng.chance(1, 2) {
            // two interners that differ in exactly one static string; the two statics may share
            // their start address (prefix / whole) or their contents (same bytes, two addresses)
            let s1 = self.new_slot("rodeo", bytes, None);
            let common: Vec<Vec<u8>> = (0..self.rng.range(0, 3)).map(|_| self.fresh_str()).collect();
            for x in &common {
                for si in [s0, s1] {
                    self.emit(format!("intern {si} {}", hex(x)));
                    self.note_intern(si, x.clone());
                }
            }
            let other = *self.rng.pick(&[3usize, 3, 2, 1]);
            for (si, pi) in [(s0, 0usize), (s1, other)] {
                self.emit(format!("internS {si} {pi}"));
                let x = self.pool[pi].clone();
                self.note_intern(si, x);
            }
            self.emit(format!("eq {s0} {s1}"));
            self.emit(format!("eq {s1} {s0}"));
            if self.rng.chance(1, 2) {
                let op = *self.rng.pick(&["intoReader", "intoResolver"]);
                self.emit(format!("{op} {s1}"));
                self.slots[s1].kind = if op == "intoReader" { "reader" } else { "resolver" };
                self.emit(format!("eq {s0} {s1}"));
                self.emit(format!("eq {s1} {s0}"));
            }
        }
        for _ in 0..n_ops {
            self.gen_op();
        }
        // closing sweep of observations on every live object
        for si in self.live(&["rodeo", "threaded", "reader", "resolver"]) {
            self.emit(format!("iter {si}"));
            self.emit(format!("audit {si}"));
        }
    }

    /// Two interners of `n` strings that are equal (`variant` 0) or differ in exactly two positions in a way
    /// that keeps every aggregate equal - the count, the total length, the multiset of strings (1: two strings
    /// swapped; 2: one string loses its last byte and another gains one, each still a prefix of / extended from
    /// its counterpart; 3: an empty string and a non-empty one swapped) - compared in both directions and again
    /// after one side became a reader and then a resolver.
    pub fn eq_pairs_case(&mut self, n: usize, variant: usize, kinds: usize) {
        self.cap = 4294967295;
        self.slots.clear();
        self.build_universe(8);
        self.emit("case spur fnv1a".into());
        let pool: Vec<String> = self.pool.iter().map(|p| hex(p)).collect();
        self.emit(format!("pool {}", pool.join(" ")));
        // both single-threaded / both concurrent / one of each
        let (k0, k1) = [("rodeo", "rodeo"), ("threaded", "threaded"), ("rodeo", "threaded")][kinds % 3];
        let s0 = self.new_slot(k0, 4096, None);
        let s1 = self.new_slot(k1, 4096, None);
        let mut a: Vec<Vec<u8>> = (0..n).map(|i| format!("w{i:04}x").into_bytes()).collect();
        let i = (self.rng.below(n as u64 - 1)) as usize;
        let j = i + 1 + self.rng.below((n - i - 1) as u64) as usize;
        if variant == 3 {
            a[i] = Vec::new();
        }
        let mut b = a.clone();
        match variant {
            1 | 3 => b.swap(i, j),
            2 => {
                b[i].pop();
                b[j].push(b'y');
            }
            _ => {}
        }
        for (si, l) in [(s0, &a), (s1, &b)] {
            for x in l.iter() {
                self.emit(format!("intern {si} {}", hex(x)));
                self.note_intern(si, x.clone());
            }
        }
        for conv in ["", "intoReader", "intoResolver"] {
            if !conv.is_empty() {
                self.emit(format!("{conv} {s1}"));
                self.slots[s1].kind = if conv == "intoReader" { "reader" } else { "resolver" };
            }
            self.emit(format!("eq {s0} {s1}"));
            self.emit(format!("eq {s1} {s0}"));
            self.emit(format!("eq {s1} {s1}"));
        }
    }

    /// Many distinct strings into a zero-capacity table: several real table growths.
    pub fn growth_case(&mut self, n: usize, hasher: &str) {
        self.cap = 4294967295;
        self.slots.clear();
        self.build_universe(8);
        self.emit(format!("case spur {hasher}"));
        let pool: Vec<String> = self.pool.iter().map(|p| hex(p)).collect();
        self.emit(format!("pool {}", pool.join(" ")));
        self.emit("new 0 rodeo 0 8 max".into());
        self.slots.push(GSlot { kind: "rodeo", strs: Vec::new(), bytes: 8, limit: None });
        // long strings first: they have to survive every growth that follows
        let longs: Vec<Vec<u8>> = [(150usize, 4u64), (150, 11), (300, 5), (1100, 6)].iter().map(|(l, v)| filler(*l, *v)).collect();
        for x in &longs {
            self.emit(format!("intern 0 {}", hex(x)));
            self.note_intern(0, x.clone());
        }
        for i in 0..n {
            let x = self.fresh_str();
            self.emit(format!("intern 0 {}", hex(&x)));
            self.note_intern(0, x);
            if i % 16 == 9 {
                let y = longs[i % longs.len()].clone();
                self.emit(format!("get 0 {}", hex(&y)));
                self.emit(format!("intern 0 {}", hex(&y)));
            }
            if i % 7 == 3 {
                let y = self.some_string(0);
                self.emit(format!("get 0 {}", hex(&y)));
            }
        }
        self.emit("iter 0".into());
        self.emit("intoReader 0".into());
        for _ in 0..20 {
            let y = self.some_string(0);
            self.emit(format!("get 0 {}", hex(&y)));
        }
    }
}
