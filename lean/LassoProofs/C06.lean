import LassoProofs.Lemmas.Views
import LassoModel.Extracted
import LassoProofs.C02
import LassoProofs.Lemmas.Config
/-
  C06 — reader and resolver views preserve every association of their source.

  A view is an immutable value in the model: every query is a pure function of it, so any number of
  threads querying a view at once get the answers of the sequential run (`views_pure`).  That the
  real views have no interior mutability reachable from `&self` is not a theorem here: it rests on
  the extracted receivers (C20's table: every view method takes `&self`) and is exercised by the
  concurrent-reader run of the harness.
-/
namespace Lasso.C06
open Lasso Lasso.C02

/-- Direct route from the single-threaded interner: the view *is* the interner's table, vector and
arena, so every query is definitionally the same function of the same data. -/
theorem rodeo_views_same (env : Env) (r : Rodeo) (k : Nat) (x : Bytes) :
    r.intoReader.get env x = r.get env x ∧
    r.intoReader.resolve env k = r.resolve env k ∧ r.intoReader.tryResolve env k = r.tryResolve env k ∧
    r.intoReader.resolveUnchecked env k = r.resolveUnchecked env k ∧ r.intoReader.containsKey k = r.containsKey k ∧
    r.intoReader.iter env = r.iter env ∧ r.intoReader.strings.length = r.len ∧
    r.intoResolver.resolve env k = r.resolve env k ∧ r.intoResolver.tryResolve env k = r.tryResolve env k ∧
    r.intoResolver.containsKey k = r.containsKey k ∧ r.intoResolver.iter env = r.iter env ∧
    r.intoReader.intoResolver = r.intoResolver :=
  ⟨rfl, rfl, rfl, rfl, rfl, rfl, rfl, rfl, rfl, rfl, rfl, rfl⟩

/-- For a reachable interner this means: the reader answers every string-to-key probe (interned or
not) exactly, never faults, and every key minted before the conversion resolves to its string. -/
theorem rodeo_reader_exact {env : Env} {r : Rodeo} (h : RodeoReach env r) (x : Bytes) :
    ∃ o, r.intoReader.get env x = .ok o ∧ (∀ k, o = some k ↔ r.str env k = some x) :=
  Rodeo.get_spec (rodeo_reach_inv h) x

/-- Concurrent interner → resolver: the conversion does not fault (the scatter by key index is in
bounds and fills every slot because the keys in use are exactly `0..len-1`) and the resolver has
the same count and the same string under every key. -/
theorem threaded_into_resolver {env : Env} {t : Threaded} (h : ThreadedReach env t) :
    ∃ rs, t.intoResolver = .ok rs ∧ rs.strings.length = t.len ∧
      ∀ k, rs.str env k = t.str env k ∧
        (∀ x, t.str env k = some x → rs.resolve env k = .ok x ∧ rs.tryResolve env k = .ok (some x) ∧ rs.containsKey k = true) ∧
        (t.str env k = none → rs.tryResolve env k = .ok none ∧ rs.containsKey k = false) := by
  obtain ⟨rs, h1, h2, _, _, h5⟩ := Threaded.intoResolver_spec (threaded_reach_inv h)
  refine ⟨rs, h1, h2, fun k => ⟨h5 k, ?_, ?_⟩⟩
  · intro x hx
    have hs : strAt env rs.arena.read rs.strings k = some x := by rw [← hx]; exact h5 k
    have hl := strAt_lt hs
    simp [Resolver.resolve, resolveIn, Resolver.tryResolve, tryResolveIn, Resolver.containsKey, hl, hs]
  · intro hn
    have hk : ¬ k < rs.strings.length := by
      intro hk
      have hi := threaded_reach_inv h
      obtain ⟨ref, hr⟩ := (hi.dense k).mp (by rw [← h2]; exact hk)
      obtain ⟨y, hy⟩ := Threaded.content_some hi hr
      rw [(Threaded.str_iff hi k y).mpr ⟨ref, hr, hy⟩] at hn
      simp at hn
    simp [Resolver.tryResolve, tryResolveIn, Resolver.containsKey, hk]

/-- Concurrent interner → reader: additionally every string-to-key answer is preserved, "absent"
included, for every probe string. -/
theorem threaded_into_reader {env : Env} {t : Threaded} (h : ThreadedReach env t) :
    ∃ rd, t.intoReader env = .ok rd ∧ rd.strings.length = t.len ∧ (∀ k, rd.str env k = t.str env k) ∧
      ∀ x, ∃ o, rd.get env x = .ok o ∧ o = t.get env x := by
  have hi := threaded_reach_inv h
  obtain ⟨rd, h1, hg, h3, _, h5⟩ := Threaded.intoReader_spec hi
  refine ⟨rd, h1, h3, h5, ?_⟩
  intro x
  obtain ⟨o, ho, hs⟩ := Reader.get_spec hg x
  refine ⟨o, ho, ?_⟩
  cases o with
  | none =>
    cases hg2 : t.get env x with
    | none => rfl
    | some k =>
      have := (Threaded.get_spec hi x k).mp hg2
      rw [← h5 k] at this
      have := (hs k).mpr this
      simp at this
  | some k =>
    have := (hs k).mp rfl
    rw [h5 k] at this
    exact ((Threaded.get_spec hi x k).mpr this).symm

/-- Reader → resolver moves the vector and the arena. -/
theorem reader_into_resolver (env : Env) (rd : Reader) (k : Nat) :
    rd.intoResolver.resolve env k = rd.resolve env k ∧ rd.intoResolver.tryResolve env k = rd.tryResolve env k ∧
    rd.intoResolver.iter env = rd.iter env ∧ rd.intoResolver.containsKey k = rd.containsKey k :=
  ⟨rfl, rfl, rfl, rfl⟩

/-! Concurrent readers: there is no theorem to state — the model has no operation on a view that
returns a changed view, every query above is a function `View → Answer`, so the answers cannot depend
on how queries of different threads interleave.  This clause of the property is therefore covered
only structurally by the model and empirically by the harness (`partial`, see DESIGN.md). -/

/-! ### Tie to the source

In the model a reader / resolver made from a `Rodeo` (or a resolver made from a reader) *is* the same
fields (`rodeo_views_same`).  The bodies of the three conversions regenerated from the source only
destructure `self` and hand the fields to the view's constructor. -/
theorem conversion_bodies_move_fields :
    Extracted.rodeoIntoReaderBody = .moves (.readerNew [.map, .hasher, .strings, .arena]) ∧
    Extracted.rodeoIntoResolverBody = .moves (.resolverNew [.strings, .arena]) ∧
    Extracted.readerIntoResolverBody = .moves (.resolverNew [.strings, .arena]) := by
  decide

/-! ### Concurrent readers of a view

"Any number of threads may query a view at once and all get the same answers."  In the model a view is an
immutable value and every query a function of it.  On the source side this rests on three regenerated facts,
decided here: no method of `RodeoReader` / `RodeoResolver` (inherent or through the traits) takes `&mut self`;
apart from the consuming conversions none of them touches the arena - the only field that can hold interior
mutability (the lock-free arena's atomics, when the view came from the concurrent interner) - and every field
they do touch (`map`, `hasher`, `strings`) has a type without atomics, locks or cells; and the views are `Sync`
only under the bounds C19 proves.  A query is then a read of plain data through a shared reference. -/
def plainTy : Nat → Source.TyE → Bool
  | 0, _ => false
  | _ + 1, .param _ => true
  | n + 1, .ref t => plainTy n t
  | n + 1, .array t => plainTy n t
  | n + 1, .app c args =>
    (match c with
      | .atomicUsize | .atomicPtr | .dashMap | .lockfreeArena | .atomicBucket | .atomicBucketList | .other _ => false
      | _ => true) && args.all (plainTy n)

theorem view_queries_are_pure_reads :
    (Extracted.viewMethods.all fun m =>
      !m.unknownField && m.recv != .refMut &&
        (m.recv == .val || m.recv == .boxSelf || m.recv == .none || !(m.fields.contains .arena))) = true ∧
    (Extracted.viewMethods.any fun m => m.name == "get" && m.recv == .ref) = true ∧
    ((Extracted.structDefs.filter fun d => d.name == .reader || d.name == .resolver).all fun d =>
      d.fields.all fun t => (match t with
        | .app .anyArena _ => true      -- the arena: never touched by a query (first clause)
        | t => plainTy 6 t)) = true ∧
    ((Extracted.structDefs.filter fun d => d.name == .reader || d.name == .resolver).length = 2) := by
  decide

/-- The code this file's theorems are about is the same under every feature configuration: the regenerated
census of conditional compilation contains import blocks, whole serde impls, optional-dependency impls and
module declarations only, and no gate inside any function body (`Lemmas/Config.lean`). -/
theorem same_code_under_every_feature_configuration :
    (Extracted.cfgGates.all fun g => g.kind != .other) = true ∧ Extracted.bodyGates.isEmpty = true :=
  Lasso.one_code_base_for_all_configurations

end Lasso.C06
