import LassoProofs.C02
import LassoModel.Serde
import LassoProofs.Lemmas.Config
/-
  C10 — keys are dense and ordered; counts and iteration agree with them.
-/
namespace Lasso.C10
open Lasso Lasso.C02

/-- Every key index below the count is in use and denotes a string, no other is; i.e. the keys in
use are exactly `0 .. len-1`, and `contains_key`, `len`, `is_empty` agree with that. -/
theorem rodeo_dense {env : Env} {r : Rodeo} (h : RodeoReach env r) (k : Nat) :
    (k < r.len ↔ ∃ x, r.str env k = some x) ∧ (r.containsKey k = true ↔ k < r.len) := by
  have hi := rodeo_reach_inv h
  refine ⟨⟨fun hk => hi.str_total k hk, fun ⟨x, hx⟩ => Rodeo.Inv.str_lt hx⟩, by simp [Rodeo.containsKey, Rodeo.len]⟩

theorem threaded_dense {env : Env} {t : Threaded} (h : ThreadedReach env t) (k : Nat) :
    (k < t.len ↔ ∃ x, t.str env k = some x) ∧ (t.containsKey k = true ↔ k < t.len) := by
  have hi := threaded_reach_inv h
  have key : k < t.strs.length ↔ ∃ x, t.str env k = some x := by
    constructor
    · intro hk
      obtain ⟨ref, hr⟩ := (hi.dense k).mp hk
      obtain ⟨y, hy⟩ := Threaded.content_some hi hr
      exact ⟨y, (Threaded.str_iff hi k y).mpr ⟨ref, hr, hy⟩⟩
    · rintro ⟨x, hx⟩
      obtain ⟨ref, hr, _⟩ := (Threaded.str_iff hi k x).mp hx
      exact (hi.dense k).mpr ⟨ref, hr⟩
  refine ⟨key, ?_⟩
  unfold Threaded.containsKey Threaded.resolveRef Threaded.len
  constructor
  · intro hc
    cases hg : assocGet k t.strs with
    | none => simp [hg] at hc
    | some r => exact (hi.dense k).mpr ⟨r, mem_of_assocGet hg⟩
  · intro hk
    obtain ⟨ref, hr⟩ := (hi.dense k).mp hk
    simp [assocGet_of_mem hi.strNd hr]

/-- A string that is new gets the next index: the `i`-th distinct string interned since the last
`clear` is numbered `i`, whatever duplicates, static strings and failed calls came in between. -/
theorem rodeo_next_key {env : Env} {r r' : Rodeo} (h : RodeoReach env r) (x : Bytes) (g : Bool) (k : Nat)
    (hs : r.tryIntern env x g = .ok (r', k)) (hnew : ∀ j, r.str env j ≠ some x) :
    k = r.len ∧ r'.len = r.len + 1 := by
  rcases Rodeo.tryIntern_spec (rodeo_reach_inv h) x g with ⟨j, hj, _⟩ | ⟨_, ⟨_, he⟩ | ⟨_, ⟨_, he⟩ | ⟨r'', ref, he, _, hp⟩⟩⟩
  · exact absurd hj (hnew j)
  · rw [he] at hs; simp at hs
  · rw [he] at hs; simp at hs
  · rw [he] at hs; injection hs with hs; injection hs with a b; subst a b
    exact ⟨rfl, by simp [Rodeo.len, hp.strings]⟩

theorem rodeo_next_key_static {env : Env} {r r' : Rodeo} (h : RodeoReach env r) (i : Nat) (x : Bytes)
    (hp : env.pool[i]? = some x) (g : Bool) (k : Nat)
    (hs : r.tryInternStatic env i g = .ok (r', k)) (hnew : ∀ j, r.str env j ≠ some x) :
    k = r.len ∧ r'.len = r.len + 1 := by
  rcases Rodeo.tryInternStatic_spec (rodeo_reach_inv h) i x hp g with ⟨j, hj, _⟩ | ⟨_, ⟨_, he⟩ | ⟨_, r'', he, _, hq⟩⟩
  · exact absurd hj (hnew j)
  · rw [he] at hs; simp at hs
  · rw [he] at hs; injection hs with hs; injection hs with a b; subst a b
    exact ⟨rfl, by simp [Rodeo.len, hq.strings]⟩

theorem threaded_next_key {env : Env} {t t' : Threaded} (h : ThreadedReach env t) (x : Bytes) (k : Nat)
    (hs : t.tryIntern env x = (t', .ok k)) (hnew : ∀ j, t.str env j ≠ some x) :
    k = t.len ∧ t'.len = t.len + 1 := by
  rcases Threaded.tryIntern_spec (threaded_reach_inv h) x with ⟨j, hj, _⟩ | ⟨_, ⟨_, he⟩ | ⟨a', ref, _, ⟨_, he, _, _⟩ | ⟨_, he, hp⟩⟩⟩
  · exact absurd hj (hnew j)
  · rw [he] at hs; injection hs with a b; simp at b
  · rw [he] at hs; injection hs with a b; simp at b
  · rw [he] at hs; injection hs with a b; injection b with b; subst a b
    exact ⟨rfl, by simp [Threaded.len, hp.strs]⟩

/-- A failed or duplicate call does not change the count. -/
theorem rodeo_len_unchanged_on_present {env : Env} {r : Rodeo} (h : RodeoReach env r) (x : Bytes) (g : Bool) (k : Nat)
    (hk : r.str env k = some x) : r.tryIntern env x g = .ok (r, k) := rodeo_present_noop h x k g hk

/-- Iterating pairs yields exactly `(i, string of key i)` for `i = 0 .. len-1`, in key order. -/
theorem rodeo_iter_exact {env : Env} {r : Rodeo} (h : RodeoReach env r) :
    ∃ l, r.iter env = .ok l ∧ l.length = r.len ∧ ∀ k x, r.str env k = some x → l[k]? = some (k, x) := by
  have hi := rodeo_reach_inv h
  obtain ⟨l, h1, h2, h3⟩ := iterIn_spec env r.arena.read r.N r.strings 0 (by have := hi.lenLe; omega)
    (fun ref hr => hi.content_some ref hr)
  exact ⟨l, h1, h2, fun k x hk => by simpa using h3 k x hk⟩

/-- The concurrent interner's iteration (canonicalised by key) is a permutation of its key->string map. -/
theorem insertSorted_perm (e : Nat × StrRef) (l : List (Nat × StrRef)) : (Threaded.insertSorted e l).Perm (e :: l) := by
  induction l with
  | nil => simp [Threaded.insertSorted]
  | cons a r ih =>
    unfold Threaded.insertSorted
    split
    · exact List.Perm.refl _
    · exact (List.Perm.cons a ih).trans (List.Perm.swap e a r)

theorem threaded_iter_perm (t : Threaded) : t.sortedStrs.Perm t.strs := by
  unfold Threaded.sortedStrs
  induction t.strs with
  | nil => simp
  | cons a r ih => simp only [List.foldr_cons]; exact (insertSorted_perm a _).trans (List.Perm.cons a ih)

/-! ### The iterator state machine (`next`, `next_back`, `nth_back`, `len`) -/

theorem dropLast_append_last {l : List α} {x : α} (h : l.getLast? = some x) : l.dropLast ++ [x] = l := by
  induction l with
  | nil => simp at h
  | cons a r ih =>
    cases r with
    | nil => simp at h; simp [h]
    | cons b r' =>
      have : (b :: r').getLast? = some x := by simpa [List.getLast?_cons_cons] using h
      simp [List.dropLast, ih this]

theorem iter_next (l : List α) : iterStep l .next = (l.tail, l.head?.map Sum.inl) := by
  cases l <;> simp [iterStep]

theorem iter_len (l : List α) : iterStep l .len = (l, some (Sum.inr l.length)) := rfl

theorem iter_nextBack (l : List α) : iterStep l .nextBack = (l.dropLast, l.getLast?.map Sum.inl) := by
  unfold iterStep
  cases h : l.getLast? with
  | none => simp [List.getLast?_eq_none_iff.mp h]
  | some x => simp

/-- Every step leaves a *contiguous* part of what was left (nothing is yielded twice, nothing is
reordered), the remaining length after `next`/`next_back` drops by exactly one when an item is
produced, and an exhausted iterator stays exhausted (`None` forever). -/
theorem iter_step_infix (l : List α) (s : IterStep) : ∃ pre post, l = pre ++ (iterStep l s).1 ++ post := by
  cases s with
  | next => cases l with
    | nil => exact ⟨[], [], rfl⟩
    | cons x r => exact ⟨[x], [], by simp [iterStep]⟩
  | nextBack =>
    rw [iter_nextBack]
    cases h : l.getLast? with
    | none => exact ⟨[], [], by simp [List.getLast?_eq_none_iff.mp h]⟩
    | some x =>
      refine ⟨[], [x], ?_⟩
      simp only [List.nil_append]
      exact (dropLast_append_last h).symm
  | nthBack n =>
    simp only [iterStep]
    by_cases hn : n < l.length
    · simp only [hn, ↓reduceIte]
      cases hk : (l.take (l.length - n)).getLast? with
      | none => exact ⟨[], l, by simp⟩
      | some x =>
        refine ⟨[], x :: l.drop (l.length - n), ?_⟩
        simp only [List.nil_append]
        have := dropLast_append_last hk
        calc l = l.take (l.length - n) ++ l.drop (l.length - n) := (List.take_append_drop _ _).symm
          _ = ((l.take (l.length - n)).dropLast ++ [x]) ++ l.drop (l.length - n) := by rw [this]
          _ = _ := by simp
    · simp only [hn, ↓reduceIte]
      exact ⟨[], l, by simp⟩
  | len => exact ⟨[], [], by simp [iterStep]⟩

theorem iter_exhausted_stays (s : IterStep) : iterStep ([] : List α) s = ([], match s with
    | .len => some (Sum.inr 0)
    | _ => none) := by
  cases s <;> simp [iterStep]

theorem iter_item_drops_one (l : List α) (x : α) :
    ((iterStep l .next).2 = some (Sum.inl x) → (iterStep l .next).1.length + 1 = l.length) ∧
    ((iterStep l .nextBack).2 = some (Sum.inl x) → (iterStep l .nextBack).1.length + 1 = l.length) := by
  constructor
  · cases l <;> simp [iterStep]
  · rw [iter_nextBack]
    cases h : l.getLast? with
    | none => simp
    | some y =>
      intro _
      have := dropLast_append_last h
      have hl : l.length = (l.dropLast ++ [y]).length := by rw [this]
      simp at hl; simp; omega

/-- The code this file's theorems are about is the same under every feature configuration: the regenerated
census of conditional compilation contains import blocks, whole serde impls, optional-dependency impls and
module declarations only, and no gate inside any function body (`Lemmas/Config.lean`). -/
theorem same_code_under_every_feature_configuration :
    (Extracted.cfgGates.all fun g => g.kind != .other) = true ∧ Extracted.bodyGates.isEmpty = true :=
  Lasso.one_code_base_for_all_configurations

end Lasso.C10
