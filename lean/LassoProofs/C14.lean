import LassoProofs.Lemmas.SerDoc
import LassoProofs.C15
import LassoModel.Extracted
import LassoProofs.Lemmas.Config
import LassoProofs.Lemmas.DeserInterp
/-
  C14 — serialisation round-trips and yields a working interner.

  `Serialize` writes the list of contents in key order (vector containers) resp. the string->raw-key
  map (concurrent interner); the round trip below is `deserialize (serialize x)` at serde's data-model
  level, which is what the driver's `roundtrip` operation executes.
-/
namespace Lasso.C14
open Lasso Lasso.C02

/-- Vector containers: the serialised form of a reachable interner is its list of contents, and
deserialising it (as `Rodeo`, `RodeoReader` or `RodeoResolver`) succeeds with the same count and the
same string under every key; the result satisfies the interner invariant, so it keeps working as an
interner (next theorem). -/
theorem rodeo_roundtrip {env : Env} {r : Rodeo} (h : RodeoReach env r) :
    ∃ cs, Rodeo.contents env r.arena.read r.strings = some cs ∧
      (∃ r', deRodeo env r.N cs = .ok r' ∧ r'.Inv env ∧ r'.len = r.len ∧ ∀ k, r'.str env k = r.str env k) ∧
      (∃ rd, deReader env r.N cs = .ok rd ∧ rd.Good env ∧ ∀ k, rd.str env k = r.str env k) ∧
      (∃ rs, deResolver r.N cs = .ok rs ∧ rs.strings.length = r.len ∧ ∀ k, k < r.len → rs.str env k = r.str env k) := by
  have hi := rodeo_reach_inv h
  obtain ⟨cs, h1, h2, h3, h4⟩ := Rodeo.contents_of_inv hi
  have hle : cs.length ≤ r.N := by rw [h2]; exact hi.lenLe
  refine ⟨cs, h1, ?_, ?_, ?_⟩
  · rcases deRodeo_spec env r.N cs with ⟨r', e1, e2, _, e4, e5, _, _⟩ | ⟨_, hnot⟩
    · exact ⟨r', e1, e2, by simp [Rodeo.len, e4, h2], fun k => by rw [e5 k, h3 k]⟩
    · exact absurd ⟨h4, hle⟩ hnot
  · rcases C15.reader_total env r.N cs with ⟨rd, e1, e2, e3⟩ | he
    · exact ⟨rd, e1, e2, fun k => by rw [e3 k, h3 k]⟩
    · unfold deReader at he
      rcases deRodeo_spec env r.N cs with ⟨r', e1, _⟩ | ⟨_, hnot⟩
      · simp [e1] at he
      · exact absurd ⟨h4, hle⟩ hnot
  · rcases deResolver_spec env r.N cs with ⟨rs, e1, _, _, e4, e5, _⟩ | ⟨_, hbig⟩
    · refine ⟨rs, e1, by simp [Rodeo.len, e4, h2], ?_⟩
      intro k hk
      rw [e5 k (by simp [Rodeo.len] at hk; omega), h3 k]
    · omega

/-- A deserialised interner keeps working: a string already present returns its old key and leaves
the interner unchanged; a new string receives the next key, which no existing entry uses. -/
theorem rodeo_continue {env : Env} {r' : Rodeo} (h : r'.Inv env) (x : Bytes) (g : Bool) :
    (∀ k, r'.str env k = some x → r'.tryIntern env x g = .ok (r', k)) ∧
    ((∀ k, r'.str env k ≠ some x) → ∀ r'' k, r'.tryIntern env x g = .ok (r'', k) →
        k = r'.strings.length ∧ r'.tryResolve env k = .ok none ∧ r''.str env k = some x ∧
        ∀ j y, r'.str env j = some y → r''.str env j = some y) := by
  constructor
  · intro k hk
    rcases Rodeo.tryIntern_spec h x g with ⟨k', hk', he⟩ | ⟨hn, _⟩
    · rw [he, h.distinct k' k x hk' hk]
    · exact absurd hk (hn k)
  · intro hnew r'' k hs
    rcases Rodeo.tryIntern_spec h x g with ⟨j, hj, _⟩ | ⟨_, ⟨_, he⟩ | ⟨_, ⟨_, he⟩ | ⟨r1, ref, he, _, hp⟩⟩⟩
    · exact absurd hj (hnew j)
    · rw [he] at hs; simp at hs
    · rw [he] at hs; simp at hs
    · rw [he] at hs; injection hs with hs; injection hs with a b; subst a b
      exact ⟨rfl, (Rodeo.unknown_key env r' _ (Nat.le_refl _)).2.1, hp.newStr, hp.old⟩

/-- Concurrent interner: the serialised map of a reachable interner is accepted and yields an
interner with the same count and the same string under every key. -/
theorem threaded_roundtrip {env : Env} {t : Threaded} (h : ThreadedReach env t) :
    ∃ t', deThreaded t.N (t.serDoc env) = .ok t' ∧ t'.Inv env ∧ t'.len = t.len ∧ ∀ k, t'.str env k = t.str env k := by
  have hi := threaded_reach_inv h
  obtain ⟨d1, d2, d3, d4, d5⟩ := Threaded.serDoc_spec hi
  obtain ⟨t', e1, e2, _, e4, e5⟩ := deThreaded_accepts env t.N (t.serDoc env) d2 d3 d4 (by rw [d1]; exact hi.lenLe)
  refine ⟨t', e1, e2, by simp [Threaded.len, e4, d1], ?_⟩
  intro k
  by_cases hk : k < t.strs.length
  · obtain ⟨ref, hr⟩ := (hi.dense k).mp hk
    obtain ⟨y, hy⟩ := Threaded.content_some hi hr
    have hm := hi.strMap k ref hr
    have hin : (y, k + 1) ∈ t.serDoc env := by
      unfold Threaded.serDoc
      simp only [List.mem_filterMap]
      exact ⟨(ref, k), hm, by simp [hy]⟩
    have := e5 _ hin
    simp only [indexOfKey, Nat.add_sub_cancel] at this
    rw [this, (Threaded.str_iff hi k y).mpr ⟨ref, hr, hy⟩]
  · have h1 : t.str env k = none := by
      apply Option.eq_none_iff_forall_ne_some.mpr
      intro y hy
      obtain ⟨ref, hr, _⟩ := (Threaded.str_iff hi k y).mp hy
      exact hk ((hi.dense k).mpr ⟨ref, hr⟩)
    have h2 : t'.str env k = none := by
      apply Option.eq_none_iff_forall_ne_some.mpr
      intro y hy
      obtain ⟨ref, hr, _⟩ := (Threaded.str_iff e2 k y).mp hy
      have := (e2.dense k).mpr ⟨ref, hr⟩
      omega
    rw [h1, h2]

/-- The deserialised concurrent interner keeps working: present strings keep their keys, and a new
string receives a key that collides with no existing one (this is the statement that was false
before the repair for D2, where the counter was restored one too low). -/
theorem threaded_continue {env : Env} {t' : Threaded} (h : t'.Inv env) (x : Bytes) :
    (∀ k, t'.str env k = some x → t'.tryIntern env x = (t', .ok k)) ∧
    ((∀ k, t'.str env k ≠ some x) → ∀ t'' k, t'.tryIntern env x = (t'', .ok k) →
        k = t'.strs.length ∧ t'.tryResolve env k = .ok none ∧ t''.str env k = some x ∧
        ∀ j y, t'.str env j = some y → t''.str env j = some y) := by
  constructor
  · intro k hk
    rcases Threaded.tryIntern_spec h x with ⟨k', hk', he⟩ | ⟨hn, _⟩
    · rw [he, h.distinct k' k x hk' hk]
    · exact absurd hk (hn k)
  · intro hnew t'' k hs
    rcases Threaded.tryIntern_spec h x with ⟨j, hj, _⟩ | ⟨_, ⟨_, he⟩ | ⟨a', ref, _, ⟨_, he, _, _⟩ | ⟨_, he, hp⟩⟩⟩
    · exact absurd hj (hnew j)
    · rw [he] at hs; injection hs with a b; simp at b
    · rw [he] at hs; injection hs with a b; simp at b
    · rw [he] at hs; injection hs with a b; injection b with b; subst a b
      exact ⟨rfl, (Threaded.unknown_key h _ (Nat.le_refl _)).2.1, hp.newStr, hp.old⟩

/-! ### Non-vacuity, and D2 inside the model -/
example : (match deThreaded 255 [([97], 1), ([98], 2), ([99], 3)] with
    | .ok t => (match t.tryIntern C15.cEnv [110] with
      | (t', .ok k) => decide (k = 3) && (t'.str C15.cEnv 2 == some [99])
      | _ => false)
    | _ => false) = true := by decide

/-! ### Tie to the source: the deserialisers as effect sequences

`LassoModel/Serde.lean` mirrors the four `Deserialize` impls statement by statement.  The extractor
regenerates, in evaluation order, what each of them reads, how it pre-sizes its containers (exactly the number
of entries: the tables never grow while a document is read), that the arena is unlimited, and inside the
loop: store (`expect`), hash, probe, the rejection of a repeated string, the key check *applied to the position
of the entry* and its rejection, the push and the table insert; for the resolver the check of the last
position up front; for the concurrent interner the running maximum of the keys, the two map inserts and the
final validation (unique strings, dense keys) with its rejection.  These are the sequences the model's
`deListLoop`, `deResolver` and `deThreadedLoop`/`deThreaded` follow. -/
theorem deserialisers_follow_model :
    Extracted.deRodeoEffects =
      [.readList, .presizeExact, .presizeExact, .arenaUnlimited, .loopBegin, .store, .expectStored, .hashOne, .probe,
       .reject, .keyCheck .loopIndex, .reject, .stringsPush, .tableInsert, .loopEnd] ∧
    Extracted.deReaderEffects = Extracted.deRodeoEffects ∧
    Extracted.deResolverEffects =
      [.readList, .keyCheck .lenMinusOne, .reject, .presizeExact, .arenaUnlimited, .loopBegin, .store, .expectStored,
       .stringsPush, .loopEnd] ∧
    Extracted.deThreadedEffects =
      [.readMap, .presizeExact, .presizeExact, .arenaUnlimited, .loopBegin, .counterMax, .store, .expectStored,
       .mapInsert, .stringsInsert, .loopEnd, .finalCheck, .reject] := by
  decide

/-- Stronger than comparing sequences: the regenerated effect sequences are given a semantics
(`LassoModel/DeserInterp.lean`: every effect acts on the registers of one loop iteration - the arena, the vector,
the table, the result of the last check) and *running* them is proved to be the model's loops, for every
document and every starting state: `Rodeo` / `RodeoReader` (store, expect, hash, probe, reject a repeat, key check
on the position, reject, push, insert without growth because both containers were pre-sized exactly),
`RodeoResolver` (store, expect, push; before the loop the check of the last position), `ThreadedRodeo` (running
maximum of the keys, store, expect, the two inserts; after the loop the final validation).  A check that is not
followed by its rejection, a push before the check, a missing `expect`, a table that may grow - each changes what
the sequence computes, and this theorem no longer holds. -/
theorem deserialisers_run_the_source (env : Env) (N : Nat) :
    (∀ doc idx t ss a, interpListLoop env N Extracted.deRodeoEffects doc idx t ss a = deListLoop env N doc idx t ss a) ∧
    (∀ doc idx t ss a, interpListLoop env N Extracted.deReaderEffects doc idx t ss a = deListLoop env N doc idx t ss a) ∧
    (∀ doc ss a, interpResolverLoop Extracted.deResolverEffects doc ss a = deResolverLoop doc ss a) ∧
    (∀ n, resolverPrecheck N Extracted.deResolverEffects n = some (decide (n ≠ 0 ∧ (keyOfIndex N (n - 1)).isNone))) ∧
    (∀ doc t, interpThreadedLoop Extracted.deThreadedEffects doc t = deThreadedLoop doc t) ∧
    threadedPostcheck Extracted.deThreadedEffects = true :=
  ⟨fun doc idx t ss a => interp_deRodeo_is_model env N doc idx t ss a,
   fun doc idx t ss a => interp_deReader_is_model env N doc idx t ss a (by decide),
   fun doc ss a => interp_deResolver_is_model doc ss a,
   fun n => deResolver_precheck N n,
   fun doc t => interp_deThreaded_is_model doc t,
   deThreaded_postcheck⟩

/-- The code this file's theorems are about is the same under every feature configuration: the regenerated
census of conditional compilation contains import blocks, whole serde impls, optional-dependency impls and
module declarations only, and no gate inside any function body (`Lemmas/Config.lean`). -/
theorem same_code_under_every_feature_configuration :
    (Extracted.cfgGates.all fun g => g.kind != .other) = true ∧ Extracted.bodyGates.isEmpty = true :=
  Lasso.one_code_base_for_all_configurations

end Lasso.C14
