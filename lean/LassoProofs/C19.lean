import LassoModel.Markers
import LassoModel.Extracted
import LassoProofs.Lemmas.Config
/-
  C19 — thread-safety markers are no stronger than the key and hasher types allow.

  The theorems are `decide`d over the struct definitions and manual marker impls regenerated from
  the source on this run, for all 16 assignments of {Send, Sync} to `K` and `S` — a finite domain,
  enumerated completely by the kernel.
-/
namespace Lasso.C19
open Lasso.Source Lasso.Markers

def containers : List TCon := [.rodeo, .threadedRodeo, .reader, .resolver]
def bools : List Bool := [true, false]

def isM (m : Marker) (c : TCon) (a : Asg) : Bool :=
  holds Extracted.structDefs Extracted.markerImpls 8 a m (containerTy c)

/-- A container is `Send` only if its key type and (where it has one) its hasher type are; it is
`Sync` only if they are `Sync`. -/
theorem markers_no_stronger :
    (containers.all fun c => bools.all fun sk => bools.all fun yk => bools.all fun ss => bools.all fun ys =>
      (!isM .send c (asgOf sk yk ss ys) || (sk && (!hasS c || ss))) &&
      (!isM .sync c (asgOf sk yk ss ys) || (yk && (!hasS c || ys)))) = true := by
  decide

/-- The documented cases: with ordinary (`Send + Sync`) keys and hashers every container can be moved
to another thread, and the concurrent interner, the reader and the resolver can be shared. -/
theorem documented_cases :
    (containers.all fun c => isM .send c (asgOf true true true true)) = true ∧
    ([TCon.threadedRodeo, .reader, .resolver].all fun c => isM .sync c (asgOf true true true true)) = true := by
  decide

/-- With the container's own manual impl set aside, do all of its fields carry the marker (the auto-trait rule
applied to the regenerated field types, manual impls of the parts - the storage blocks - included)? -/
def fieldsCarry (m : Marker) (c : TCon) (a : Asg) : Bool :=
  match Extracted.structDefs.find? (fun d => d.name == c) with
  | some d => d.fields.all fun f => holds Extracted.structDefs Extracted.markerImpls 8 a m f
  | none => false

/-- The manual `unsafe impl Send / Sync` of the single-threaded interner, the reader and the resolver claim nothing
their fields do not carry: for every assignment under which the manual impl applies, every field has the marker by
the auto-trait rule.  (A manual impl switches the compiler's own check off: a new field with interior mutability -
a `Cell` memo, an `Rc` - would otherwise stay `Sync` / `Send` silently.)  For the concurrent interner the manual
bounds are weaker than what `DashMap` asks of its key type structurally, so only the documented case - ordinary
`Send + Sync` keys and hashers - is stated for it. -/
theorem manual_impls_justified_by_fields :
    ([TCon.rodeo, .reader, .resolver].all fun c => bools.all fun sk => bools.all fun yk => bools.all fun ss => bools.all fun ys =>
      (!isM .send c (asgOf sk yk ss ys) || fieldsCarry .send c (asgOf sk yk ss ys)) &&
      (!isM .sync c (asgOf sk yk ss ys) || fieldsCarry .sync c (asgOf sk yk ss ys))) = true ∧
    fieldsCarry .send .threadedRodeo (asgOf true true true true) = true ∧
    fieldsCarry .sync .threadedRodeo (asgOf true true true true) = true := by
  decide

/-- Exactly the manual marker impls the theorems above rely on are present, in the extractor's canonical (sorted) order: the order of
impl blocks and of bounds in the source means nothing (a dropped bound or a new unconditional impl
changes this table). -/
theorem impl_table :
    (Extracted.markerImpls.map fun i => (i.ty, i.trait_, i.bounds)) =
      [(.atomicBucket, .send, []), (.atomicBucket, .sync, []), (.bucket, .send, []), (.bucket, .sync, []),
       (.reader, .send, [(.K, .send), (.S, .send)]), (.reader, .sync, [(.K, .sync), (.S, .sync)]),
       (.resolver, .send, [(.K, .send)]), (.resolver, .sync, [(.K, .sync)]),
       (.rodeo, .send, [(.K, .send), (.S, .send)]),
       (.threadedRodeo, .send, [(.K, .send), (.S, .send)]), (.threadedRodeo, .sync, [(.K, .sync), (.S, .sync)])] := by
  decide

/-- The code this file's theorems are about is the same under every feature configuration: the regenerated
census of conditional compilation contains import blocks, whole serde impls, optional-dependency impls and
module declarations only, and no gate inside any function body (`Lemmas/Config.lean`). -/
theorem same_code_under_every_feature_configuration :
    (Extracted.cfgGates.all fun g => g.kind != .other) = true ∧ Extracted.bodyGates.isEmpty = true :=
  Lasso.one_code_base_for_all_configurations

end Lasso.C19
