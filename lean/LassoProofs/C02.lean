import LassoProofs.Lemmas.Paths
import LassoProofs.Lemmas.THistory
import LassoModel.Extracted
import LassoProofs.Lemmas.Config
import LassoProofs.Lemmas.InternInterp
/-
  C02 — canonical keys: equal strings share one key, different strings never do; lookups answer
  exactly "interned or not"; interning a present string changes nothing.

  Every statement is for an arbitrary hash function (`env.hash`, a constant one included) and an
  arbitrary table-growth oracle on every insert.
-/
namespace Lasso.C02
open Lasso

/-- A state reachable by some history from a fresh interner. -/
def RodeoReach (env : Env) (r : Rodeo) : Prop :=
  ∃ N cap max ops, 0 < cap ∧ (∀ op ∈ ops, ROp.wellFormed env op) ∧ r = (Rodeo.new N cap max).run env ops

def ThreadedReach (env : Env) (t : Threaded) : Prop :=
  ∃ N cap max ops, 0 < cap ∧ (∀ op ∈ ops, TOp.wellFormed env op) ∧ t = (Threaded.new N cap max).run env ops

theorem rodeo_reach_inv {env : Env} {r : Rodeo} (h : RodeoReach env r) : r.Inv env := by
  obtain ⟨N, cap, max, ops, hc, hw, rfl⟩ := h
  exact Rodeo.run_inv (Rodeo.new_inv env N cap max hc) ops hw

theorem threaded_reach_inv {env : Env} {t : Threaded} (h : ThreadedReach env t) : t.Inv env := by
  obtain ⟨N, cap, max, ops, hc, hw, rfl⟩ := h
  exact (Threaded.run_inv_keeps (Threaded.new_inv env N cap max hc) ops hw).1

/-- String-to-key lookup never faults and finds key `k` exactly when key `k` holds that string —
hence it answers `none` exactly for strings that are not interned. -/
theorem rodeo_get_exact {env : Env} {r : Rodeo} (h : RodeoReach env r) (x : Bytes) :
    ∃ o, r.get env x = .ok o ∧ (∀ k, o = some k ↔ r.str env k = some x) ∧
      (o = none ↔ ∀ k, r.str env k ≠ some x) := by
  obtain ⟨o, h1, h2⟩ := Rodeo.get_spec (rodeo_reach_inv h) x
  refine ⟨o, h1, h2, ?_⟩
  constructor
  · intro ho k hk; rw [ho] at h2; exact absurd ((h2 k).mpr hk) (by simp)
  · intro hn
    cases o with
    | none => rfl
    | some k => exact absurd ((h2 k).mp rfl) (hn k)

theorem threaded_get_exact {env : Env} {t : Threaded} (h : ThreadedReach env t) (x : Bytes) (k : Nat) :
    t.get env x = some k ↔ t.str env k = some x :=
  Threaded.get_spec (threaded_reach_inv h) x k

/-- Interning a string that is present returns its key and leaves the interner unchanged *as a
value*: count, keys, table, arena and memory usage are all the same. -/
theorem rodeo_present_noop {env : Env} {r : Rodeo} (h : RodeoReach env r) (x : Bytes) (k : Nat) (g : Bool)
    (hk : r.str env k = some x) : r.tryIntern env x g = .ok (r, k) := by
  have hi := rodeo_reach_inv h
  rcases Rodeo.tryIntern_spec hi x g with ⟨k', hk', he⟩ | ⟨hn, _⟩
  · rw [he, hi.distinct k' k x hk' hk]
  · exact absurd hk (hn k)

theorem rodeo_present_noop_static {env : Env} {r : Rodeo} (h : RodeoReach env r) (i : Nat) (x : Bytes)
    (hp : env.pool[i]? = some x) (k : Nat) (g : Bool)
    (hk : r.str env k = some x) : r.tryInternStatic env i g = .ok (r, k) := by
  have hi := rodeo_reach_inv h
  rcases Rodeo.tryInternStatic_spec hi i x hp g with ⟨k', hk', he⟩ | ⟨hn, _⟩
  · rw [he, hi.distinct k' k x hk' hk]
  · exact absurd hk (hn k)

theorem threaded_present_noop {env : Env} {t : Threaded} (h : ThreadedReach env t) (x : Bytes) (k : Nat)
    (hk : t.str env k = some x) : t.tryIntern env x = (t, .ok k) := by
  have hi := threaded_reach_inv h
  rcases Threaded.tryIntern_spec hi x with ⟨k', hk', he⟩ | ⟨hn, _⟩
  · rw [he, hi.distinct k' k x hk' hk]
  · exact absurd hk (hn k)

/-- Two interning requests on the same interner (any history in between that does not clear it)
return the same key if and only if their strings are equal. -/
theorem rodeo_same_key_iff {env : Env} {r0 : Rodeo} (h : RodeoReach env r0)
    (x y : Bytes) (g1 g2 : Bool) (r1 r3 : Rodeo) (k1 k2 : Nat)
    (h1 : r0.tryIntern env x g1 = .ok (r1, k1))
    (mid : List ROp) (hmid : ∀ op ∈ mid, op.wellFormed env) (hnc : ∀ op ∈ mid, op.isClear = false)
    (h2 : (r1.run env mid).tryIntern env y g2 = .ok (r3, k2)) :
    k1 = k2 ↔ x = y := by
  have hi0 := rodeo_reach_inv h
  have ⟨hi1, hk1⟩ : r1.Inv env ∧ r1.str env k1 = some x := by
    rcases Rodeo.tryIntern_spec hi0 x g1 with ⟨k', hk', he⟩ | ⟨_, ⟨_, he⟩ | ⟨_, ⟨_, he⟩ | ⟨r', ref, he, _, hp⟩⟩⟩
    · rw [he] at h1; injection h1 with hm; injection hm with a b; subst a b; exact ⟨hi0, hk'⟩
    · rw [he] at h1; simp at h1
    · rw [he] at h1; simp at h1
    · rw [he] at h1; injection h1 with hm; injection hm with a b; subst a b; exact ⟨hp.inv, hp.newStr⟩
  have hi2 := Rodeo.run_inv hi1 mid hmid
  have hk1' := Rodeo.run_keeps hi1 mid hmid hnc k1 x hk1
  have ⟨hi3, hk2, hk13⟩ : r3.Inv env ∧ r3.str env k2 = some y ∧ r3.str env k1 = some x := by
    rcases Rodeo.tryIntern_spec hi2 y g2 with ⟨k', hk', he⟩ | ⟨_, ⟨_, he⟩ | ⟨_, ⟨_, he⟩ | ⟨r', ref, he, _, hp⟩⟩⟩
    · rw [he] at h2; injection h2 with hm; injection hm with a b; subst a b; exact ⟨hi2, hk', hk1'⟩
    · rw [he] at h2; simp at h2
    · rw [he] at h2; simp at h2
    · rw [he] at h2; injection h2 with hm; injection hm with a b; subst a b
      exact ⟨hp.inv, hp.newStr, hp.old k1 x hk1'⟩
  constructor
  · intro e; subst e; rw [hk13] at hk2; injection hk2
  · intro e; subst e; exact hi3.distinct k1 k2 x hk13 hk2

/-- Distinct strings held by a reachable interner never share a key, and one string never has two. -/
theorem rodeo_keys_injective {env : Env} {r : Rodeo} (h : RodeoReach env r) (i j : Nat) (x y : Bytes)
    (hi : r.str env i = some x) (hj : r.str env j = some y) : i = j ↔ x = y := by
  constructor
  · intro e; subst e; rw [hi] at hj; injection hj
  · intro e; subst e; exact (rodeo_reach_inv h).distinct i j x hi hj

theorem threaded_keys_injective {env : Env} {t : Threaded} (h : ThreadedReach env t) (i j : Nat) (x y : Bytes)
    (hi : t.str env i = some x) (hj : t.str env j = some y) : i = j ↔ x = y := by
  constructor
  · intro e; subst e; rw [hi] at hj; injection hj
  · intro e; subst e; exact (threaded_reach_inv h).distinct i j x hi hj

/-- The rehash closure of the source re-places every entry where it already is: table growth is
unobservable (this is the statement that fails for a closure hashing the key instead of the string). -/
theorem rodeo_growth_unobservable {env : Env} {r : Rodeo} (h : RodeoReach env r) :
    rehashAll (rehashFn env r.arena.read r.strings) r.table = some r.table :=
  rehashAll_id (hash := env.hash) (S := strAt env r.arena.read r.strings) (rodeo_reach_inv h).tinv.placed

/-! ### Non-vacuity and a negative companion -/

def constEnv : Env := { hash := fun _ => 7, pool := [] }

/-- Under a constant hasher two different strings still get different keys, equal ones the same. -/
example : (match (Rodeo.new 255 2 1000).tryIntern constEnv [1] true with
    | .ok (r, k1) => (match r.tryIntern constEnv [2] true with
      | .ok (r', k2) => (match r'.tryIntern constEnv [1] true with
        | .ok (_, k3) => decide (k1 = 0 ∧ k2 = 1 ∧ k3 = 0)
        | _ => false)
      | _ => false)
    | _ => false) = true := by decide

/-- A rehash closure that hashes the *key index* instead of the string breaks the placement
invariant at the first growth: the string is no longer found. -/
def badRehash (k : Nat) : Option UInt64 := some k.toUInt64
example : (match tableInsert [((fun (_ : Bytes) => (7 : UInt64)) [1], 0)] 7 1 true badRehash with
    | .ok t => decide (tfind (fun _ => 7) (fun k => if k = 0 then some [1] else if k = 1 then some [2] else none) t [1] = none)
    | _ => false) = true := by decide

/-! ### Tie to the source

The model hashes the complete string with the table's hash function at every lookup, insert and in the
rehash closure (`env.hash`, `rehashFn`).  The extractor lists every `let hash = …`, every `hash_one`
call (or call of a private helper whose whole body is `hasher.hash_one(string)`), every hash handed to
the raw-entry API, every closure handed to a table for re-hashing its entries on resize
(`insert_with_hasher`, `find_or_find_insert_slot`, `shrink_to`) and every piece of hand-rolled hashing in
`rodeo.rs`, `reader.rs` and `threaded_rodeo.rs`; all of them must be `hash_one` of one whole string
(resp. the binding `hash`; for a re-hash closure: of a string the closure binds itself, never a captured
hash value).  The equality closure of every table probe (`from_hash`, `find_or_find_insert_slot`) is listed
as well (`probeEq`): it has to be `probed string == stored string`, the whole-string comparison the
model's `tableFind` makes - no shortcut through addresses, lengths, prefixes or a trusted hash. -/
theorem hash_sites_whole_string :
    (Extracted.hashSites.all fun s => s.shape == .hashOneWhole) = true ∧
    (Extracted.hashSites.any fun s => s.kind == .binding) = true ∧
    (Extracted.hashSites.any fun s => s.kind == .use) = true ∧
    (Extracted.hashSites.any fun s => s.kind == .rehash) = true ∧
    (Extracted.hashSites.any fun s => s.kind == .probeEq) = true := by
  decide

/-- Nothing happens in the four interning functions before the string has been looked up: the effect
sequences regenerated from the source (in which a `return` or `?` that precedes the lookup would show up as an
unrecognised effect) begin with the hash and the probe (`Rodeo`), resp. with the lock-free lookup
(`ThreadedRodeo`).  A string that is already present is therefore found whatever else holds (limits, sizes). -/
theorem lookup_comes_first :
    Extracted.rodeoInternEffects.take 2 = [.hashOne, .probe] ∧
    Extracted.rodeoInternStaticEffects.take 2 = [.hashOne, .probe] ∧
    Extracted.internEffects.head? = some .fastGet ∧
    Extracted.internStaticEffects.head? = some .fastGet := by
  decide

/-- The single-threaded interner's two interning functions *are* their regenerated effect sequences: the
sequences are given a semantics (`LassoModel/InternInterp.lean`: hash; probe - an occupied entry returns its key at
once; key check for the next position with the key-space error; store with the memory error, copying path only;
push; table insert under the hash, with the re-hash closure over the new vector) and running them equals
`Rodeo.tryIntern` / `Rodeo.tryInternStatic` for every state, string and growth oracle.  Every theorem about the
model functions is therefore a theorem about what the source's statements do in the source's order. -/
theorem interning_runs_the_source (env : Env) (r : Rodeo) (grow : Bool) :
    (∀ x, interpIntern env Extracted.rodeoInternEffects r x grow = r.tryIntern env x grow) ∧
    (∀ i, interpInternStatic env Extracted.rodeoInternStaticEffects r i grow = r.tryInternStatic env i grow) :=
  ⟨fun x => interp_intern_is_model env r x grow, fun i => interp_intern_static_is_model env r i grow⟩

/-- The code this file's theorems are about is the same under every feature configuration: the regenerated
census of conditional compilation contains import blocks, whole serde impls, optional-dependency impls and
module declarations only, and no gate inside any function body (`Lemmas/Config.lean`). -/
theorem same_code_under_every_feature_configuration :
    (Extracted.cfgGates.all fun g => g.kind != .other) = true ∧ Extracted.bodyGates.isEmpty = true :=
  Lasso.one_code_base_for_all_configurations

end Lasso.C02
