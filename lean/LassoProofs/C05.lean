import LassoProofs.Lemmas.ConcArenaHist
import LassoProofs.Lemmas.ConcArenaIds
import LassoProofs.Lemmas.ConcArenaSolo
import LassoProofs.Lemmas.ConcArenaSeq
import LassoModel.Extracted
import LassoProofs.Lemmas.Config
import LassoProofs.Lemmas.Release
/-
  C05 — concurrent storage integrity: exclusive regions, no torn strings, no lost block, ordering.

  Quantified over: any number of threads, any programs (lists of strings to store), any first-block
  capacity and memory limit, *every* schedule at the granularity of the schedule points of
  `LockfreeArena::store_str` / `try_inc_length` / `push_front` (each atomic load, compare-exchange and
  the copy are separate steps), and every pattern of spurious `compare_exchange_weak` failures
  (`run` takes a list of `(thread, spurious)`; entries naming a finished thread are no-ops).
-/
namespace Lasso.C05
open Lasso Lasso.CA

section
variable (cap max : Nat) (programs : List (List Bytes))

/-- The state reached by `sched` from a fresh arena. -/
abbrev R (sched : List (Nat × Bool)) : AS := run (init cap max programs) sched

theorem logNd (sched : List (Nat × Bool)) : LogNd (R cap max programs sched) :=
  run_logNd sched (init_inv cap max programs) (by simp [LogNd, init])

/-- **Regions handed to different calls never overlap**: any two successful calls (two different
entries of the history, whichever threads made them) that were placed in the same block were given
disjoint byte ranges; calls placed in different blocks are in different allocations. -/
theorem regions_exclusive (sched : List (Nat × Bool)) :
    (R cap max programs sched).log.Pairwise fun e1 e2 =>
      ∀ b o1 o2, e1.2.2 = .ok b o1 → e2.2.2 = .ok b o2 →
        o1 + e1.2.1.length ≤ o2 ∨ o2 + e2.2.1.length ≤ o1 := by
  have hi := reach_inv cap max programs sched
  have hn := logNd cap max programs sched
  unfold LogNd at hn
  rw [List.Nodup, List.pairwise_filterMap] at hn
  refine List.Pairwise.imp_of_mem ?_ hn
  intro e1 e2 h1 h2 hne b o1 o2 r1 r2
  have l1 := hi.logOk e1 h1
  have l2 := hi.logOk e2 h2
  unfold logged at l1 l2
  rw [r1] at l1; rw [r2] at l2
  obtain ⟨bk, hbk, hid, c1⟩ := l1
  obtain ⟨bk', hbk', hid', c2⟩ := l2
  have : bk = bk' := id_unique hi.ids hbk hbk' (hid.trans hid'.symm)
  subst this
  rcases tiled_disjoint (hi.tiled bk hbk) c1 c2 with h | h | h
  · exfalso
    have ho : o1 = o2 := by injection h
    exact hne (b, o1) (by simp [locOf, r1]) (b, o2) (by simp [locOf, r2]) (by rw [ho])
  · exact Or.inl h
  · exact Or.inr h

/-- Every region lies inside the reserved part of its block, and that inside the block's capacity. -/
theorem region_in_block (sched : List (Nat × Bool)) (e : Nat × Bytes × ARes) (b o : Nat)
    (he : e ∈ (R cap max programs sched).log) (hr : e.2.2 = .ok b o) :
    ∃ bk ∈ (R cap max programs sched).buckets, bk.id = b ∧ o + e.2.1.length ≤ bk.len ∧ bk.len ≤ bk.cap := by
  have hi := reach_inv cap max programs sched
  have l := hi.logOk e he
  unfold logged at l
  rw [hr] at l
  obtain ⟨bk, hbk, hid, c⟩ := l
  exact ⟨bk, hbk, hid, (tiled_mem_lt (hi.tiled bk hbk) c).1, hi.fit bk hbk⟩

/-- **No string is torn or altered afterwards**: once a call has returned `(block, offset)` for `x`,
then in every later state — after any continuation of the schedule — the block is still in the arena,
the region `[offset, offset+|x|)` is a completed reservation holding exactly `x`, and no other
reservation starts at that offset. -/
theorem stored_bytes_stable (sched more : List (Nat × Bool)) (e : Nat × Bytes × ARes) (b o : Nat)
    (he : e ∈ (R cap max programs sched).log) (hr : e.2.2 = .ok b o) :
    ∃ bk ∈ (run (R cap max programs sched) more).buckets, bk.id = b ∧
      ({ off := o, n := e.2.1.length, data := some e.2.1 } : Claim) ∈ bk.claims ∧
      ∀ c ∈ bk.claims, c.off = o → c.data = some e.2.1 := by
  have hi := reach_inv cap max programs sched
  have hi2 : AInv cap (run (R cap max programs sched) more) := run_inv more hi
  have he2 : e ∈ (run (R cap max programs sched) more).log := (run_log_suffix more _).subset he
  have l := hi2.logOk e he2
  unfold logged at l
  rw [hr] at l
  obtain ⟨bk, hbk, hid, c⟩ := l
  refine ⟨bk, hbk, hid, c, ?_⟩
  intro c' hc' ho
  have := tiled_off_unique (hi2.tiled bk hbk) hc' c ho
  rw [this]

/-- A reservation whose bytes are not yet complete is always the region some thread is copying into
right now: no reader can have been handed it (results are logged only after the copy). -/
theorem incomplete_region_is_private (sched : List (Nat × Bool)) (bk : ABucket) (c : Claim)
    (hb : bk ∈ (R cap max programs sched).buckets) (hc : c ∈ bk.claims) (hd : c.data = none) :
    (∃ (t : Nat) (th : AThread) (x : Bytes), (R cap max programs sched).ts[t]? = some th ∧ th.pc = .copy x bk.id c.off) ∧
    ∀ e ∈ (R cap max programs sched).log, e.2.2 ≠ .ok bk.id c.off := by
  have hi := reach_inv cap max programs sched
  constructor
  · obtain ⟨t, th, x, ht, hcp⟩ := hi.unfilled bk hb c hc hd
    refine ⟨t, th, x, ht, ?_⟩
    cases hp : th.pc <;> simp_all [copies]
  · intro e he hr
    have l := hi.logOk e he
    unfold logged at l
    rw [hr] at l
    obtain ⟨bk', hbk', hid, c'⟩ := l
    have : bk' = bk := id_unique hi.ids hbk' hb hid
    subst this
    have := tiled_off_unique (hi.tiled bk' hb) c' hc rfl
    rw [← this] at hd
    simp at hd

/-- **No storage block is lost**: a published block stays published (same identity and capacity)
under every continuation, and its successor in the walk order never changes — a reader walking the
list while other threads push new blocks visits every block that was in the list when it started. -/
theorem published_blocks_stay (sched more : List (Nat × Bool)) (b : ABucket) (hb : b ∈ (R cap max programs sched).buckets) :
    (∃ b' ∈ (run (R cap max programs sched) more).buckets, b'.id = b.id ∧ b'.cap = b.cap) ∧
    succOf (run (R cap max programs sched) more).buckets b.id = succOf (R cap max programs sched).buckets b.id :=
  ⟨run_keeps more _ b hb, run_walk more (reach_inv cap max programs sched) b.id ⟨b, hb, rfl⟩⟩

/-- **No storage block is lost, ever**: in every reachable state every block that was ever allocated is
either in the list or owned by the one thread that is between allocating and publishing it … -/
theorem every_block_accounted_for (sched : List (Nat × Bool)) : AllIds (R cap max programs sched) :=
  run_allIds sched (init_inv cap max programs) (init_allIds cap max programs)

/-- … so when all threads are done the list holds every block that was ever allocated. -/
theorem quiescent_no_block_lost (sched : List (Nat × Bool)) (hq : quiescent (R cap max programs sched) = true) :
    ∀ i, i < (R cap max programs sched).nextId → ∃ b ∈ (R cap max programs sched).buckets, b.id = i :=
  quiescent_all_published (every_block_accounted_for cap max programs sched) hq

/-- Block identities are unique and every block respects its capacity, in every reachable state. -/
theorem blocks_wellformed (sched : List (Nat × Bool)) :
    ((R cap max programs sched).buckets.map (·.id)).Nodup ∧
    ∀ b ∈ (R cap max programs sched).buckets, b.len ≤ b.cap ∧ Tiled b.len b.claims :=
  let hi := reach_inv cap max programs sched
  ⟨hi.ids, fun b hb => ⟨hi.fit b hb, hi.tiled b hb⟩⟩

/-- Release at the end of a concurrent run: once all threads are done, dropping the arena runs the walk of
`impl Drop for AtomicBucketList` (interpreted from its regenerated statements, `Lemmas/Release.lean`) over the list
as the racing pushes left it - it frees every node of that list exactly once; by `quiescent_no_block_lost` these
are all the blocks ever allocated, and their identities are distinct: nothing leaks, nothing is freed twice,
whatever the schedule was. -/
theorem quiescent_drop_releases_every_block_once (sched : List (Nat × Bool)) (hq : quiescent (R cap max programs sched) = true) :
    runListDrop Extracted.listDropEffects ((R cap max programs sched).buckets.map (·.cap)) =
      some (List.range (R cap max programs sched).buckets.length) ∧
    ((R cap max programs sched).buckets.map (·.id)).Nodup ∧
    ∀ i, i < (R cap max programs sched).nextId → ∃ b ∈ (R cap max programs sched).buckets, b.id = i := by
  refine ⟨?_, (blocks_wellformed cap max programs sched).1, quiescent_no_block_lost cap max programs sched hq⟩
  have h := (walkAccepted_spec (effects := Extracted.listDropEffects) (by decide)).1 ((R cap max programs sched).buckets.map (·.cap))
  simpa using h

end

/-! ### The micro-steps are the source's logic

The machine's steps were written by hand.  Run by one thread without interference — from any state with
distinct block identities, whatever other threads did before — one `store_str` call puts the string
into the first block of the list that has room and, if none has, does exactly what the decision tree
regenerated from `LockfreeArena::store_str` on this run says (`Extracted.lockfreeGrow`: which error,
how much budget is claimed, the size of the new block, the stored capacity, placement at the head). -/
theorem solo_call_follows_source (s : AS) (x : Bytes) (rest : List Bytes) (hnd : (s.buckets.map (·.id)).Nodup)
    (ht : s.ts = [{ pc := .idle, todo := x :: rest }]) :
    ∃ sched : List (Nat × Bool), (∀ e ∈ sched, e = (0, false)) ∧
      if x.length = 0 then
        run s sched = { s with ts := [{ pc := .idle, todo := rest }], log := (0, x, .empty) :: s.log }
      else match s.buckets.find? (fits x.length) with
        | some b => run s sched = { s with ts := [{ pc := .idle, todo := rest }], log := (0, x, .ok b.id b.len) :: s.log,
                                           buckets := stored s.buckets b x }
        | none => Matches s (run s sched) rest x (Grow.eval (envOf s x) Extracted.lockfreeGrow) :=
  solo_store s x rest hnd ht

/-- Run by one thread, the machine *is* the sequential lock-free arena model on which the single-thread
theorems about `ThreadedRodeo` (C01, C04, C08) are proved: related states (same blocks by identity,
capacity and reserved length, same capacity, usage, limit and next identity) stay related by one call,
and the machine logs exactly the location `LArena.store` returns (or an error when it errs). -/
theorem solo_call_is_sequential_model (s : AS) (a : LArena) (x : Bytes) (rest : List Bytes) (hR : Rel s a)
    (hnd : (s.buckets.map (·.id)).Nodup) (ht : s.ts = [{ pc := .idle, todo := x :: rest }]) :
    ∃ sched : List (Nat × Bool), (∀ e ∈ sched, e = (0, false)) ∧
      (run s sched).ts = [{ pc := .idle, todo := rest }] ∧
      match a.store x with
      | .ok (a', ref) => Rel (run s sched) a' ∧ (run s sched).log = (0, x, answerOf ref) :: s.log
      | .err _ => Rel (run s sched) a ∧ (run s sched).log = (0, x, .err) :: s.log
      | _ => False :=
  solo_is_sequential s a x rest hR hnd ht

/-! ### Ordering by synchronisation

The interleaving model above is sequentially consistent.  What the weaker orderings the source
actually uses must guarantee for the argument to carry over is a publication rule: the
compare-exchange that makes a block reachable must be a *release* operation and the load through which
a walker reaches it must be an *acquire* operation (read-modify-writes by later pushers continue the
release sequence, so the rule covers older blocks reached through newer ones); reservations inside a
block must be one atomic read-modify-write (that is the `cas` step of the model — orderings are
irrelevant for it because the reserved ranges are disjoint and the strings themselves are published
through the interner's map lock).  The theorem checks that rule against every atomic operation the
extractor found in the current source, and that there is no operation the model does not know. -/

def releasing : Source.Ord → Bool
  | .release | .acqRel | .seqCst => true
  | _ => false

def acquiring : Source.Ord → Bool
  | .acquire | .acqRel | .seqCst => true
  | _ => false

def isRmw : Source.AtomicKind → Bool
  | .cas | .casWeak => true
  | _ => false

def opOk (op : Source.AtomicOp) : Bool :=
  match op.role with
  | .headCas => isRmw op.kind && releasing op.ord
  | .walkLoad => op.kind == .load && acquiring op.ord
  | .lenCas => isRmw op.kind
  | .lenLoad | .headLoad | .nextLoad => op.kind == .load
  | .counter | .keyCounter | .audit => true
  | .unknown => false

theorem sync_table :
    (∀ op ∈ Extracted.atomicOps, opOk op = true) ∧
    (∃ op ∈ Extracted.atomicOps, op.role = .headCas) ∧
    (∃ op ∈ Extracted.atomicOps, op.role = .walkLoad) ∧
    (∃ op ∈ Extracted.atomicOps, op.role = .lenCas) := by
  decide

/-- Every publishing compare-exchange synchronises with every walking load. -/
theorem publication_synchronises :
    ∀ w ∈ Extracted.atomicOps, w.role = .headCas → ∀ r ∈ Extracted.atomicOps, r.role = .walkLoad →
      releasing w.ord = true ∧ acquiring r.ord = true := by
  decide

/-! ### The hypotheses are met by real runs -/

/-- Two threads reserve in the same block, the second after a failed exchange on a stale length. -/
def demoSched : List (Nat × Bool) :=
  [(0, false), (0, false), (0, false), (1, false), (1, false), (1, false), (0, false), (1, false), (1, false), (0, false), (1, false)]

example : (run (init 16 64 [[[1, 2, 3]], [[4, 5]]]) demoSched).log = [(1, [4, 5], .ok 0 3), (0, [1, 2, 3], .ok 0 0)] := by decide

/-- Two threads push new blocks at once (block of 2 bytes, strings of 2 bytes). -/
def demoPush : List (Nat × Bool) := (List.replicate 40 [(0, false), (1, false)]).flatten

example : ((run (init 2 64 [[[1, 2], [3, 4]], [[5, 6], [7, 8]]]) demoPush).buckets.length ≥ 3) := by decide

/-- … a quiescent state in which three blocks have been allocated and all three are in the list
(`quiescent_no_block_lost` is not vacuous), … -/
example : quiescent (run (init 2 64 [[[1, 2], [3, 4]], [[5, 6], [7, 8]]]) demoPush) = true ∧
    (run (init 2 64 [[[1, 2], [3, 4]], [[5, 6], [7, 8]]]) demoPush).nextId = 3 ∧
    ((run (init 2 64 [[[1, 2], [3, 4]], [[5, 6], [7, 8]]]) demoPush).buckets.map (·.id)) = [2, 1, 0] := by decide

/-- … and a state that satisfies the hypotheses of `solo_call_follows_source` in which the call has to
grow the arena (the block of 2 bytes is full): the tree says "double", the machine does it. -/
example : (Grow.eval (envOf (run (init 2 64 [[[1, 2], [3, 4]]]) (List.replicate 5 (0, false))) [3, 4]) Extracted.lockfreeGrow)
    = some (.grow 4 4 (some 4) .pushFront) := by decide

/-- The code this file's theorems are about is the same under every feature configuration: the regenerated
census of conditional compilation contains import blocks, whole serde impls, optional-dependency impls and
module declarations only, and no gate inside any function body (`Lemmas/Config.lean`). -/
theorem same_code_under_every_feature_configuration :
    (Extracted.cfgGates.all fun g => g.kind != .other) = true ∧ Extracted.bodyGates.isEmpty = true :=
  Lasso.one_code_base_for_all_configurations

end Lasso.C05
