import LassoProofs.C02
import LassoProofs.Lemmas.Grow
import LassoProofs.Lemmas.Ctor
import LassoModel.Construct
import LassoProofs.Lemmas.Config
/-
  C08 — the memory limit is a hard cap and memory accounting is exact (sequential use).

  `usage` is what `current_memory_usage()` reports, `max` what `max_memory_usage()` reports.
  usize arithmetic is modelled in `Nat` (no overflow; the harness runs with overflow checks on).
-/
namespace Lasso.C08
open Lasso Lasso.C02

/-- The reported usage always equals the bytes of the storage blocks actually held. -/
theorem rodeo_usage_exact {env : Env} {r : Rodeo} (h : RodeoReach env r) :
    r.arena.usage = sumCaps r.arena.all := (rodeo_reach_inv h).wf.usage_eq

theorem threaded_usage_exact {env : Env} {t : Threaded} (h : ThreadedReach env t) :
    t.arena.usage = sumCaps t.arena.buckets := (threaded_reach_inv h).wf.usage_eq

/-- No block is ever filled beyond its capacity. -/
theorem rodeo_blocks_fit {env : Env} {r : Rodeo} (h : RodeoReach env r) :
    ∀ b ∈ r.arena.all, b.data.length ≤ b.cap := (rodeo_reach_inv h).wf.fits

/-- One interning call never raises the usage above the limit: the usage either stays, or grows to
at most the limit.  Hence, once `usage ≤ limit` holds it holds forever, and if it did not hold when
the limit was set, no call makes it worse. -/
theorem rodeo_intern_cap {env : Env} {r r' : Rodeo} (x : Bytes) (g : Bool) (k : Nat)
    (hs : r.tryIntern env x g = .ok (r', k)) (h : RodeoReach env r) :
    r'.arena.max = r.arena.max ∧ (r'.arena.usage = r.arena.usage ∨ (r.arena.usage < r'.arena.usage ∧ r'.arena.usage ≤ r.arena.max)) := by
  rcases Rodeo.tryIntern_spec (rodeo_reach_inv h) x g with ⟨_, _, he⟩ | ⟨_, ⟨_, he⟩ | ⟨_, ⟨_, he⟩ | ⟨r'', ref, he, hst, _⟩⟩⟩
  · rw [he] at hs; injection hs with hs; injection hs with a b; subst a; exact ⟨rfl, Or.inl rfl⟩
  · rw [he] at hs; simp at hs
  · rw [he] at hs; simp at hs
  · rw [he] at hs; injection hs with hs; injection hs with a b; subst a
    exact Arena.store_usage hst

theorem threaded_intern_cap {env : Env} {t : Threaded} (x : Bytes) (h : ThreadedReach env t) :
    (t.tryIntern env x).1.arena.max = t.arena.max ∧
    ((t.tryIntern env x).1.arena.usage = t.arena.usage ∨
      (t.arena.usage < (t.tryIntern env x).1.arena.usage ∧ (t.tryIntern env x).1.arena.usage ≤ t.arena.max)) := by
  rcases Threaded.tryIntern_spec (threaded_reach_inv h) x with ⟨_, _, he⟩ | ⟨_, ⟨_, he⟩ | ⟨a', ref, hst, ⟨_, he, _, _⟩ | ⟨_, he, _⟩⟩⟩
  · rw [he]; exact ⟨rfl, Or.inl rfl⟩
  · rw [he]; exact ⟨rfl, Or.inl rfl⟩
  · rw [he]; exact LArena.store_usage hst
  · rw [he]; exact LArena.store_usage hst

/-- Static strings and the empty string never consume arena memory (no new block, usage unchanged). -/
theorem rodeo_static_free {env : Env} {r r' : Rodeo} (i : Nat) (g : Bool) (k : Nat)
    (hs : r.tryInternStatic env i g = .ok (r', k)) (x : Bytes) (hp : env.pool[i]? = some x)
    (h : RodeoReach env r) : r'.arena = r.arena := by
  rcases Rodeo.tryInternStatic_spec (rodeo_reach_inv h) i x hp g with ⟨_, _, he⟩ | ⟨_, ⟨_, he⟩ | ⟨_, r'', he, ha, _⟩⟩
  · rw [he] at hs; injection hs with hs; injection hs with a b; subst a; rfl
  · rw [he] at hs; simp at hs
  · rw [he] at hs; injection hs with hs; injection hs with a b; subst a; exact ha

theorem rodeo_empty_free {env : Env} {r r' : Rodeo} (g : Bool) (k : Nat)
    (hs : r.tryIntern env [] g = .ok (r', k)) (h : RodeoReach env r) : r'.arena = r.arena := by
  rcases Rodeo.tryIntern_spec (rodeo_reach_inv h) [] g with ⟨_, _, he⟩ | ⟨_, ⟨_, he⟩ | ⟨_, ⟨_, he⟩ | ⟨r'', ref, he, hst, _⟩⟩⟩
  · rw [he] at hs; injection hs with hs; injection hs with a b; subst a; rfl
  · rw [he] at hs; simp at hs
  · rw [he] at hs; simp at hs
  · rw [he] at hs; injection hs with hs; injection hs with a b; subst a
    rw [Arena.store_empty] at hst; injection hst with hst; injection hst with a b; exact a.symm

/-- Interning fails for lack of memory only when the string genuinely cannot fit: it does not fit the
current block *and* usage plus its length exceeds the limit — and in exactly those states it fails. -/
theorem arena_err_iff (a : Arena) (x : Bytes) :
    a.store x = .err .memoryLimit ↔ (x.length ≠ 0 ∧ a.cur.free < x.length ∧ a.usage + x.length > a.max) := by
  constructor
  · intro h; obtain ⟨_, h0, h1, h2⟩ := Arena.store_err h; exact ⟨h0, h1, h2⟩
  · rintro ⟨h0, h1, h2⟩; exact Arena.store_err_of h0 h1 h2

theorem larena_err_iff (a : LArena) (x : Bytes) :
    a.store x = .err .memoryLimit ↔ (x.length ≠ 0 ∧ LArena.fitIn x a.buckets = none ∧ a.usage + x.length > a.max) := by
  constructor
  · intro h; obtain ⟨_, h0, h1, h2⟩ := LArena.store_err h; exact ⟨h0, h2, h1⟩
  · rintro ⟨h0, h1, h2⟩; exact LArena.store_err_of h0 h1 h2

/-- The arena reports no other error than the memory limit, and never faults (the unchecked copy is
always in bounds — this is the statement the unrepaired remaining-budget branch violated, D1). -/
theorem arena_only_memory_error {env : Env} {r : Rodeo} (h : RodeoReach env r) (x : Bytes) :
    (∀ e, r.arena.store x = .err e → e = .memoryLimit) ∧ (∀ f, r.arena.store x ≠ .fault f) ∧ r.arena.store x ≠ .panic :=
  ⟨fun _ he => (Arena.store_err he).1, fun f => Arena.store_no_fault (rodeo_reach_inv h).wf x f, Arena.store_no_panic x⟩

/-- Raising the limit makes interning possible again. -/
theorem raise_limit_helps {env : Env} {r : Rodeo} (h : RodeoReach env r) (x : Bytes) (g : Bool) (L : Nat)
    (hnew : ∀ k, r.str env k ≠ some x) (hlt : r.strings.length < r.N) (hL : r.arena.usage + x.length ≤ L) :
    ∃ r', (r.setLimit L).tryIntern env x g = .ok (r', r.strings.length) := by
  have hi := Rodeo.setLimit_inv (rodeo_reach_inv h) L
  rcases Rodeo.tryIntern_spec hi x g with ⟨k, hk, _⟩ | ⟨_, ⟨hl, _⟩ | ⟨_, ⟨hs, _⟩ | ⟨r', _, he, _, _⟩⟩⟩
  · exact absurd hk (hnew k)
  · simp [Rodeo.setLimit] at hl; omega
  · obtain ⟨_, _, _, h2⟩ := Arena.store_err hs
    simp [Rodeo.setLimit] at h2; omega
  · exact ⟨r', by simpa [Rodeo.setLimit] using he⟩

/-- `clear` keeps every block and the accounting. -/
theorem clear_keeps_usage (r : Rodeo) : r.clear.arena.usage = r.arena.usage ∧ r.clear.arena.max = r.arena.max := by
  simp [Rodeo.clear, Arena.clear]

/-! ### D1, inside the model: the unrepaired remaining-budget branch overruns its block -/

/-- The branch as it was before the repair: no `rem < len` guard. -/
def storeRemainingUnrepaired (a : Arena) (s : Bytes) : Out (Arena × StrRef) :=
  let rem := a.max - a.usage
  if a.usage + rem > a.max then .err .memoryLimit
  else if rem = 0 then .err .memoryLimit
  else if s.length ≤ rem then .ok (a, .empty)
  else .fault .oobWrite

/-- `Capacity::new(_, 10 bytes)`, limit 15, 8 bytes used, a 6-byte string: 5 bytes are left. -/
example : storeRemainingUnrepaired
    { cur := { id := 0, cap := 10, data := [1,2,3,4,5,6,7,8] }, full := [], bucketCap := 10, usage := 10, max := 15, nextId := 1 }
    [1,2,3,4,5,6] = .fault .oobWrite := by decide

/-- The repaired arena refuses the same input with `MemoryLimitReached`. -/
example : Arena.store
    { cur := { id := 0, cap := 10, data := [1,2,3,4,5,6,7,8] }, full := [], bucketCap := 10, usage := 10, max := 15, nextId := 1 }
    [1,2,3,4,5,6] = .err .memoryLimit := by decide

/-! ### Tie to the source: the growth logic of both arenas is regenerated from `store_str`

`Extracted.arenaGrow` / `Extracted.lockfreeGrow` are the decision trees the extractor translates from
the statements of `store_str` after the search for a block with room (conditions, amount claimed from
the budget, block size and how it is built, stored capacity, placement).  For every arena state and
every string the model does exactly what the tree says. -/
theorem growth_logic_is_source :
    (∀ (a : Arena) (s : Bytes), s.length ≠ 0 → ¬ s.length ≤ a.cur.free →
      (Grow.eval (a.env s) Extracted.arenaGrow).map (a.applyOutcome s) = some (a.store s)) ∧
    (∀ (a : LArena) (s : Bytes),
      (Grow.eval (a.env s) Extracted.lockfreeGrow).map (a.applyOutcome s) = some (a.grow s)) ∧
    Extracted.arenaAllocateIsCheckThenAdd = true :=
  ⟨arena_store_is_source_tree, larena_grow_is_source_tree, arena_allocate_shape⟩

/-! ### Tie to the source: every constructor and builder, regenerated

"For all initial capacities, all limits": an interner can be built through seven constructors (plus
`Default`) and the `Capacity` / `MemoryLimits` builders.  The extractor regenerates what each of them hands
on (`Extracted.ctorSpecs`, resolved through any chain of calls between constructors), what the full
constructor gives to the arena and the tables (`Extracted.fullCtors`) and the values the builders produce
(`Extracted.capBuilders`, `limBuilders`); `ctorConfig` interprets those tables. -/

/-- For both interners, every constructor, every builder and all numeric arguments: the first block, the
limit and the pre-sizing are the documented ones (defaults: 50 strings, 4096 bytes, no limit). -/
theorem constructors_build_documented_configuration (owner : Source.Wrapper)
    (ho : owner = .rodeo ∨ owner = .threaded) (c : Source.CtorName) (capB : Source.BuilderName)
    (strings bytes : Nat) (limB : Source.BuilderName) (limit : Nat) :
    ctorConfig owner c capB strings bytes limB limit = ctorConfigDoc c capB strings bytes limB limit :=
  ctorConfig_is_documented owner ho c capB strings bytes limB limit

/-- Whatever constructor built it, a fresh `Rodeo` is the state all theorems of C01–C13 start from: it is
reachable (by the empty history), charges exactly its first block, and reports the limit it was given. -/
theorem constructed_rodeo_is_initial_state (env : Env) (N : Nat) (c : Source.CtorName) (capB : Source.BuilderName)
    (strings bytes : Nat) (hb : 0 < bytes) (limB : Source.BuilderName) (limit : Nat) (r : Rodeo)
    (h : Rodeo.construct N c capB strings bytes limB limit = some r) :
    ∃ cfg, ctorConfigDoc c capB strings bytes limB limit = some cfg ∧
      r = Rodeo.new N cfg.arenaBytes cfg.arenaMax ∧ RodeoReach env r ∧
      r.arena.usage = cfg.arenaBytes ∧ r.arena.max = cfg.arenaMax ∧ r.strings = [] := by
  unfold Rodeo.construct at h
  rw [ctorConfig_is_documented _ (Or.inl rfl)] at h
  cases hc : ctorConfigDoc c capB strings bytes limB limit with
  | none => rw [hc] at h; simp at h
  | some cfg =>
    rw [hc] at h
    simp only [Option.map_some, Option.some.injEq] at h
    subst h
    have hpos : 0 < cfg.arenaBytes := by
      unfold ctorConfigDoc at hc
      cases c <;> cases capB <;> cases limB <;> simp [ctorTakes, capDoc, limDoc] at hc <;> (subst hc; simp) <;> omega
    exact ⟨cfg, rfl, rfl, ⟨N, cfg.arenaBytes, cfg.arenaMax, [], hpos, by simp, rfl⟩, rfl, rfl, rfl⟩

theorem constructed_threaded_is_initial_state (env : Env) (N : Nat) (c : Source.CtorName) (capB : Source.BuilderName)
    (strings bytes : Nat) (hb : 0 < bytes) (limB : Source.BuilderName) (limit : Nat) (t : Threaded)
    (h : Threaded.construct N c capB strings bytes limB limit = some t) :
    ∃ cfg, ctorConfigDoc c capB strings bytes limB limit = some cfg ∧
      t = Threaded.new N cfg.arenaBytes cfg.arenaMax ∧ ThreadedReach env t ∧
      t.arena.usage = cfg.arenaBytes ∧ t.arena.max = cfg.arenaMax ∧ t.strs = [] ∧ t.ctr = 0 := by
  unfold Threaded.construct at h
  rw [ctorConfig_is_documented _ (Or.inr rfl)] at h
  cases hc : ctorConfigDoc c capB strings bytes limB limit with
  | none => rw [hc] at h; simp at h
  | some cfg =>
    rw [hc] at h
    simp only [Option.map_some, Option.some.injEq] at h
    subst h
    have hpos : 0 < cfg.arenaBytes := by
      unfold ctorConfigDoc at hc
      cases c <;> cases capB <;> cases limB <;> simp [ctorTakes, capDoc, limDoc] at hc <;> (subst hc; simp) <;> omega
    exact ⟨cfg, rfl, rfl, ⟨N, cfg.arenaBytes, cfg.arenaMax, [], hpos, by simp, rfl⟩, rfl, rfl, rfl, rfl⟩

/-- Non-vacuity: `Rodeo::with_capacity(Capacity::for_bytes(10))` and `Rodeo::with_memory_limits(..)`. -/
example : Rodeo.construct 255 .withCapacity .forBytes 0 10 .default 0 = some (Rodeo.new 255 10 18446744073709551615) ∧
    Rodeo.construct 255 .withMemoryLimits .minimal 0 1 .forMemoryUsage 77 = some (Rodeo.new 255 4096 77) := by
  constructor <;> rfl

/-- The code this file's theorems are about is the same under every feature configuration: the regenerated
census of conditional compilation contains import blocks, whole serde impls, optional-dependency impls and
module declarations only, and no gate inside any function body (`Lemmas/Config.lean`). -/
theorem same_code_under_every_feature_configuration :
    (Extracted.cfgGates.all fun g => g.kind != .other) = true ∧ Extracted.bodyGates.isEmpty = true :=
  Lasso.one_code_base_for_all_configurations

end Lasso.C08
