import LassoProofs.C06
import LassoModel.Extracted
import LassoProofs.Lemmas.Config
/-
  C18 — equality between interners and views means equal content, nothing else.

  The shapes of all `PartialEq` impls are regenerated from the source (`Extracted.eqImpls`); the
  driver evaluates `a == b` by the shape extracted for that pairing.
-/
namespace Lasso.C18
open Lasso Lasso.C02 Lasso.Source

/-- Exactly the supported pairings exist, and each has the body shape that the theorems below are
about (vector containers: `self.strings == other.strings`; concurrent interner on the left: same
length and every key looked up).  An added, removed or rewritten impl changes this table. -/
theorem pairings :
    Extracted.eqImpls =
      [⟨.rodeo, .rodeo, .stringsEq⟩, ⟨.rodeo, .reader, .stringsEq⟩, ⟨.rodeo, .resolver, .stringsEq⟩,
       ⟨.reader, .reader, .stringsEq⟩, ⟨.reader, .resolver, .stringsEq⟩, ⟨.reader, .rodeo, .stringsEq⟩,
       ⟨.resolver, .resolver, .stringsEq⟩, ⟨.resolver, .reader, .stringsEq⟩, ⟨.resolver, .rodeo, .stringsEq⟩,
       ⟨.threaded, .threaded, .lenAndAllLookup⟩, ⟨.threaded, .rodeo, .lenAndAllLookup⟩,
       ⟨.threaded, .reader, .lenAndAllLookup⟩, ⟨.threaded, .resolver, .lenAndAllLookup⟩] := by
  decide

/-- Both directions exist for every pairing among the three vector containers. -/
theorem vector_pairings_symmetric :
    ([Wrapper.rodeo, .reader, .resolver].all fun a => [Wrapper.rodeo, .reader, .resolver].all fun b =>
      (Extracted.eqImpls.any fun e => e.lhs == a && e.rhs == b) &&
      (Extracted.eqImpls.any fun e => e.lhs == b && e.rhs == a)) = true := by decide

/-- `strings == strings`: equal exactly when both hold the same number of strings and the same
string under every key; reflexive; the same answer in both directions.  It is a function of the
contents only: hasher, capacity, memory limit and provenance (copied or static) do not occur. -/
theorem eqStrings_iff (xs ys : List Bytes) :
    eqStrings (some xs) (some ys) = .ok true ↔ (xs.length = ys.length ∧ ∀ k : Nat, xs[k]? = ys[k]?) := by
  simp only [eqStrings, Out.ok.injEq, beq_iff_eq]
  constructor
  · intro h; subst h; exact ⟨rfl, fun _ => rfl⟩
  · rintro ⟨_, h⟩; exact List.ext_getElem? h

theorem eqStrings_refl (xs : List Bytes) : eqStrings (some xs) (some xs) = .ok true := by simp [eqStrings]

theorem eqStrings_symm (xs ys : List Bytes) : eqStrings (some xs) (some ys) = eqStrings (some ys) (some xs) := by
  simp only [eqStrings]
  congr 1
  exact Bool.eq_iff_iff.mpr ⟨fun h => by simp at h ⊢; exact h.symm, fun h => by simp at h ⊢; exact h.symm⟩

/-- Concurrent interner on the left, a vector container on the right. -/
theorem eqThreadedVec_iff {env : Env} {t : Threaded} (h : ThreadedReach env t) (ys : List Bytes) :
    eqThreadedVec env t.N t (some ys) = .ok true ↔ (t.len = ys.length ∧ ∀ k : Nat, k < ys.length → t.str env k = ys[k]?) := by
  have hi := threaded_reach_inv h
  simp only [eqThreadedVec, Out.ok.injEq, Bool.and_eq_true, beq_iff_eq, List.all_eq_true, List.mem_range, Threaded.len]
  constructor
  · rintro ⟨hl, hall⟩
    refine ⟨hl, fun k hk => ?_⟩
    have := hall k hk
    have hN : k < t.N := by have := hi.lenLe; omega
    simp only [keyOfIndex, hN, ↓reduceIte, beq_iff_eq] at this
    exact this
  · rintro ⟨hl, hall⟩
    refine ⟨hl, fun k hk => ?_⟩
    have hN : k < t.N := by have := hi.lenLe; omega
    simp only [keyOfIndex, hN, ↓reduceIte, beq_iff_eq]
    exact hall k hk

/-- Two concurrent interners. -/
theorem eqThreaded_iff {env : Env} {a b : Threaded} (ha : ThreadedReach env a) (hb : ThreadedReach env b) :
    eqThreaded env a b = true ↔ (a.len = b.len ∧ ∀ k, a.str env k = b.str env k) := by
  have hia := threaded_reach_inv ha
  have hib := threaded_reach_inv hb
  simp only [eqThreaded, Bool.and_eq_true, beq_iff_eq, List.all_eq_true, Threaded.len]
  constructor
  · rintro ⟨hl, hall⟩
    refine ⟨hl, fun k => ?_⟩
    by_cases hk : k < a.strs.length
    · obtain ⟨ref, hr⟩ := (hia.dense k).mp hk
      obtain ⟨y, hy⟩ := Threaded.content_some hia hr
      have := hall (k, ref) hr
      simp only [hy, beq_iff_eq] at this
      rw [(Threaded.str_iff hia k y).mpr ⟨ref, hr, hy⟩, this]
    · have h1 : a.str env k = none := by
        apply Option.eq_none_iff_forall_ne_some.mpr
        intro y hy
        obtain ⟨ref, hr, _⟩ := (Threaded.str_iff hia k y).mp hy
        exact hk ((hia.dense k).mpr ⟨ref, hr⟩)
      have h2 : b.str env k = none := by
        apply Option.eq_none_iff_forall_ne_some.mpr
        intro y hy
        obtain ⟨ref, hr, _⟩ := (Threaded.str_iff hib k y).mp hy
        have := (hib.dense k).mpr ⟨ref, hr⟩
        omega
      rw [h1, h2]
  · rintro ⟨hl, hall⟩
    refine ⟨hl, fun e he => ?_⟩
    obtain ⟨y, hy⟩ := Threaded.content_some hia he
    simp only [hy, beq_iff_eq]
    rw [← hall e.1]
    exact (Threaded.str_iff hia e.1 y).mpr ⟨e.2, he, hy⟩

/-! ### Non-vacuity -/
example : eqStrings (some [[1], [2]]) (some [[1], [2]]) = .ok true ∧ eqStrings (some [[1], [2]]) (some [[2], [1]]) = .ok false ∧
    eqStrings (some [[1]]) (some [[1], [2]]) = .ok false := by decide

/-- The code this file's theorems are about is the same under every feature configuration: the regenerated
census of conditional compilation contains import blocks, whole serde impls, optional-dependency impls and
module declarations only, and no gate inside any function body (`Lemmas/Config.lean`). -/
theorem same_code_under_every_feature_configuration :
    (Extracted.cfgGates.all fun g => g.kind != .other) = true ∧ Extracted.bodyGates.isEmpty = true :=
  Lasso.one_code_base_for_all_configurations

end Lasso.C18
