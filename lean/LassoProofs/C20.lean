import LassoModel.Borrow
import LassoModel.Extracted
import LassoProofs.Lemmas.Config
/-
  C20 — resolved strings cannot outlive or be invalidated under their borrower.

  `decide`d over the signatures regenerated from the source on this run; the matrix (containers ×
  string-returning entry points × invalidating operations) is finite and enumerated completely.
-/
namespace Lasso.C20
open Lasso.Source Lasso.Borrow

/-- Every probe of the matrix that is applicable is rejected: for every container, every
string-returning entry point it has and every invalidating operation it has, the three-statement
program does not pass the borrow model. -/
theorem every_probe_rejected :
    (containers.all fun o => stringEntryPoints.all fun e => invalidators.all fun i =>
      match probe Extracted.fnSigs o e i with
      | none => true                 -- not applicable
      | some (some _) => true        -- rejected
      | some none => false) = true := by
  decide

/-- The trait-object forms: a string obtained through `dyn Resolver` over any vector container,
followed by any invalidating operation of that container. -/
theorem every_dyn_probe_rejected :
    ([Owner.rodeo, .reader, .resolver].all fun o => [SigName.resolve, .tryResolve, .resolveUnchecked].all fun e =>
      invalidators.all fun i =>
        match probeVia Extracted.fnSigs .traitResolver o e i with
        | none => true
        | some (some _) => true
        | some none => false) = true := by
  decide

/-- The entry points and operations the property lists exist where it says they do (so the
statement above is not vacuous): the vector containers have all seven string-returning entry points,
the concurrent interner five; `Rodeo` can be cleared, cloned into and consumed, the concurrent
interner and the reader consumed. -/
theorem matrix_not_vacuous :
    (([Owner.rodeo, .reader, .resolver].all fun o => stringEntryPoints.all fun e => (findSig Extracted.fnSigs o e).isSome) &&
     ([SigName.resolve, .tryResolve, .index, .iter, .strings].all fun e => (findSig Extracted.fnSigs .threaded e).isSome) &&
     ([SigName.clear, .cloneFrom, .tryCloneFrom, .intoReader, .intoResolver].all fun n => (findSig Extracted.fnSigs .rodeo n).isSome) &&
     ([SigName.intoReader, .intoResolver].all fun n => (findSig Extracted.fnSigs .threaded n).isSome) &&
     (findSig Extracted.fnSigs .reader .intoResolver).isSome) = true := by
  decide

/-- Every string-returning entry point — of the four containers and of the `Resolver` trait (the
trait-object forms) — ties the returned lifetime to the borrow of `self`; none returns `'static` or
an unconstrained lifetime; iterator items carry the iterator's own lifetime. -/
theorem lifetimes_tied_to_self :
    ((Extracted.fnSigs.filter fun s => stringEntryPoints.contains s.name).all fun s => s.ret == .self_) = true ∧
    (Extracted.iterItems.all fun i => i.item == .self_) = true ∧ Extracted.iterItems.length = 4 := by
  decide

/-- Invalidating operations need exclusive access or ownership. -/
theorem invalidators_exclusive :
    ((Extracted.fnSigs.filter fun s => [SigName.clear, .cloneFrom, .tryCloneFrom].contains s.name).all fun s => s.recv == .refMut) = true ∧
    ((Extracted.fnSigs.filter fun s => [SigName.intoReader, .intoResolver].contains s.name).all fun s => s.recv == .val) = true := by
  decide

/-- Only strings that live for the whole program are accepted by the zero-copy entry points: every
static entry point (inherent on both interners, and of the `Interner` trait) demands `&'static str`;
the copying ones accept any borrow. -/
theorem static_entry_points_demand_static :
    ((Extracted.fnSigs.filter fun s => [SigName.getOrInternStatic, .tryGetOrInternStatic].contains s.name).all fun s =>
        s.strArgStatic == some true) = true ∧
    ((Extracted.fnSigs.filter fun s => [SigName.getOrInternStatic, .tryGetOrInternStatic].contains s.name).length = 6) ∧
    ((Extracted.fnSigs.filter fun s => [SigName.getOrIntern, .tryGetOrIntern].contains s.name).all fun s =>
        s.strArgStatic == some false) = true := by
  decide

/-- Negative companion: an entry point returning `&'static str` would make the probe pass. -/
example : probe [{ owner := .rodeo, name := .resolve, recv := .ref, strArgStatic := none, ret := .static_, isUnsafe := false },
                 { owner := .rodeo, name := .clear, recv := .refMut, strArgStatic := none, ret := .noStr, isUnsafe := false }]
    .rodeo .resolve .clear = some none := by decide

/-- The code this file's theorems are about is the same under every feature configuration: the regenerated
census of conditional compilation contains import blocks, whole serde impls, optional-dependency impls and
module declarations only, and no gate inside any function body (`Lemmas/Config.lean`). -/
theorem same_code_under_every_feature_configuration :
    (Extracted.cfgGates.all fun g => g.kind != .other) = true ∧ Extracted.bodyGates.isEmpty = true :=
  Lasso.one_code_base_for_all_configurations

end Lasso.C20
