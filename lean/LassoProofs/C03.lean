import LassoProofs.Lemmas.Conc
import LassoProofs.Lemmas.SerdeT
import LassoModel.Extracted
import LassoProofs.Lemmas.ConcEffects
import LassoProofs.Lemmas.ConcSeq
import LassoProofs.Lemmas.Config
import LassoProofs.Lemmas.TInternInterp
/-
  C03 — concurrent interning is atomic: one key per string under every schedule.

  Quantified over: any number of threads, any programs (lists of intern / intern-static / get /
  try_resolve / contains_key / len calls), any shard function, any key capacity `N`, any block size and
  memory limit, and *every* schedule (`run` executes a list of thread ids at the granularity of the
  schedule points; entries naming a blocked or finished thread are no-ops, so every list is a schedule).
-/
namespace Lasso.C03
open Lasso Lasso.Conc

/-- The `(string, key)` pair a completed call told its thread (interning or lookup). -/
def toldOf (e : Nat × Call × Res) : Option (Bytes × Nat) :=
  match e.2.1, e.2.2 with
  | .intern x, .key k => some (x, k)
  | .internStatic x, .key k => some (x, k)
  | .get x, .optKey (some k) => some (x, k)
  | _, _ => none

theorem told_in_map {s : CS} (hl : LogOk s) {e : Nat × Call × Res} (he : e ∈ s.log) {x : Bytes} {k : Nat}
    (ht : toldOf e = some (x, k)) : (x, k) ∈ s.map := by
  have := hl e he
  unfold entryOk at this
  unfold toldOf at ht
  split at ht <;> simp_all

theorem mapGet_of_mem {m : List (Bytes × Nat)} (hnd : (m.map (·.1)).Nodup) {x : Bytes} {k : Nat} (h : (x, k) ∈ m) :
    mapGet m x = some k := by
  induction m with
  | nil => simp at h
  | cons e rest ih =>
    simp only [List.map_cons, List.nodup_cons, List.mem_map] at hnd
    unfold mapGet
    simp only [List.find?_cons]
    simp only [List.mem_cons] at h
    rcases h with rfl | h
    · simp
    · have hne : e.1 ≠ x := fun he => hnd.1 ⟨(x, k), h, by simp [he]⟩
      have : (e.1 == x) = false := by simp [hne]
      simp only [this]
      exact ih hnd.2 h

theorem strGet_of_mem {m : List (Nat × Bytes)} (hnd : (m.map (·.1)).Nodup) {x : Bytes} {k : Nat} (h : (k, x) ∈ m) :
    strGet m k = some x := by
  induction m with
  | nil => simp at h
  | cons e rest ih =>
    simp only [List.map_cons, List.nodup_cons, List.mem_map] at hnd
    unfold strGet
    simp only [List.find?_cons]
    simp only [List.mem_cons] at h
    rcases h with rfl | h
    · simp
    · have hne : e.1 ≠ k := fun he => hnd.1 ⟨(k, x), h, by simp [he]⟩
      have : (e.1 == k) = false := by simp [hne]
      simp only [this]
      exact ih hnd.2 h

section
variable (sh : Bytes → Nat) (N cap max : Nat) (programs : List (List Call))

/-- All calls for equal strings return the same key, calls for different strings different keys —
under every schedule, whichever threads made the calls. -/
theorem one_key_per_string (sched : List Nat) (e1 e2 : Nat × Call × Res) (x y : Bytes) (k1 k2 : Nat)
    (h1 : e1 ∈ (run sh N (init cap max programs) sched).log) (h2 : e2 ∈ (run sh N (init cap max programs) sched).log)
    (t1 : toldOf e1 = some (x, k1)) (t2 : toldOf e2 = some (y, k2)) : (x = y ↔ k1 = k2) := by
  have hi := run_inv (sh := sh) (N := N) sched (init_inv sh N cap max programs)
  have hl := run_logOk (sh := sh) (N := N) sched (init_inv sh N cap max programs) (by intro e he; simp [init] at he)
  have m1 := told_in_map hl h1 t1
  have m2 := told_in_map hl h2 t2
  constructor
  · intro e; subst e
    have a := mapGet_of_mem hi.mapNd m1
    have b := mapGet_of_mem hi.mapNd m2
    rw [a] at b; injection b
  · intro e; subst e
    have a := strGet_of_mem hi.strNd (hi.mapStr x k1 m1)
    have b := strGet_of_mem hi.strNd (hi.mapStr y k1 m2)
    rw [a] at b; injection b

/-- Any key a thread has obtained (from interning or from a lookup) resolves to its string at once
and forever after, and every later lookup of that string finds that key: for every continuation of
the schedule. -/
theorem obtained_key_resolves_forever (sched more : List Nat) (e : Nat × Call × Res) (x : Bytes) (k : Nat)
    (h : e ∈ (run sh N (init cap max programs) sched).log) (t : toldOf e = some (x, k)) :
    strGet (run sh N (run sh N (init cap max programs) sched) more).strs k = some x ∧
    mapGet (run sh N (run sh N (init cap max programs) sched) more).map x = some k := by
  have hi := run_inv (sh := sh) (N := N) sched (init_inv sh N cap max programs)
  have hl := run_logOk (sh := sh) (N := N) sched (init_inv sh N cap max programs) (by intro e he; simp [init] at he)
  have m := told_in_map hl h t
  have hi2 := run_inv (sh := sh) (N := N) more hi
  obtain ⟨mm, _, _⟩ := run_mono (sh := sh) (N := N) more hi
  have m2 := mm _ m
  exact ⟨strGet_of_mem hi2.strNd (hi2.mapStr x k m2), mapGet_of_mem hi2.mapNd m2⟩

/-- When all threads are done the keys in use are exactly `0 .. count-1`, and `count` is the number
of distinct strings successfully interned (the two maps are in bijection). -/
theorem quiescent_dense (sched : List Nat)
    (hq : quiescent (run sh N (init cap max programs) sched) = true) :
    let s := run sh N (init cap max programs) sched
    (∀ k, k < s.strs.length ↔ ∃ x, (k, x) ∈ s.strs) ∧ s.strs.length = s.map.length ∧
    (s.map.map (·.1)).Nodup ∧ (∀ x k, (x, k) ∈ s.map ↔ (k, x) ∈ s.strs) := by
  intro s
  have hi : Inv sh N s := run_inv (sh := sh) (N := N) sched (init_inv sh N cap max programs)
  have hidle : ∀ (t : Nat) (th : Thread), s.ts[t]? = some th → th.pc = PC.idle := by
    intro t th ht
    have hq' : quiescent s = true := hq
    unfold quiescent at hq'
    simp only [List.all_eq_true, Bool.and_eq_true, beq_iff_eq] at hq'
    exact (hq' th (List.mem_of_getElem? ht)).1
  have hbij : ∀ x k, (x, k) ∈ s.map ↔ (k, x) ∈ s.strs := by
    intro x k
    constructor
    · exact hi.mapStr x k
    · intro hm
      rcases hi.strSrc k x hm with h | ⟨t, th, ht, hp⟩
      · exact h
      · rw [hidle t th ht] at hp; simp [pend] at hp
  have hkeys : ∀ k, (∃ x, (k, x) ∈ s.strs) → k < Nat.min s.ctr N := by
    rintro k ⟨x, hx⟩
    have := hi.strLt k x hx
    exact Nat.lt_min.mpr this
  have hfull : ∀ k, k < Nat.min s.ctr N → ∃ x, (k, x) ∈ s.strs := by
    intro k hk
    have hk' := Nat.lt_min.mp hk
    rcases hi.dense k hk'.1 hk'.2 with h | ⟨t, th, ht, ho⟩
    · exact h
    · rw [hidle t th ht] at ho; simp [owns] at ho
  -- the key list is a nodup list of naturals, all below m := min ctr N, containing every such number
  have hlen : s.strs.length = Nat.min s.ctr N := by
    have hnd := hi.strNd
    have hsub : ∀ x ∈ s.strs.map (·.1), x < Nat.min s.ctr N := by
      intro x hx
      obtain ⟨e, he, rfl⟩ := List.mem_map.mp hx
      exact hkeys e.1 ⟨e.2, he⟩
    have hle := nodup_lt_len hnd hsub
    have hge : Nat.min s.ctr N ≤ (s.strs.map (·.1)).length := by
      have hsub2 : List.range (Nat.min s.ctr N) ⊆ s.strs.map (·.1) := by
        intro k hk
        obtain ⟨x, hx⟩ := hfull k (List.mem_range.mp hk)
        exact List.mem_map.mpr ⟨(k, x), hx, rfl⟩
      simpa using (List.nodup_range).length_le_of_subset hsub2
    simp at hle hge
    omega
  refine ⟨?_, ?_, hi.mapNd, hbij⟩
  · intro k
    rw [hlen]
    exact ⟨hfull k, hkeys k⟩
  · have hperm : (s.strs.map (·.1)).Perm (s.map.map (·.2)) := by
      have hnd2 : (s.map.map (·.2)).Nodup := by
        refine nodup_map_of_inj_on (nodup_of_map hi.mapNd) ?_
        intro a ha b hb hab
        have h1 := hi.mapStr a.1 a.2 ha
        have h2 := hi.mapStr b.1 b.2 hb
        rw [hab] at h1
        have e1 := strGet_of_mem hi.strNd h1
        have e2 := strGet_of_mem hi.strNd h2
        rw [e1] at e2; injection e2 with e2
        cases a; cases b; simp_all
      rw [List.perm_ext_iff_of_nodup hi.strNd hnd2]
      intro k
      simp only [List.mem_map]
      constructor
      · rintro ⟨e, he, rfl⟩; exact ⟨(e.2, e.1), (hbij e.2 e.1).mpr he, rfl⟩
      · rintro ⟨e, he, rfl⟩; exact ⟨(e.2, e.1), (hbij e.1 e.2).mp he, rfl⟩
    simpa using hperm.length_eq
where
  nodup_of_map {l : List (Bytes × Nat)} (h : (l.map (·.1)).Nodup) : l.Nodup := by
    induction l with
    | nil => simp
    | cons x rest ih =>
      simp only [List.map_cons, List.nodup_cons, List.mem_map] at h
      simp only [List.nodup_cons]
      exact ⟨fun hx => h.1 ⟨x, hx, rfl⟩, ih h.2⟩

/-- The invariant behind all of the above holds in every reachable state: every string->key entry has
its key->string entry (the latter is inserted first and never removed), both maps are injective,
every key in use is below the counter and the capacity, a thread between its `fetch_add` and its
inserts owns an index nobody else has. -/
theorem invariant_always (sched : List Nat) : Inv sh N (run sh N (init cap max programs) sched) :=
  run_inv sched (init_inv sh N cap max programs)

end

/-! ### Non-vacuity: two threads racing for the same string, an interleaved schedule -/
example :
    let s := run (fun _ => 0) 255 (init 8 1000 [[.intern [1]], [.intern [1], .get [1]]]) [0, 1, 0, 0, 0, 0, 0, 1, 1, 1]
    (s.log.filterMap toldOf) = [([1], 0), ([1], 0), ([1], 0)] := by decide

/-! ### Tie to the source

The machine fetches a key index in ONE atomic step (`locked x false`: `key.fetch_add(1)`), and consults
the counter nowhere else.  The extractor lists every atomic operation on `self.key` of
`threaded_rodeo.rs`; outside the `verif_*` audit hook these must be exactly the two `fetch_add`s of the
two interning entry points. -/
theorem key_allocation_atomic :
    ((Extracted.atomicOps.filter fun op => op.role == .keyCounter).map fun op => op.kind) = [.fetchAdd, .fetchAdd] := by
  decide

/-- The machine's transitions are the source's operations in the source's order: the program counters
a thread passes through while interning a new string, mapped to the operations each step performs, give
exactly the effect sequence regenerated from `try_get_or_intern` resp. `try_get_or_intern_static`
(fast lookup; lock and second lookup; store; key fetch and check; key->string insert; string->key
insert).  Reordering the two inserts, dropping the second lookup, fetching the key before the store or
touching the maps anywhere else changes the extracted sequence and breaks this theorem. -/
theorem steps_are_source_operations (sh : Bytes → Nat) (N cap max : Nat) (x : Bytes) (hN : 0 < N) (hx : 0 < x.length) (hc : x.length ≤ cap) :
    ((pcsAlong sh N (init cap max [[.intern x]]) 0 6).flatMap effectsOfStep) = Extracted.internEffects ∧
    ((pcsAlong sh N (init cap max [[.internStatic x]]) 0 5).flatMap effectsOfStep) = Extracted.internStaticEffects :=
  ⟨solo_intern_effects sh N cap max x hN hx hc, solo_intern_static_effects sh N cap max x hN⟩

/-- Run by one thread, the machine *is* the sequential model of `ThreadedRodeo` (`Threaded.tryIntern`
/ `tryInternStatic`, on which the single-thread theorems of C01, C02, C07, C10 about the concurrent
interner are proved): states related through what the lookups answer (same arena, same counter, same
key->string and string->key answers) stay related by one interning call, and the machine logs exactly
the sequential model's result — present string, memory error, key-space error or new key. -/
theorem solo_calls_are_sequential_model (sh : Bytes → Nat) (env : Env) (s : CS) (t : Threaded) (hR : RelT env s t)
    (hI : t.Inv env) (x : Bytes) (rest : List Call) :
    (s.ts = [{ pc := .idle, todo := .intern x :: rest }] →
      ∃ n, (run sh t.N s (List.replicate n 0)).ts = [{ pc := .idle, todo := rest }] ∧
        RelT env (run sh t.N s (List.replicate n 0)) (t.tryIntern env x).1 ∧
        (run sh t.N s (List.replicate n 0)).log = (0, .intern x, resOf (t.tryIntern env x).2) :: s.log) ∧
    (∀ i, env.pool[i]? = some x → s.ts = [{ pc := .idle, todo := .internStatic x :: rest }] →
      ∃ n, (run sh t.N s (List.replicate n 0)).ts = [{ pc := .idle, todo := rest }] ∧
        RelT env (run sh t.N s (List.replicate n 0)) (t.tryInternStatic env i).1 ∧
        ∃ c, (c = Call.intern x ∨ c = Call.internStatic x) ∧
          (run sh t.N s (List.replicate n 0)).log = (0, c, resOf (t.tryInternStatic env i).2) :: s.log) :=
  ⟨fun ht => solo_intern_is_sequential sh env s t hR hI x rest ht,
   fun i hp ht => solo_intern_static_is_sequential sh env s t hR hI i x hp rest ht⟩

/-- The sequential model of the concurrent interner *is* the regenerated effect sequences run by one thread:
the sequences of `try_get_or_intern` / `try_get_or_intern_static` are given a semantics
(`LassoModel/TInternInterp.lean`: lock-free lookup, shard lock and second lookup, store, key fetch, key check, the
two inserts) and running them equals `Threaded.tryIntern` / `tryInternStatic` for every state and string.  Together
with `steps_are_source_operations` (the interleaving machine steps through the same operations) and
`solo_calls_are_sequential_model` (the machine run by one thread is that sequential model) the three descriptions
of the interning path - source statements, sequential model, interleaving machine - are tied pairwise. -/
theorem solo_interning_runs_the_source (env : Env) (t : Threaded) :
    (∀ x, interpTIntern env Extracted.internEffects t x = t.tryIntern env x) ∧
    (∀ i, interpTInternStatic env Extracted.internStaticEffects t i = t.tryInternStatic env i) :=
  ⟨fun x => interp_tintern_is_model env t x, fun i => interp_tintern_static_is_model env t i⟩

/-- The code this file's theorems are about is the same under every feature configuration: the regenerated
census of conditional compilation contains import blocks, whole serde impls, optional-dependency impls and
module declarations only, and no gate inside any function body (`Lemmas/Config.lean`). -/
theorem same_code_under_every_feature_configuration :
    (Extracted.cfgGates.all fun g => g.kind != .other) = true ∧ Extracted.bodyGates.isEmpty = true :=
  Lasso.one_code_base_for_all_configurations

end Lasso.C03
