import LassoProofs.C02
import LassoModel.Wrap
import LassoModel.Extracted
import LassoProofs.Lemmas.Config
/-
  C16 — interning a 'static string stores that very reference, without copying.

  Provenance is explicit in the model: a reference is `arena loc`, `static i` (the caller's own
  `&'static str`, pool entry `i`: same address, same length) or `empty`.
-/
namespace Lasso.C16
open Lasso Lasso.C02 Lasso.Source

/-- A new string interned through the static entry point is held as *that reference* and the arena
is untouched (no block, no byte, no accounting change). -/
theorem rodeo_static_by_reference {env : Env} {r r' : Rodeo} (h : RodeoReach env r) (i : Nat) (x : Bytes)
    (hp : env.pool[i]? = some x) (g : Bool) (k : Nat)
    (hs : r.tryInternStatic env i g = .ok (r', k)) (hnew : ∀ j, r.str env j ≠ some x) :
    r'.strings[k]? = some (.static i) ∧ r'.arena = r.arena := by
  rcases Rodeo.tryInternStatic_spec (rodeo_reach_inv h) i x hp g with ⟨j, hj, _⟩ | ⟨_, ⟨_, he⟩ | ⟨_, r'', he, ha, hq⟩⟩
  · exact absurd hj (hnew j)
  · rw [he] at hs; simp at hs
  · rw [he] at hs; injection hs with hs; injection hs with a b; subst a b
    exact ⟨by rw [hq.strings]; simp, ha⟩

/-- If an equal string is already present its existing key is returned and nothing is replaced. -/
theorem rodeo_static_present_keeps {env : Env} {r : Rodeo} (h : RodeoReach env r) (i : Nat) (x : Bytes)
    (hp : env.pool[i]? = some x) (g : Bool) (k : Nat) (hk : r.str env k = some x) :
    r.tryInternStatic env i g = .ok (r, k) := rodeo_present_noop_static h i x hp k g hk

/-- The reference stays the same on every later state until `clear`: the vector only grows. -/
theorem rodeo_ref_stable {env : Env} {r : Rodeo} (h : r.Inv env) (ops : List ROp)
    (hw : ∀ op ∈ ops, op.wellFormed env) (hnc : ∀ op ∈ ops, op.isClear = false)
    (k : Nat) (ref : StrRef) (hk : r.strings[k]? = some ref) : (r.run env ops).strings[k]? = some ref := by
  induction ops generalizing r with
  | nil => exact hk
  | cons op rest ih =>
    simp only [Rodeo.run, List.foldl_cons]
    refine ih (Rodeo.apply_inv h op (hw op (by simp))) (fun o ho => hw o (by simp [ho])) (fun o ho => hnc o (by simp [ho])) ?_
    have hkl : k < r.strings.length := (List.getElem?_eq_some_iff.mp hk).1
    cases op with
    | intern x g =>
      simp only [Rodeo.apply]
      rcases Rodeo.tryIntern_spec h x g with ⟨_, _, he⟩ | ⟨_, ⟨_, he⟩ | ⟨_, ⟨_, he⟩ | ⟨r', rf, he, _, hp⟩⟩⟩
      · rw [he]; exact hk
      · rw [he]; exact hk
      · rw [he]; exact hk
      · rw [he]; simp only; rw [hp.strings, List.getElem?_append_left hkl]; exact hk
    | internStatic i g =>
      simp only [Rodeo.apply]
      have hil : i < env.pool.length := hw (.internStatic i g) (by simp)
      have hi : env.pool[i]? = some env.pool[i] := List.getElem?_eq_getElem hil
      rcases Rodeo.tryInternStatic_spec h i _ hi g with ⟨_, _, he⟩ | ⟨_, ⟨_, he⟩ | ⟨_, r', he, _, hp⟩⟩
      · rw [he]; exact hk
      · rw [he]; exact hk
      · rw [he]; simp only; rw [hp.strings, List.getElem?_append_left hkl]; exact hk
    | setLimit m => exact hk
    | clear => have := hnc .clear (by simp); simp [ROp.isClear] at this

/-- Views derived later hold the very same references (fields are moved wholesale). -/
theorem views_keep_references (r : Rodeo) :
    r.intoReader.strings = r.strings ∧ r.intoResolver.strings = r.strings ∧
    r.intoReader.intoResolver.strings = r.strings := ⟨rfl, rfl, rfl⟩

/-- Concurrent interner (one thread): same statement. -/
theorem threaded_static_by_reference {env : Env} {t t' : Threaded} (h : ThreadedReach env t) (i : Nat) (x : Bytes)
    (hp : env.pool[i]? = some x) (k : Nat)
    (hs : t.tryInternStatic env i = (t', .ok k)) (hnew : ∀ j, t.str env j ≠ some x) :
    t'.resolveRef k = some (.static i) ∧ t'.arena = t.arena := by
  rcases Threaded.tryInternStatic_spec (threaded_reach_inv h) i x hp with ⟨j, hj, _⟩ | ⟨_, ⟨_, he, _, _⟩ | ⟨_, he, hq⟩⟩
  · exact absurd hj (hnew j)
  · rw [he] at hs; injection hs with a b; simp at b
  · rw [he] at hs; injection hs with a b; injection b with b; subst a b
    exact ⟨by simp [Threaded.resolveRef, Threaded.pushState, assocGet_cons], rfl⟩

/-! ### Every route to the static entry points reaches a static inherent method

`Wrap.resolveMethod` follows the forwarding table regenerated from `interface/*.rs` on this run. -/

/-- The routes the property names: inherent via the trait, `&mut T`, `&ThreadedRodeo`, `Box<T>`,
`Box<dyn Interner>`, and nestings. -/
def interningRoutes : List (List Wrapper) :=
  [[.rodeo], [.refMut, .rodeo], [.refMut, .refMut, .rodeo], [.box, .rodeo], [.refMut, .box, .rodeo],
   [.box, .box, .rodeo], [.box, .refMut, .rodeo],
   [.threaded], [.threadedRef, .threaded], [.refMut, .threaded], [.refMut, .threadedRef, .threaded],
   [.box, .threaded], [.box, .threadedRef, .threaded]]

/-- Both static trait methods, through every route, end in the inherent method of the same name —
in particular never in a copying (`try_get_or_intern`) one.  Fails on the unrepaired
`Box<I>::try_get_or_intern_static` (D5). -/
theorem static_routes :
    interningRoutes.all (fun route =>
      Wrap.resolveMethod Extracted.forwards route .tryGetOrInternStatic == some .tryGetOrInternStatic &&
      Wrap.resolveMethod Extracted.forwards route .getOrInternStatic == some .getOrInternStatic) = true := by
  decide

/-- The code this file's theorems are about is the same under every feature configuration: the regenerated
census of conditional compilation contains import blocks, whole serde impls, optional-dependency impls and
module declarations only, and no gate inside any function body (`Lemmas/Config.lean`). -/
theorem same_code_under_every_feature_configuration :
    (Extracted.cfgGates.all fun g => g.kind != .other) = true ∧ Extracted.bodyGates.isEmpty = true :=
  Lasso.one_code_base_for_all_configurations

end Lasso.C16
