import LassoModel.Keys
import LassoModel.Extracted
import LassoProofs.Lemmas.Config
/-
  C11 — built-in key types convert to and from indices without loss or aliasing.

  The theorems are about the expressions the extractor read from `keys.rs` *now*
  (`Extracted.keySpecs`), evaluated at fixed width with overflow detection.
-/
namespace Lasso.C11
open Lasso Lasso.Source

/-- What every other layer of the model assumes about a key type with capacity `N`:
`try_from_usize` is exactly the closed form `keyOfIndex N` on every 64-bit index (so it succeeds
exactly below `N`, never overflows, never builds `NonZero(0)`), and `into_usize` is `raw - 1` on every
raw value the type can hold. -/
structure KeySound (spec : KeySpec) (N : Nat) : Prop where
  tryFrom : ∀ i, i < 18446744073709551616 → tryFromUsize spec i = .ok (keyOfIndex N i)
  into : ∀ raw, 0 < raw → raw ≤ N → intoUsize spec raw = .ok (indexOfKey raw)

/-! ### Consequences of `KeySound`, for any key type (built-in or custom) -/

section generic
variable {spec : KeySpec} {N : Nat} (h : KeySound spec N)
include h

/-- Succeeds exactly for indices below `N`. -/
theorem succeeds_iff (i : Nat) (hi : i < 18446744073709551616) :
    (∃ raw, tryFromUsize spec i = .ok (some raw)) ↔ i < N := by
  rw [h.tryFrom i hi]; unfold keyOfIndex; split <;> simp_all

/-- Converting back returns the same index. -/
theorem roundtrip (i : Nat) (hi : i < 18446744073709551616) (raw : Nat)
    (hk : tryFromUsize spec i = .ok (some raw)) : intoUsize spec raw = .ok i := by
  rw [h.tryFrom i hi] at hk
  unfold keyOfIndex at hk
  split at hk
  · have : raw = i + 1 := by injection hk with hk; injection hk with hk; omega
    subst this
    rw [h.into (i + 1) (by omega) (by omega)]; simp [indexOfKey]
  · simp at hk

/-- Different indices give different keys, ordered like their indices (derived `Ord` compares the
raw values). -/
theorem order_iso (i j : Nat) (hi : i < 18446744073709551616) (hj : j < 18446744073709551616)
    (ri rj : Nat) (hki : tryFromUsize spec i = .ok (some ri)) (hkj : tryFromUsize spec j = .ok (some rj)) :
    (ri < rj ↔ i < j) ∧ (ri = rj ↔ i = j) := by
  rw [h.tryFrom i hi] at hki; rw [h.tryFrom j hj] at hkj
  unfold keyOfIndex at hki hkj
  split at hki <;> split at hkj <;> simp at hki hkj
  omega

/-- No key is ever built from raw value 0, and every raw value is within the capacity. -/
theorem raw_range (i : Nat) (hi : i < 18446744073709551616) (raw : Nat)
    (hk : tryFromUsize spec i = .ok (some raw)) : 0 < raw ∧ raw ≤ N := by
  rw [h.tryFrom i hi] at hk
  unfold keyOfIndex at hk
  split at hk <;> simp at hk
  omega

end generic

/-! ### The four built-in key types, as extracted from the current source -/

theorem evalK_var (x : Nat) (t : Ty) : evalK x t .var = some (x, some t) := rfl

set_option linter.unusedSimpArgs false in
/-- The extracted spec of every built-in key is sound for the capacity of its backing integer. -/
theorem builtin_sound : ∀ spec ∈ Extracted.keySpecs, KeySound spec (capacityOf spec.backing) := by
  intro spec hs
  simp only [Extracted.keySpecs, List.mem_cons, List.mem_nil_iff, or_false] at hs
  constructor
  · intro i hi
    rcases hs with rfl | rfl | rfl | rfl
    all_goals simp only [tryFromUsize, evalK, Ty.modulus, unifyTy, fitsTy, tyCompat, keyOfIndex, capacityOf]
    · by_cases h : i < 18446744073709551615
      · have h2 : i + 1 < 18446744073709551616 := by omega
        have h3 : i ≠ 18446744073709551615 := by omega
        have h4 : 18446744073709551615 ≠ i := by omega
        simp [h, h2, h3, h4]
      · have h3 : i = 18446744073709551615 := by omega
        subst h3
        simp
    · by_cases h : i < 4294967295
      · have h1 : i % 4294967296 = i := Nat.mod_eq_of_lt (by omega)
        have h2 : i + 1 < 4294967296 := by omega
        simp [h, h1, h2]
      · simp [h]
    · by_cases h : i < 65535
      · have h1 : i % 65536 = i := Nat.mod_eq_of_lt (by omega)
        have h2 : i + 1 < 65536 := by omega
        simp [h, h1, h2]
      · simp [h]
    · by_cases h : i < 255
      · have h1 : i % 256 = i := Nat.mod_eq_of_lt (by omega)
        have h2 : i + 1 < 256 := by omega
        simp [h, h1, h2]
      · simp [h]
  · intro raw h0 hN
    rcases hs with rfl | rfl | rfl | rfl
    all_goals simp only [intoUsize, evalK, Ty.modulus, unifyTy, fitsTy, tyCompat, indexOfKey, capacityOf] at *
    all_goals
      have h1 : raw % 18446744073709551616 = raw := Nat.mod_eq_of_lt (by omega)
      have h2 : 1 ≤ raw := by omega
      have h3 : raw - 1 < 18446744073709551616 := by omega
      simp [h1, h2, h3]

/-- All four built-in key types are present, with the backing integer the property names, the
default key is index 0, comparison is derived on the single raw field, and serde passes the raw
value through. -/
theorem builtin_present :
    (Extracted.keySpecs.map fun s => (s.name, s.backing, s.defaultIdx, s.derivesOrdEq, s.serdeRaw)) =
      [("LargeSpur", .usize, some 0, true, true), ("Spur", .u32, some 0, true, true),
       ("MiniSpur", .u16, some 0, true, true), ("MicroSpur", .u8, some 0, true, true)] := by
  rfl

/-- Capacities are the ones the property names. -/
theorem capacities :
    capacityOf .u8 = 255 ∧ capacityOf .u16 = 65535 ∧ capacityOf .u32 = 4294967295 ∧
    capacityOf .usize = 18446744073709551615 := by
  simp [capacityOf, Ty.modulus]

/-- Serialising a key writes its raw value and reading it back rebuilds the key from that raw
value (`serdeRaw`), so the round trip is the identity on raw values — stated on the model of the
serde data-model layer: `de (ser raw) = raw` for every raw value in range. -/
def serKey (raw : Nat) : Nat := raw
def deKey (N : Nat) (v : Nat) : Option Nat := if 0 < v ∧ v ≤ N then some v else none
theorem serde_roundtrip (N raw : Nat) (h0 : 0 < raw) (hN : raw ≤ N) : deKey N (serKey raw) = some raw := by
  simp [deKey, serKey, h0, hN]

/-- The default key is `try_from_usize 0`, i.e. index 0, for every built-in type. -/
theorem default_is_zero : ∀ spec ∈ Extracted.keySpecs,
    spec.defaultIdx = some 0 ∧ tryFromUsize spec 0 = .ok (some 1) := by
  intro spec hs
  have hd : spec.defaultIdx = some 0 := by
    simp only [Extracted.keySpecs, List.mem_cons, List.mem_nil_iff, or_false] at hs
    rcases hs with rfl | rfl | rfl | rfl <;> rfl
  refine ⟨hd, ?_⟩
  have := (builtin_sound spec hs).tryFrom 0 (by omega)
  rw [this]
  simp only [Extracted.keySpecs, List.mem_cons, List.mem_nil_iff, or_false] at hs
  rcases hs with rfl | rfl | rfl | rfl <;> simp [keyOfIndex, capacityOf, Ty.modulus]

/-! ### Non-vacuity and negative companions -/

/-- The hypotheses are met by a concrete index on a concrete extracted spec. -/
example : ∃ spec ∈ Extracted.keySpecs, tryFromUsize spec 254 = .ok (some 255) ∧ intoUsize spec 255 = .ok 254 := by
  refine ⟨_, List.mem_cons_of_mem _ (List.mem_cons_of_mem _ (List.mem_cons_of_mem _ (List.mem_cons_self))), ?_⟩
  decide

/-- A `<=` guard (the classic off-by-one) is *not* sound: index 255 of an 8-bit key overflows. -/
def badLe : KeySpec :=
  { name := "Bad", backing := .u8, guardCmp := .le, guardLhs := .var,
    guardRhs := (.cast (.tmax .u8) .usize), store := (.add (.cast .var .u8) (.lit 1)),
    load := (.sub (.cast .var .usize) (.lit 1)), defaultIdx := (some 0), derivesOrdEq := true,
    reprTransparent := true, serdeRaw := true }
example : tryFromUsize badLe 255 = .fault .unreachable := by decide

/-- The code this file's theorems are about is the same under every feature configuration: the regenerated
census of conditional compilation contains import blocks, whole serde impls, optional-dependency impls and
module declarations only, and no gate inside any function body (`Lemmas/Config.lean`). -/
theorem same_code_under_every_feature_configuration :
    (Extracted.cfgGates.all fun g => g.kind != .other) = true ∧ Extracted.bodyGates.isEmpty = true :=
  Lasso.one_code_base_for_all_configurations

end Lasso.C11
