import LassoProofs.Lemmas.THistory
/-
  Conversions of the concurrent interner into views: the scatter by key index and the rebuild of the
  raw table.
-/
namespace Lasso
set_option linter.unusedSimpArgs false

theorem collectSome_map_some (l : List α) : Threaded.collectSome (l.map some) = some l := by
  induction l with
  | nil => rfl
  | cons a r ih => simp [Threaded.collectSome, ih]

/-- In a well-formed concurrent interner the scatter succeeds and position `k` of the vector holds
exactly the reference the key->string map has for key `k`. -/
theorem Threaded.scatter_spec {env : Env} {t : Threaded} (h : t.Inv env) :
    ∃ ss, t.scatter = .ok ss ∧ ss.length = t.strs.length ∧ ∀ k, ss[k]? = assocGet k t.strs := by
  have hall : t.strs.all (fun e => decide (e.1 < t.strs.length)) = true := by
    simp only [List.all_eq_true, decide_eq_true_eq]
    intro e he
    exact (h.dense e.1).mpr ⟨e.2, he⟩
  have hslots : (List.range t.strs.length).map (fun i => assocGet i t.strs)
      = ((List.range t.strs.length).map (fun i => (assocGet i t.strs).getD .empty)).map some := by
    rw [List.map_map]
    apply List.map_congr_left
    intro i hi
    simp only [List.mem_range] at hi
    obtain ⟨ref, hr⟩ := (h.dense i).mp hi
    simp [assocGet_of_mem h.strNd hr]
  refine ⟨(List.range t.strs.length).map (fun i => (assocGet i t.strs).getD .empty), ?_, by simp, ?_⟩
  · unfold Threaded.scatter
    simp only [hall, ↓reduceIte, hslots, collectSome_map_some]
  · intro k
    by_cases hk : k < t.strs.length
    · obtain ⟨ref, hr⟩ := (h.dense k).mp hk
      simp [hk, assocGet_of_mem h.strNd hr]
    · have : assocGet k t.strs = none := by
        cases hg : assocGet k t.strs with
        | none => rfl
        | some r => exact absurd ((h.dense k).mpr ⟨r, mem_of_assocGet hg⟩) hk
      rw [this]
      exact List.getElem?_eq_none (by simp; omega)

/-- The resolver obtained from the concurrent interner resolves every key exactly as the interner did. -/
theorem Threaded.intoResolver_spec {env : Env} {t : Threaded} (h : t.Inv env) :
    ∃ rs, t.intoResolver = .ok rs ∧ rs.strings.length = t.strs.length ∧ rs.N = t.N ∧ rs.arena = .lf t.arena ∧
      ∀ k, rs.str env k = t.str env k := by
  obtain ⟨ss, h1, h2, h3⟩ := Threaded.scatter_spec h
  refine ⟨{ strings := ss, arena := .lf t.arena, N := t.N }, by simp [Threaded.intoResolver, h1], h2, rfl, rfl, ?_⟩
  intro k
  simp only [Resolver.str, strAt, h3, Threaded.str, Threaded.resolveRef, Threaded.content, AnyArena.read]
  cases assocGet k t.strs <;> rfl

/-- The rebuild loop over the drained string->key map. -/
theorem rebuildTable_spec {env : Env} {read : Loc → Option Bytes} {ss : List StrRef}
    (hd : ∀ i j y, strAt env read ss i = some y → strAt env read ss j = some y → i = j)
    (m : List (StrRef × Nat)) :
    ∀ (tb : Table),
      (∀ e ∈ m, e.2 < ss.length ∧ ∃ x, contentOf env read e.1 = some x ∧ strAt env read ss e.2 = some x) →
      (m.map (·.2)).Nodup → (∀ e ∈ m, ∀ f ∈ tb, f.2 ≠ e.2) →
      (∀ f ∈ tb, ∃ s, strAt env read ss f.2 = some s ∧ f.1 = env.hash s) → (∀ f ∈ tb, f.2 < ss.length) →
      ∃ tb', Threaded.rebuildTable env read ss m tb = .ok tb' ∧
        (∀ f ∈ tb', ∃ s, strAt env read ss f.2 = some s ∧ f.1 = env.hash s) ∧ (∀ f ∈ tb', f.2 < ss.length) ∧
        (∀ k, (∃ f ∈ tb', f.2 = k) ↔ ((∃ f ∈ tb, f.2 = k) ∨ ∃ e ∈ m, e.2 = k)) := by
  induction m with
  | nil =>
    intro tb _ _ _ hp hb
    exact ⟨tb, rfl, hp, hb, by simp⟩
  | cons e rest ih =>
    intro tb hm hnd hdisj hp hb
    obtain ⟨ref, k⟩ := e
    obtain ⟨hk, x, hx, hSk⟩ := hm (ref, k) (by simp)
    simp only [List.map_cons, List.nodup_cons, List.mem_map] at hnd
    unfold Threaded.rebuildTable
    simp only [hx]
    rw [tableFind_eq env read ss tb x hb]
    have hnone : tfind env.hash (strAt env read ss) tb x = none := by
      cases hf : tfind env.hash (strAt env read ss) tb x with
      | none => rfl
      | some j =>
        obtain ⟨hj, f, hf1, hf2⟩ := tfind_some hf
        have : j = k := hd j k x hj hSk
        subst this
        exact absurd hf2 (hdisj (ref, j) (by simp) f hf1)
    simp only [hnone]
    have hins := tableInsert_ok (hash := env.hash) (S := strAt env read ss) hp (env.hash x) k false
    have hre : rehashFn env read ss = fun k => (strAt env read ss k).map env.hash := rfl
    rw [hre, hins]
    simp only
    obtain ⟨tb', h1, h2, h3, h4⟩ := ih (tb ++ [(env.hash x, k)])
      (fun e he => hm e (by simp [he])) hnd.2
      (by
        intro e he f hf
        simp only [List.mem_append, List.mem_singleton] at hf
        rcases hf with hf | rfl
        · exact hdisj e (by simp [he]) f hf
        · intro heq
          apply hnd.1
          exact ⟨e, he, heq.symm⟩)
      (by
        intro f hf
        simp only [List.mem_append, List.mem_singleton] at hf
        rcases hf with hf | rfl
        · exact hp f hf
        · exact ⟨x, hSk, rfl⟩)
      (by
        intro f hf
        simp only [List.mem_append, List.mem_singleton] at hf
        rcases hf with hf | rfl
        · exact hb f hf
        · exact hk)
    refine ⟨tb', h1, h2, h3, ?_⟩
    intro j
    rw [h4 j]
    constructor
    · rintro (⟨f, hf, hfj⟩ | ⟨e, he, hej⟩)
      · rw [List.mem_append] at hf
        rcases hf with hf | hf
        · exact Or.inl ⟨f, hf, hfj⟩
        · rw [List.mem_singleton] at hf; subst hf; exact Or.inr ⟨(ref, k), by simp, hfj⟩
      · exact Or.inr ⟨e, by simp [he], hej⟩
    · rintro (⟨f, hf, hfj⟩ | ⟨e, he, hej⟩)
      · exact Or.inl ⟨f, by simp [hf], hfj⟩
      · rw [List.mem_cons] at he
        rcases he with rfl | he
        · exact Or.inl ⟨(env.hash x, k), by simp, hej⟩
        · exact Or.inr ⟨e, he, hej⟩


/-- What makes a reader answer lookups exactly. -/
structure Reader.Good (env : Env) (rd : Reader) : Prop where
  tinv : TInv env.hash (rd.str env) rd.strings.length rd.table
  distinct : ∀ i j y, rd.str env i = some y → rd.str env j = some y → i = j
  total : ∀ k, k < rd.strings.length → ∃ y, rd.str env k = some y
  lenLe : rd.strings.length ≤ rd.N

theorem Reader.get_spec {env : Env} {rd : Reader} (h : rd.Good env) (x : Bytes) :
    ∃ o, rd.get env x = .ok o ∧ ∀ k, o = some k ↔ rd.str env k = some x := by
  refine ⟨tfind env.hash (rd.str env) rd.table x, tableFind_eq env rd.arena.read rd.strings rd.table x h.tinv.bound, ?_⟩
  intro k
  exact tfind_spec x h.tinv (fun k y hs => strAt_lt hs) h.distinct k

/-- A reader made from a single-threaded interner is good, and it *is* the interner as far as every
query goes (the fields are moved). -/
theorem Rodeo.intoReader_good {env : Env} {r : Rodeo} (h : r.Inv env) : r.intoReader.Good env :=
  ⟨h.tinv, h.distinct, h.str_total, h.lenLe⟩

/-- The reader obtained from the concurrent interner. -/
theorem Threaded.intoReader_spec {env : Env} {t : Threaded} (h : t.Inv env) :
    ∃ rd, t.intoReader env = .ok rd ∧ rd.Good env ∧ rd.strings.length = t.strs.length ∧ rd.N = t.N ∧
      ∀ k, rd.str env k = t.str env k := by
  obtain ⟨ss, h1, h2, h3⟩ := Threaded.scatter_spec h
  have hS : ∀ k, strAt env t.arena.read ss k = t.str env k := by
    intro k
    simp only [strAt, h3, Threaded.str, Threaded.resolveRef, Threaded.content]
    cases assocGet k t.strs <;> rfl
  have hall : t.map.all (fun e => decide (e.2 < ss.length)) = true := by
    simp only [List.all_eq_true, decide_eq_true_eq]
    intro e he
    rw [h2]
    exact (h.dense e.2).mpr ⟨e.1, h.mapStr e.1 e.2 he⟩
  have hd : ∀ i j y, strAt env t.arena.read ss i = some y → strAt env t.arena.read ss j = some y → i = j := by
    intro i j y hi hj
    rw [hS] at hi hj
    exact h.distinct i j y hi hj
  obtain ⟨tb, hb1, hb2, hb3, hb4⟩ := rebuildTable_spec (env := env) (read := t.arena.read) (ss := ss) hd t.map []
    (by
      intro e he
      have hm := h.mapStr e.1 e.2 he
      refine ⟨by rw [h2]; exact (h.dense e.2).mpr ⟨e.1, hm⟩, ?_⟩
      obtain ⟨y, hy⟩ := Threaded.content_some h hm
      refine ⟨y, hy, ?_⟩
      rw [hS]
      exact (Threaded.str_iff h e.2 y).mpr ⟨e.1, hm, hy⟩)
    h.mapNd (by simp) (by simp) (by simp)
  refine ⟨{ table := tb, strings := ss, arena := .lf t.arena, N := t.N }, ?_, ?_, h2, rfl, ?_⟩
  · unfold Threaded.intoReader
    simp only [h1, hall, ↓reduceIte, hb1]
  · have hstr : ∀ k, Reader.str env { table := tb, strings := ss, arena := .lf t.arena, N := t.N } k = strAt env t.arena.read ss k := fun _ => rfl
    have hfun : Reader.str env { table := tb, strings := ss, arena := .lf t.arena, N := t.N } = strAt env t.arena.read ss := by
      funext k; rfl
    constructor
    · rw [hfun]
      refine ⟨hb2, ?_, hb3⟩
      intro k hk
      simp only at hk
      obtain ⟨ref, hr⟩ := (h.dense k).mp (by rw [← h2]; exact hk)
      exact (hb4 k).mpr (Or.inr ⟨(ref, k), h.strMap k ref hr, rfl⟩)
    · intro i j y hi hj; rw [hstr] at hi hj; exact hd i j y hi hj
    · intro k hk
      simp only at hk
      rw [hstr, hS]
      obtain ⟨ref, hr⟩ := (h.dense k).mp (by rw [← h2]; exact hk)
      obtain ⟨y, hy⟩ := Threaded.content_some h hr
      exact ⟨y, (Threaded.str_iff h k y).mpr ⟨ref, hr, hy⟩⟩
    · simp only; rw [h2]; exact h.lenLe
  · intro k; exact hS k

end Lasso
