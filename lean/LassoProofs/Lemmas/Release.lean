import LassoModel.Release
import LassoProofs.Lemmas.Arena
import LassoProofs.Lemmas.LArena
import LassoProofs.Lemmas.History
import LassoProofs.Lemmas.THistory
/-
  The list walk of `impl Drop for AtomicBucketList`, interpreted: on a list of any length it frees every node
  once, head first, never reads a freed node, and stops.  Proved for the statement orders in `okDropBodies`
  (the capacity may be read before or after advancing and through either pointer while both still name the
  node, advancing may go through either pointer once the current node has been remembered - in every one of
  them the node is freed last, after its fields were read).
-/
namespace Lasso
open Source

def okDropBodies : List (List DropEffect) :=
  [ [.saveCurrent, .advance .head, .readCapacity .current, .layoutOfCapacity, .dealloc .current true],
    [.saveCurrent, .readCapacity .head, .advance .head, .layoutOfCapacity, .dealloc .current true],
    [.saveCurrent, .readCapacity .head, .layoutOfCapacity, .advance .head, .dealloc .current true],
    [.saveCurrent, .readCapacity .current, .advance .head, .layoutOfCapacity, .dealloc .current true],
    [.saveCurrent, .readCapacity .current, .layoutOfCapacity, .advance .head, .dealloc .current true],
    [.saveCurrent, .advance .current, .readCapacity .current, .layoutOfCapacity, .dealloc .current true],
    [.saveCurrent, .readCapacity .head, .advance .current, .layoutOfCapacity, .dealloc .current true],
    [.saveCurrent, .readCapacity .head, .layoutOfCapacity, .advance .current, .dealloc .current true],
    [.saveCurrent, .readCapacity .current, .advance .current, .layoutOfCapacity, .dealloc .current true],
    [.saveCurrent, .readCapacity .current, .layoutOfCapacity, .advance .current, .dealloc .current true] ]

/-- What one turn of the loop must do on node `k` when nodes `0..k-1` are gone. -/
def TurnOk (caps : List Nat) (body : List DropEffect) : Prop :=
  ∀ (k : Nat) (st : DropSt), k < caps.length → st.head = some k → st.freed = List.range k →
    ∃ st', dropBody caps body st = some st' ∧
      st'.head = (if k + 1 < caps.length then some (k + 1) else none) ∧ st'.freed = List.range (k + 1)

theorem okDropBodies_turn (caps : List Nat) (body : List DropEffect) (hb : body ∈ okDropBodies) : TurnOk caps body := by
  intro k st hk hh hf
  have hget : caps[k]? = some caps[k] := List.getElem?_eq_getElem hk
  have hnm : k ∉ List.range k := by simp
  simp only [okDropBodies, List.mem_cons, List.not_mem_nil, or_false] at hb
  rcases hb with rfl | rfl | rfl | rfl | rfl | rfl | rfl | rfl | rfl | rfl <;>
    simp [dropBody, dropStep, liveNode, DropSt.reg, hh, hf, hget, List.range_succ]

theorem dropLoop_all (caps : List Nat) (body : List DropEffect) (hturn : TurnOk caps body) :
    ∀ (m fuel k : Nat) (st : DropSt), k + m = caps.length → m ≤ fuel →
      st.head = (if k < caps.length then some k else none) → st.freed = List.range k →
      ∃ st', dropLoop caps body fuel st = some st' ∧ st'.freed = List.range caps.length := by
  intro m
  induction m with
  | zero =>
    intro fuel k st hkm _ hh hf
    have hk : k = caps.length := by omega
    subst hk
    have hn : st.head = none := by simpa using hh
    cases fuel with
    | zero => exact ⟨st, by simp [dropLoop, hn], hf⟩
    | succ f => exact ⟨st, by simp [dropLoop, hn], hf⟩
  | succ m ih =>
    intro fuel k st hkm hfuel hh hf
    have hk : k < caps.length := by omega
    have hs : st.head = some k := by simpa [hk] using hh
    obtain ⟨st', hb, hh', hf'⟩ := hturn k st hk hs hf
    cases fuel with
    | zero => omega
    | succ f =>
      obtain ⟨st'', hl, hr⟩ := ih f (k + 1) st' (by omega) (by omega) hh' hf'
      exact ⟨st'', by simp [dropLoop, hs, hb, hl], hr⟩

/-- The walk frees every node exactly once, head first, for every list. -/
theorem runListDrop_ok (effects : List DropEffect) (body : List DropEffect) (hshape : dropShape effects = some body)
    (hb : body ∈ okDropBodies) (caps : List Nat) : runListDrop effects caps = some (List.range caps.length) := by
  obtain ⟨st', hl, hr⟩ := dropLoop_all caps body (okDropBodies_turn caps body hb) caps.length (caps.length + 1) 0
    { head := if 0 < caps.length then some 0 else none, current := none, capacity := none, layout := none, freed := [] }
    (by omega) (by omega) rfl (by simp)
  simp [runListDrop, hshape, hl, hr]

theorem filterMap_range_getElem? {α : Type} (l : List α) : (List.range l.length).filterMap (fun i => l[i]?) = l := by
  induction l with
  | nil => simp
  | cons a l ih =>
    rw [List.length_cons, List.range_succ_eq_map, List.filterMap_cons]
    simp [List.filterMap_map, Function.comp_def, ih]

theorem LArena.releaseBy_ok (effects : List DropEffect) (body : List DropEffect) (hshape : dropShape effects = some body)
    (hb : body ∈ okDropBodies) (a : LArena) : a.releaseBy effects = some a.release := by
  have hmap : ∀ (bs : List Bucket), (List.range bs.length).filterMap (fun i => (bs[i]?).map Bucket.released) = bs.map Bucket.released := by
    intro bs
    have h := filterMap_range_getElem? (bs.map Bucket.released)
    simpa [List.getElem?_map] using h
  simp [LArena.releaseBy, runListDrop_ok effects body hshape hb, LArena.release, hmap]

end Lasso

namespace Lasso
open Source

/-! ## Blocks persist: no operation other than dropping the owner gives a block up -/

/-- Every block of `bs` is still there in `bs'` (same identity, same capacity). -/
def Keeps (bs bs' : List Bucket) : Prop := ∀ b ∈ bs, ∃ b' ∈ bs', b'.released = b.released

theorem Keeps.refl (bs : List Bucket) : Keeps bs bs := fun b hb => ⟨b, hb, rfl⟩

theorem Keeps.trans {a b c : List Bucket} (h1 : Keeps a b) (h2 : Keeps b c) : Keeps a c := by
  intro x hx
  obtain ⟨y, hy, e1⟩ := h1 x hx
  obtain ⟨z, hz, e2⟩ := h2 y hy
  exact ⟨z, hz, e2.trans e1⟩

theorem Arena.store_keeps {a a' : Arena} {s : Bytes} {r : StrRef} (h : a.store s = .ok (a', r)) : Keeps a.all a'.all := by
  intro b hb
  simp only [Arena.all, List.mem_cons] at hb
  unfold Arena.store at h
  split at h
  · simp only [Out.ok.injEq, Prod.mk.injEq] at h; obtain ⟨rfl, _⟩ := h
    exact ⟨b, by simpa [Arena.all] using hb, rfl⟩
  split at h
  · unfold Arena.storeFit at h
    split at h
    · simp only [Out.ok.injEq, Prod.mk.injEq] at h; obtain ⟨rfl, _⟩ := h
      rcases hb with rfl | hb
      · exact ⟨{ a.cur with data := a.cur.data ++ s }, by simp [Arena.all], by simp [Bucket.released]⟩
      · exact ⟨b, by simp [Arena.all, hb], rfl⟩
    · simp at h
  split at h
  · unfold Arena.storeOversize at h
    split at h
    · simp at h
    · simp only [Out.ok.injEq, Prod.mk.injEq] at h; obtain ⟨rfl, _⟩ := h
      rcases hb with rfl | hb
      · exact ⟨_, by simp [Arena.all], rfl⟩
      · exact ⟨b, by simp [Arena.all, mem_insertBeforeLast, hb], rfl⟩
  split at h
  · unfold Arena.storeRemaining at h
    simp only at h
    split at h
    · simp at h
    split at h
    · simp at h
    split at h
    · simp at h
    split at h
    · simp only [Out.ok.injEq, Prod.mk.injEq] at h; obtain ⟨rfl, _⟩ := h
      rcases hb with rfl | hb
      · exact ⟨_, by simp [Arena.all], rfl⟩
      · exact ⟨b, by simp [Arena.all, hb], rfl⟩
    · simp at h
  · unfold Arena.storeDouble at h
    simp only at h
    split at h
    · simp at h
    split at h
    · simp only [Out.ok.injEq, Prod.mk.injEq] at h; obtain ⟨rfl, _⟩ := h
      rcases hb with rfl | hb
      · exact ⟨_, by simp [Arena.all], rfl⟩
      · exact ⟨b, by simp [Arena.all, hb], rfl⟩
    · simp at h

theorem Arena.clear_keeps (a : Arena) : Keeps a.all a.clear.all := by
  intro b hb
  simp only [Arena.all, List.mem_cons] at hb
  rcases hb with rfl | hb
  · exact ⟨a.cur.clear, by simp [Arena.all, Arena.clear], by simp [Bucket.released, Bucket.clear]⟩
  · exact ⟨b.clear, by simp only [Arena.all, Arena.clear, List.mem_cons, List.mem_map]; exact Or.inr ⟨b, hb, rfl⟩, by simp [Bucket.released, Bucket.clear]⟩

theorem fitIn_keeps {s : Bytes} : ∀ {bs bs' : List Bucket} {l : Loc}, LArena.fitIn s bs = some (bs', l) → Keeps bs bs' := by
  intro bs
  induction bs with
  | nil => intro bs' l h; simp [LArena.fitIn] at h
  | cons c rest ih =>
    intro bs' l h
    unfold LArena.fitIn at h
    split at h
    · simp only [Option.some.injEq, Prod.mk.injEq] at h; obtain ⟨rfl, _⟩ := h
      intro b hb
      rcases List.mem_cons.mp hb with rfl | hb
      · exact ⟨{ b with data := b.data ++ s }, by simp, by simp [Bucket.released]⟩
      · exact ⟨b, by simp [hb], rfl⟩
    · split at h
      · rename_i r l' hr
        simp only [Option.some.injEq, Prod.mk.injEq] at h; obtain ⟨rfl, _⟩ := h
        intro b hb
        rcases List.mem_cons.mp hb with rfl | hb
        · exact ⟨_, by simp, rfl⟩
        · obtain ⟨b', hb', e⟩ := ih hr b hb
          exact ⟨b', by simp [hb'], e⟩
      · simp at h

theorem LArena.store_keeps {a a' : LArena} {s : Bytes} {r : StrRef} (h : a.store s = .ok (a', r)) : Keeps a.buckets a'.buckets := by
  unfold LArena.store at h
  split at h
  · simp only [Out.ok.injEq, Prod.mk.injEq] at h; obtain ⟨rfl, _⟩ := h; exact Keeps.refl _
  split at h
  · rename_i bs loc hf
    simp only [Out.ok.injEq, Prod.mk.injEq] at h; obtain ⟨rfl, _⟩ := h
    exact fitIn_keeps hf
  · unfold LArena.grow at h
    simp only at h
    intro b hb
    repeat' split at h
    all_goals first
      | (simp at h; done)
      | (simp only [Out.ok.injEq, Prod.mk.injEq] at h; obtain ⟨rfl, _⟩ := h; exact ⟨b, by simp [hb], rfl⟩)

end Lasso

namespace Lasso
open Source

theorem Rodeo.tryIntern_arena {env : Env} {r r' : Rodeo} {x : Bytes} {g : Bool} {k : Nat}
    (he : r.tryIntern env x g = .ok (r', k)) : r'.arena = r.arena ∨ ∃ ref, r.arena.store x = .ok (r'.arena, ref) := by
  unfold Rodeo.tryIntern at he
  cases hg : r.get env x with
  | ok o =>
    cases o with
    | some k' => simp [hg] at he; left; rw [← he.1]
    | none =>
      simp only [hg] at he
      cases hk : keyOfIndex r.N r.strings.length with
      | none => simp [hk] at he
      | some _ =>
        simp only [hk] at he
        cases hs : r.arena.store x with
        | ok p =>
          obtain ⟨a', ref⟩ := p
          simp only [hs] at he
          split at he
          · simp only [Out.ok.injEq, Prod.mk.injEq] at he
            right; exact ⟨ref, by rw [← he.1]⟩
          all_goals simp at he
        | err e => simp [hs] at he
        | panic => simp [hs] at he
        | fault f => simp [hs] at he
  | err e => simp [hg] at he
  | panic => simp [hg] at he
  | fault f => simp [hg] at he

theorem Rodeo.tryInternStatic_arena {env : Env} {r r' : Rodeo} {i : Nat} {g : Bool} {k : Nat}
    (he : r.tryInternStatic env i g = .ok (r', k)) : r'.arena = r.arena := by
  unfold Rodeo.tryInternStatic at he
  cases hp : env.pool[i]? with
  | none => simp [hp] at he
  | some x =>
    simp only [hp] at he
    cases hg : r.get env x with
    | ok o =>
      cases o with
      | some k' => simp [hg] at he; rw [← he.1]
      | none =>
        simp only [hg] at he
        cases hk : keyOfIndex r.N r.strings.length with
        | none => simp [hk] at he
        | some _ =>
          simp only [hk] at he
          split at he
          · simp only [Out.ok.injEq, Prod.mk.injEq] at he; rw [← he.1]
          all_goals simp at he
    | err e => simp [hg] at he
    | panic => simp [hg] at he
    | fault f => simp [hg] at he

theorem Rodeo.apply_keeps_blocks (env : Env) (r : Rodeo) (op : ROp) : Keeps r.arena.all (r.apply env op).arena.all := by
  cases op with
  | intern x g =>
    simp only [Rodeo.apply]
    split
    · rename_i r' k he
      rcases Rodeo.tryIntern_arena he with e | ⟨ref, hs⟩
      · rw [e]; exact Keeps.refl _
      · exact Arena.store_keeps hs
    · exact Keeps.refl _
  | internStatic i g =>
    simp only [Rodeo.apply]
    split
    · rename_i r' k he
      rw [Rodeo.tryInternStatic_arena he]; exact Keeps.refl _
    · exact Keeps.refl _
  | setLimit m => exact Keeps.refl _
  | clear => exact Arena.clear_keeps _

theorem Rodeo.run_keeps_blocks (env : Env) (r : Rodeo) (ops : List ROp) : Keeps r.arena.all (r.run env ops).arena.all := by
  induction ops generalizing r with
  | nil => exact Keeps.refl _
  | cons op ops ih => exact (Rodeo.apply_keeps_blocks env r op).trans (ih (r.apply env op))

theorem Threaded.apply_keeps_blocks (env : Env) (t : Threaded) (op : TOp) : Keeps t.arena.buckets (t.apply env op).arena.buckets := by
  cases op with
  | intern x =>
    simp only [Threaded.apply, Threaded.tryIntern]
    cases hg : t.get env x with
    | some k => exact Keeps.refl _
    | none =>
      cases hs : t.arena.store x with
      | ok p =>
        obtain ⟨a', ref⟩ := p
        simp only
        split <;> exact LArena.store_keeps hs
      | err e => exact Keeps.refl _
      | panic => exact Keeps.refl _
      | fault f => exact Keeps.refl _
  | internStatic i =>
    simp only [Threaded.apply, Threaded.tryInternStatic]
    repeat' split
    all_goals exact Keeps.refl _
  | setLimit m => exact Keeps.refl _

theorem Threaded.run_keeps_blocks (env : Env) (t : Threaded) (ops : List TOp) : Keeps t.arena.buckets (t.run env ops).arena.buckets := by
  induction ops generalizing t with
  | nil => exact Keeps.refl _
  | cons op ops ih => exact (Threaded.apply_keeps_blocks env t op).trans (ih (t.apply env op))

end Lasso

namespace Lasso
open Source

/-- Decidable acceptance of a regenerated walk: right shape, and a body whose every order is proved above. -/
def walkAccepted (effects : List DropEffect) : Bool :=
  match dropShape effects with
  | some body => okDropBodies.contains body
  | none => false

theorem walkAccepted_spec {effects : List DropEffect} (h : walkAccepted effects = true) :
    (∀ caps : List Nat, runListDrop effects caps = some (List.range caps.length)) ∧
    (∀ a : LArena, a.releaseBy effects = some a.release) := by
  unfold walkAccepted at h
  cases hs : dropShape effects with
  | none => simp [hs] at h
  | some body =>
    simp only [hs] at h
    have hb : body ∈ okDropBodies := by simpa using h
    exact ⟨runListDrop_ok effects body hs hb, LArena.releaseBy_ok effects body hs hb⟩

theorem Arena.mem_release {a : Arena} {x : Released} : x ∈ a.release ↔ ∃ b ∈ a.all, b.released = x := by
  simp only [Arena.release, Arena.vecOrder, Arena.all, List.mem_map, List.mem_append, List.mem_cons, List.not_mem_nil, or_false]
  constructor
  · rintro ⟨b, hb | hb, rfl⟩
    · exact ⟨b, Or.inr hb, rfl⟩
    · exact ⟨b, Or.inl hb, rfl⟩
  · rintro ⟨b, hb | hb, rfl⟩
    · exact ⟨b, Or.inr hb, rfl⟩
    · exact ⟨b, Or.inl hb, rfl⟩

theorem Arena.release_ids_nodup {a : Arena} (h : a.WF) : (a.release.map (·.id)).Nodup := by
  have hp : (a.vecOrder.map (·.id)).Perm (a.all.map (·.id)) := by
    simp only [Arena.vecOrder, Arena.all, List.map_append, List.map_cons, List.map_nil]
    exact List.perm_append_comm
  have : a.release.map (·.id) = a.vecOrder.map (·.id) := by
    simp [Arena.release, Bucket.released, Function.comp_def]
  rw [this]
  exact hp.nodup_iff.mpr h.ids

theorem LArena.release_ids_nodup {a : LArena} (h : a.WF) : (a.release.map (·.id)).Nodup := by
  have : a.release.map (·.id) = a.buckets.map (·.id) := by
    simp [LArena.release, Bucket.released, Function.comp_def]
  rw [this]; exact h.ids

end Lasso
