import LassoProofs.Lemmas.Conc
import LassoProofs.Lemmas.Threaded
/-
  The interner-level interleaving machine (`Conc`), run by one thread, *is* the sequential model of
  `ThreadedRodeo` (`Threaded.tryIntern`, on which the single-thread theorems of C01, C02, C07, C10 about
  the concurrent interner are proved).  The machine identifies strings with their contents, the
  sequential model keeps references into its arena; states are related through what the lookups answer.
-/
namespace Lasso.Conc
open Lasso

/-- Same arena, same counter, no lock held, and both directions of lookup answer the same. -/
structure RelT (env : Env) (s : CS) (t : Threaded) : Prop where
  arena : s.arena = t.arena
  ctr : s.ctr = t.ctr
  locks : s.locks = []
  strs : ∀ k y, strGet s.strs k = some y ↔ t.str env k = some y
  map : ∀ x k, mapGet s.map x = some k ↔ t.str env k = some x

/-- How the sequential model's result appears in the machine's log. -/
def resOf : Out Nat → Res
  | .ok k => .key k
  | .err e => .err e
  | _ => .err .memoryLimit

theorem find_filter_ne (k k' : Nat) (h : k' ≠ k) (l : List (Nat × Bytes)) :
    (l.filter (fun e => !(e.1 == k))).find? (fun e => e.1 == k') = l.find? (fun e => e.1 == k') := by
  induction l with
  | nil => rfl
  | cons e r ih =>
    by_cases he : e.1 = k
    · have h2 : (e.1 == k') = false := by simp [he, Ne.symm h]
      simp only [List.filter_cons, he, beq_self_eq_true, Bool.not_true, Bool.false_eq_true, ↓reduceIte, List.find?_cons]
      rw [ih]
      have : (k == k') = false := by simp [Ne.symm h]
      simp [this]
    · have h1 : (!(e.1 == k)) = true := by simp [he]
      simp only [List.filter_cons, h1, ↓reduceIte, List.find?_cons, ih]

theorem strGet_strInsert (k : Nat) (x : Bytes) (l : List (Nat × Bytes)) (k' : Nat) :
    strGet (strInsert k x l) k' = if k' = k then some x else strGet l k' := by
  unfold strGet strInsert
  by_cases h : k' = k
  · subst h; simp
  · have h1 : ((k == k') = false) := by simp [Ne.symm h]
    simp only [List.find?_cons, h1, h, ↓reduceIte, find_filter_ne k k' h l]

theorem mapGet_append (m : List (Bytes × Nat)) (x : Bytes) (k : Nat) (y : Bytes) :
    mapGet (m ++ [(x, k)]) y = match mapGet m y with
      | some k' => some k'
      | none => if y = x then some k else none := by
  unfold mapGet
  induction m with
  | nil =>
    by_cases h : y = x
    · subst h; simp
    · have : (x == y) = false := by simp [Ne.symm h]
      simp [List.find?_cons, this, h]
  | cons e r ih =>
    by_cases he : e.1 = y
    · simp [List.find?_cons, he]
    · simp only [List.cons_append, List.find?_cons]
      have : (e.1 == y) = false := by simp [he]
      simp only [this]
      exact ih

end Lasso.Conc

namespace Lasso.Conc
open Lasso

/-- After a successful push in the sequential model: exactly the old strings plus the new one. -/
theorem pushed_str_iff {env : Env} {t t' : Threaded} {x : Bytes} {ref : StrRef} (hI : t.Inv env)
    (hp : Threaded.Pushed env t t' x ref) (k : Nat) (y : Bytes) :
    t'.str env k = some y ↔ (k = t.strs.length ∧ y = x) ∨ t.str env k = some y := by
  constructor
  · intro h
    by_cases hk : k = t.strs.length
    · subst hk
      rw [hp.newStr] at h
      injection h with h
      exact Or.inl ⟨rfl, h.symm⟩
    · right
      obtain ⟨r, hm, _⟩ := (Threaded.str_iff hp.inv k y).mp h
      rw [hp.strs] at hm
      simp only [List.mem_cons, Prod.mk.injEq] at hm
      rcases hm with ⟨h1, _⟩ | hm
      · exact absurd h1 hk
      · obtain ⟨y', hy'⟩ := Threaded.content_some hI hm
        have h1 : t.str env k = some y' := (Threaded.str_iff hI k y').mpr ⟨r, hm, hy'⟩
        have h2 := hp.old k y' h1
        rw [h2] at h
        injection h with h
        rw [← h]; exact h1
  · rintro (⟨rfl, rfl⟩ | h)
    · exact hp.newStr
    · exact hp.old k y h

/-- **One `try_get_or_intern` call run without interference is the sequential model's call.** -/
theorem solo_intern_is_sequential (sh : Bytes → Nat) (env : Env) (s : CS) (t : Threaded) (hR : RelT env s t)
    (hI : t.Inv env) (x : Bytes) (rest : List Call) (ht : s.ts = [{ pc := .idle, todo := .intern x :: rest }]) :
    ∃ n, (run sh t.N s (List.replicate n 0)).ts = [{ pc := .idle, todo := rest }] ∧
      RelT env (run sh t.N s (List.replicate n 0)) (t.tryIntern env x).1 ∧
      (run sh t.N s (List.replicate n 0)).log = (0, .intern x, resOf (t.tryIntern env x).2) :: s.log := by
  obtain ⟨ha, hc, hl, hs, hm⟩ := hR
  rcases Threaded.tryIntern_spec hI x with ⟨k, hk, he⟩ | ⟨hnew, hrest⟩
  · -- already present: the fast path answers
    have hg : mapGet s.map x = some k := (hm x k).mpr hk
    have hrun : run sh t.N s (List.replicate 1 0) =
        { s with ts := [{ pc := .idle, todo := rest }], log := (0, .intern x, .key k) :: s.log } := by
      simp [List.replicate, run, step, ht, hl, lockOwner, hg, finish]
    refine ⟨1, ?_⟩
    rw [hrun, he]
    exact ⟨rfl, ⟨ha, hc, hl, hs, hm⟩, rfl⟩
  · have hg : mapGet s.map x = none := by
      cases h : mapGet s.map x with
      | none => rfl
      | some k => exact absurd ((hm x k).mp h) (hnew k)
    rcases hrest with ⟨hst, he⟩ | ⟨a', ref, hst, hcase⟩
    · -- the arena refuses the string
      have hst' : s.arena.store x = .err .memoryLimit := by rw [ha]; exact hst
      have hrun : run sh t.N s (List.replicate 3 0) =
          { s with ts := [{ pc := .idle, todo := rest }], log := (0, .intern x, .err .memoryLimit) :: s.log } := by
        simp [List.replicate, run, step, ht, hl, lockOwner, hg, setThread, hst', finish, unlock]
      refine ⟨3, ?_⟩
      rw [hrun, he]
      exact ⟨rfl, ⟨ha, hc, hl, hs, hm⟩, rfl⟩
    · have hst' : s.arena.store x = .ok (a', ref) := by rw [ha]; exact hst
      rcases hcase with ⟨hfull, he, hI', hiff⟩ | ⟨hlt, he, hp⟩
      · -- the key space is exhausted: the counter and the arena have moved
        have hctr : t.N ≤ t.ctr := by
          rcases hI.ctr with h | h
          · omega
          · exact h.1
        have hkey : keyOfIndex t.N s.ctr = none := by simp [keyOfIndex, hc]; omega
        have hrun : run sh t.N s (List.replicate 4 0) =
            { s with arena := a', ctr := s.ctr + 1, ts := [{ pc := .idle, todo := rest }],
                     log := (0, .intern x, .err .keySpace) :: s.log } := by
          simp [List.replicate, run, step, ht, hl, lockOwner, hg, setThread, hst', hkey, finish, unlock]
        refine ⟨4, ?_⟩
        rw [hrun, he]
        refine ⟨rfl, ⟨rfl, by simp [hc], hl, ?_, ?_⟩, rfl⟩
        · intro k y; rw [hs k y]; exact hiff k y
        · intro y k; rw [hm y k]; exact hiff k y
      · -- a new key
        have hctr : t.ctr = t.strs.length := by
          rcases hI.ctr with h | h
          · exact h
          · omega
        have hkey : keyOfIndex t.N s.ctr = some (s.ctr + 1) := by simp [keyOfIndex, hc]; omega
        have hidx : s.ctr = t.strs.length := by rw [hc, hctr]
        have hrun : run sh t.N s (List.replicate 6 0) =
            { s with arena := a', ctr := s.ctr + 1, strs := strInsert s.ctr x s.strs, map := s.map ++ [(x, s.ctr)],
                     ts := [{ pc := .idle, todo := rest }], log := (0, .intern x, .key s.ctr) :: s.log } := by
          simp [List.replicate, run, step, ht, hl, lockOwner, hg, setThread, hst', hkey, finish, unlock]
        refine ⟨6, ?_⟩
        rw [hrun, he]
        refine ⟨rfl, ⟨by simp [Threaded.pushState], by simp [Threaded.pushState, hc], hl, ?_, ?_⟩, by simp [resOf, hidx]⟩
        · intro k y
          simp only
          rw [strGet_strInsert, pushed_str_iff hI hp k y, hidx]
          by_cases hk : k = t.strs.length
          · subst hk
            simp only [↓reduceIte, Option.some.injEq, true_and]
            constructor
            · intro h; exact Or.inl h.symm
            · rintro (h | h)
              · exact h.symm
              · have := (hI.dense t.strs.length).mpr (by
                  obtain ⟨r, hm', _⟩ := (Threaded.str_iff hI _ _).mp h
                  exact ⟨r, hm'⟩)
                omega
          · simp only [hk, ↓reduceIte, false_and, false_or]
            exact hs k y
        · intro y k
          simp only
          rw [mapGet_append, pushed_str_iff hI hp k y, hidx]
          cases hgy : mapGet s.map y with
          | some k' =>
            have h1 := (hm y k').mp hgy
            simp only [Option.some.injEq]
            constructor
            · intro h; subst h; exact Or.inr h1
            · rintro (⟨rfl, rfl⟩ | h)
              · exact absurd h1 (hnew k')
              · exact hI.distinct k' k y h1 h
          | none =>
            simp only
            have hno : ∀ k', t.str env k' ≠ some y := fun k' h => by
              have := (hm y k').mpr h; rw [hgy] at this; simp at this
            by_cases hy : y = x
            · subst hy
              simp only [↓reduceIte, Option.some.injEq]
              constructor
              · intro h; exact Or.inl ⟨h.symm, trivial⟩
              · rintro (⟨h, _⟩ | h)
                · exact h.symm
                · exact absurd h (hno k)
            · simp only [hy, ↓reduceIte, and_false, false_or]
              constructor
              · intro h; cases h
              · intro h; exact absurd h (hno k)

/-- **One `try_get_or_intern_static` call run without interference is the sequential model's call.** -/
theorem solo_intern_static_is_sequential (sh : Bytes → Nat) (env : Env) (s : CS) (t : Threaded) (hR : RelT env s t)
    (hI : t.Inv env) (i : Nat) (x : Bytes) (hpool : env.pool[i]? = some x) (rest : List Call)
    (ht : s.ts = [{ pc := .idle, todo := .internStatic x :: rest }]) :
    ∃ n, (run sh t.N s (List.replicate n 0)).ts = [{ pc := .idle, todo := rest }] ∧
      RelT env (run sh t.N s (List.replicate n 0)) (t.tryInternStatic env i).1 ∧
      ∃ c, (c = Call.intern x ∨ c = Call.internStatic x) ∧    -- (the machine logs the publishing step as the copying call)
        (run sh t.N s (List.replicate n 0)).log = (0, c, resOf (t.tryInternStatic env i).2) :: s.log := by
  obtain ⟨ha, hc, hl, hs, hm⟩ := hR
  rcases Threaded.tryInternStatic_spec hI i x hpool with ⟨k, hk, he⟩ | ⟨hnew, hrest⟩
  · have hg : mapGet s.map x = some k := (hm x k).mpr hk
    have hrun : run sh t.N s (List.replicate 1 0) =
        { s with ts := [{ pc := .idle, todo := rest }], log := (0, .internStatic x, .key k) :: s.log } := by
      simp [List.replicate, run, step, ht, hl, lockOwner, hg, finish]
    refine ⟨1, ?_⟩
    rw [hrun, he]
    exact ⟨rfl, ⟨ha, hc, hl, hs, hm⟩, _, Or.inr rfl, rfl⟩
  · have hg : mapGet s.map x = none := by
      cases h : mapGet s.map x with
      | none => rfl
      | some k => exact absurd ((hm x k).mp h) (hnew k)
    rcases hrest with ⟨hfull, he, hI', hiff⟩ | ⟨hlt, he, hp⟩
    · have hctr : t.N ≤ t.ctr := by
        rcases hI.ctr with h | h
        · omega
        · exact h.1
      have hkey : keyOfIndex t.N s.ctr = none := by simp [keyOfIndex, hc]; omega
      have hrun : run sh t.N s (List.replicate 3 0) =
          { s with ctr := s.ctr + 1, ts := [{ pc := .idle, todo := rest }],
                   log := (0, .intern x, .err .keySpace) :: s.log } := by
        simp [List.replicate, run, step, ht, hl, lockOwner, hg, setThread, hkey, finish, unlock]
      refine ⟨3, ?_⟩
      rw [hrun, he]
      refine ⟨rfl, ⟨ha, by simp [hc], hl, ?_, ?_⟩, _, Or.inl rfl, rfl⟩
      · intro k y; rw [hs k y]; exact hiff k y
      · intro y k; rw [hm y k]; exact hiff k y
    · have hctr : t.ctr = t.strs.length := by
        rcases hI.ctr with h | h
        · exact h
        · omega
      have hkey : keyOfIndex t.N s.ctr = some (s.ctr + 1) := by simp [keyOfIndex, hc]; omega
      have hidx : s.ctr = t.strs.length := by rw [hc, hctr]
      have hrun : run sh t.N s (List.replicate 5 0) =
          { s with ctr := s.ctr + 1, strs := strInsert s.ctr x s.strs, map := s.map ++ [(x, s.ctr)],
                   ts := [{ pc := .idle, todo := rest }], log := (0, .intern x, .key s.ctr) :: s.log } := by
        simp [List.replicate, run, step, ht, hl, lockOwner, hg, setThread, hkey, finish, unlock]
      refine ⟨5, ?_⟩
      rw [hrun, he]
      refine ⟨rfl, ⟨by simp [Threaded.pushState, ha], by simp [Threaded.pushState, hc], hl, ?_, ?_⟩, _, Or.inl rfl, by simp [resOf, hidx]⟩
      · intro k y
        simp only
        rw [strGet_strInsert, pushed_str_iff hI hp k y, hidx]
        by_cases hk : k = t.strs.length
        · subst hk
          simp only [↓reduceIte, Option.some.injEq, true_and]
          constructor
          · intro h; exact Or.inl h.symm
          · rintro (h | h)
            · exact h.symm
            · have := (hI.dense t.strs.length).mpr (by
                obtain ⟨r, hm', _⟩ := (Threaded.str_iff hI _ _).mp h
                exact ⟨r, hm'⟩)
              omega
        · simp only [hk, ↓reduceIte, false_and, false_or]
          exact hs k y
      · intro y k
        simp only
        rw [mapGet_append, pushed_str_iff hI hp k y, hidx]
        cases hgy : mapGet s.map y with
        | some k' =>
          have h1 := (hm y k').mp hgy
          simp only [Option.some.injEq]
          constructor
          · intro h; subst h; exact Or.inr h1
          · rintro (⟨rfl, rfl⟩ | h)
            · exact absurd h1 (hnew k')
            · exact hI.distinct k' k y h1 h
        | none =>
          simp only
          have hno : ∀ k', t.str env k' ≠ some y := fun k' h => by
            have := (hm y k').mpr h; rw [hgy] at this; simp at this
          by_cases hy : y = x
          · subst hy
            simp only [↓reduceIte, Option.some.injEq]
            constructor
            · intro h; exact Or.inl ⟨h.symm, trivial⟩
            · rintro (⟨h, _⟩ | h)
              · exact h.symm
              · exact absurd h (hno k)
          · simp only [hy, ↓reduceIte, and_false, false_or]
            constructor
            · intro h; cases h
            · intro h; exact absurd h (hno k)

end Lasso.Conc
