import LassoProofs.Lemmas.Arena
import LassoProofs.Lemmas.Table
/-
  The invariant of `Rodeo` and what each operation does to it.
-/
namespace Lasso
set_option linter.unusedSimpArgs false

theorem strAt_append (env : Env) (read : Loc → Option Bytes) (ss : List StrRef) (ref : StrRef) (k : Nat) :
    strAt env read (ss ++ [ref]) k =
      if k < ss.length then strAt env read ss k
      else if k = ss.length then contentOf env read ref else none := by
  unfold strAt
  by_cases h : k < ss.length
  · simp [h, List.getElem?_append_left h]
  · by_cases h2 : k = ss.length
    · subst h2; simp
    · have : ss.length + 1 ≤ k := by omega
      simp [h, h2, List.getElem?_eq_none (l := ss ++ [ref]) (by simp; omega)]

theorem strAt_lt {env : Env} {read : Loc → Option Bytes} {ss : List StrRef} {k : Nat} {y : Bytes}
    (h : strAt env read ss k = some y) : k < ss.length := by
  unfold strAt at h
  cases hk : ss[k]? with
  | none => simp [hk] at h
  | some r => exact (List.getElem?_eq_some_iff.mp hk).1

/-- The invariant of the single-threaded interner. -/
structure Rodeo.Inv (env : Env) (r : Rodeo) : Prop where
  wf : r.arena.WF
  valid : ∀ loc, StrRef.arena loc ∈ r.strings → r.arena.valid loc ∧ loc.len ≠ 0
  statics : ∀ i, StrRef.static i ∈ r.strings → i < env.pool.length
  disjoint : r.strings.Pairwise (fun a b => ∀ l m, a = .arena l → b = .arena m → l.disjoint m)
  tinv : TInv env.hash (r.str env) r.strings.length r.table
  distinct : ∀ i j y, r.str env i = some y → r.str env j = some y → i = j
  lenLe : r.strings.length ≤ r.N

theorem Rodeo.new_inv (env : Env) (N cap max : Nat) (h : 0 < cap) : (Rodeo.new N cap max).Inv env := by
  constructor <;> simp [Rodeo.new, Arena.new_wf _ _ h, Rodeo.str, strAt]
  · exact TInv.empty _ _

/-- Every reference held by a well-formed interner has content. -/
theorem Rodeo.Inv.content_some {env : Env} {r : Rodeo} (h : r.Inv env) (ref : StrRef) (hm : ref ∈ r.strings) :
    ∃ y, contentOf env r.arena.read ref = some y := by
  cases ref with
  | arena loc =>
    obtain ⟨hv, _⟩ := h.valid loc hm
    exact (Arena.valid_iff_read h.wf loc).mp hv
  | static i =>
    have := h.statics i hm
    exact ⟨env.pool[i], by simp [contentOf, this]⟩
  | empty => exact ⟨[], rfl⟩

theorem Rodeo.Inv.str_total {env : Env} {r : Rodeo} (h : r.Inv env) (k : Nat) (hk : k < r.strings.length) :
    ∃ y, r.str env k = some y := by
  unfold Rodeo.str strAt
  have : r.strings[k]? = some r.strings[k] := List.getElem?_eq_getElem hk
  rw [this]
  exact h.content_some _ (List.getElem_mem hk)

theorem Rodeo.Inv.str_lt {env : Env} {r : Rodeo} {k : Nat} {y : Bytes} (hs : r.str env k = some y) :
    k < r.strings.length := strAt_lt hs

/-- `get` never faults and answers exactly "which key holds `x`". -/
theorem Rodeo.get_spec {env : Env} {r : Rodeo} (h : r.Inv env) (x : Bytes) :
    ∃ o, r.get env x = .ok o ∧ ∀ k, o = some k ↔ r.str env k = some x := by
  refine ⟨tfind env.hash (r.str env) r.table x, ?_, ?_⟩
  · exact tableFind_eq env r.arena.read r.strings r.table x h.tinv.bound
  · intro k
    exact tfind_spec x h.tinv (fun k y hs => Rodeo.Inv.str_lt hs) h.distinct k


theorem contentOf_mono {env : Env} {read read' : Loc → Option Bytes}
    (hm : ∀ l y, read l = some y → read' l = some y) {ref : StrRef} {y : Bytes}
    (h : contentOf env read ref = some y) : contentOf env read' ref = some y := by
  cases ref <;> simp_all [contentOf]

theorem strAt_mono {env : Env} {read read' : Loc → Option Bytes}
    (hm : ∀ l y, read l = some y → read' l = some y) {ss : List StrRef} {k : Nat} {y : Bytes}
    (h : strAt env read ss k = some y) : strAt env read' ss k = some y := by
  unfold strAt at *
  cases hk : ss[k]? with
  | none => simp [hk] at h
  | some r => simp only [hk] at h ⊢; exact contentOf_mono hm h

/-- Extending the vector by one reference whose content is `x`, over an arena that preserves all old
reads: the invariant is kept when `x` is new and the new region is fresh. -/
theorem Rodeo.push_inv {env : Env} {r : Rodeo} (h : r.Inv env) {a' : Arena} {ref : StrRef} {x : Bytes}
    (hwf : a'.WF) (hmono : ∀ l y, r.arena.read l = some y → a'.read l = some y)
    (hc : contentOf env a'.read ref = some x)
    (hnew : ∀ k, r.str env k ≠ some x) (hlen : r.strings.length < r.N)
    (hvalid : ∀ loc, ref = .arena loc → a'.valid loc ∧ loc.len ≠ 0 ∧ ∀ l, r.arena.valid l → l.disjoint loc)
    (hstat : ∀ i, ref = .static i → i < env.pool.length) :
    ({ r with table := r.table ++ [(env.hash x, r.strings.length)], strings := r.strings ++ [ref], arena := a' } : Rodeo).Inv env := by
  have hS : ∀ k, k < r.strings.length →
      strAt env a'.read (r.strings ++ [ref]) k = r.str env k := by
    intro k hk
    rw [strAt_append]; simp only [hk, ↓reduceIte]
    obtain ⟨y, hy⟩ := h.str_total k hk
    rw [hy]; exact strAt_mono hmono hy
  have hSn : strAt env a'.read (r.strings ++ [ref]) r.strings.length = some x := by
    rw [strAt_append]; simp [hc]
  constructor
  · exact hwf
  · intro loc hm
    simp only [List.mem_append, List.mem_singleton] at hm
    rcases hm with hm | hm
    · obtain ⟨hv, hl⟩ := h.valid loc hm
      refine ⟨?_, hl⟩
      obtain ⟨y, hy⟩ := (Arena.valid_iff_read h.wf loc).mp hv
      exact (Arena.valid_iff_read hwf loc).mpr ⟨y, hmono _ _ hy⟩
    · obtain ⟨hv, hl, _⟩ := hvalid loc hm.symm
      exact ⟨hv, hl⟩
  · intro i hm
    simp only [List.mem_append, List.mem_singleton] at hm
    rcases hm with hm | hm
    · exact h.statics i hm
    · exact hstat i hm.symm
  · simp only [List.pairwise_append, List.pairwise_cons, List.Pairwise.nil, List.mem_singleton]
    refine ⟨h.disjoint, by simp, ?_⟩
    intro a ha b hb l m hl hm
    subst hb hl
    obtain ⟨_, _, hd⟩ := hvalid m hm
    exact hd l (h.valid l ha).1
  · have := TInv.push (S' := strAt env a'.read (r.strings ++ [ref])) (x := x) h.tinv hS hSn
    have e : Rodeo.str env ({ r with table := r.table ++ [(env.hash x, r.strings.length)], strings := r.strings ++ [ref], arena := a' } : Rodeo)
        = strAt env a'.read (r.strings ++ [ref]) := by funext k; rfl
    rw [e]
    simpa using this
  · intro i j y hi hj
    simp only [Rodeo.str] at hi hj
    have hil := strAt_lt hi
    have hjl := strAt_lt hj
    simp only [List.length_append, List.length_singleton] at hil hjl
    by_cases h1 : i < r.strings.length <;> by_cases h2 : j < r.strings.length
    · rw [hS i h1] at hi; rw [hS j h2] at hj; exact h.distinct i j y hi hj
    · have : j = r.strings.length := by omega
      subst this; rw [hSn] at hj; rw [hS i h1] at hi
      injection hj with hj; subst hj; exact absurd hi (hnew i)
    · have : i = r.strings.length := by omega
      subst this; rw [hSn] at hi; rw [hS j h2] at hj
      injection hi with hi; subst hi; exact absurd hj (hnew j)
    · omega
  · simp; omega


/-- What a successful insertion of a new string produces. -/
structure Rodeo.Pushed (env : Env) (r r' : Rodeo) (x : Bytes) (ref : StrRef) : Prop where
  inv : r'.Inv env
  sameN : r'.N = r.N
  strings : r'.strings = r.strings ++ [ref]
  newStr : r'.str env r.strings.length = some x
  old : ∀ j y, r.str env j = some y → r'.str env j = some y
  maxSame : r'.arena.max = r.arena.max

theorem Rodeo.get_eq {env : Env} {r : Rodeo} (h : r.Inv env) (x : Bytes) :
    r.get env x = .ok (tfind env.hash (r.str env) r.table x) :=
  tableFind_eq env r.arena.read r.strings r.table x h.tinv.bound

theorem Rodeo.old_of_push {env : Env} {r : Rodeo} (_h : r.Inv env) {a' : Arena} {ref : StrRef} {t' : Table}
    (hmono : ∀ l y, r.arena.read l = some y → a'.read l = some y) :
    ∀ j y, r.str env j = some y →
      ({ r with table := t', strings := r.strings ++ [ref], arena := a' } : Rodeo).str env j = some y := by
  intro j y hj
  have hl := Rodeo.Inv.str_lt hj
  simp only [Rodeo.str, strAt_append, hl, ↓reduceIte]
  exact strAt_mono hmono hj

/-- Complete case analysis of `try_get_or_intern`. -/
theorem Rodeo.tryIntern_spec {env : Env} {r : Rodeo} (h : r.Inv env) (x : Bytes) (grow : Bool) :
    (∃ k, r.str env k = some x ∧ r.tryIntern env x grow = .ok (r, k)) ∨
    ((∀ k, r.str env k ≠ some x) ∧
      ((r.strings.length = r.N ∧ r.tryIntern env x grow = .err .keySpace) ∨
       (r.strings.length < r.N ∧
         ((r.arena.store x = .err .memoryLimit ∧ r.tryIntern env x grow = .err .memoryLimit) ∨
          (∃ r' ref, r.tryIntern env x grow = .ok (r', r.strings.length) ∧ r.arena.store x = .ok (r'.arena, ref) ∧
              Rodeo.Pushed env r r' x ref))))) := by
  unfold Rodeo.tryIntern
  rw [Rodeo.get_eq h]
  cases hf : tfind env.hash (r.str env) r.table x with
  | some k =>
    left
    exact ⟨k, (tfind_some hf).1, rfl⟩
  | none =>
    right
    have hnew : ∀ k, r.str env k ≠ some x := by
      intro k hk
      exact tfind_none h.tinv hf k (Rodeo.Inv.str_lt hk) hk
    refine ⟨hnew, ?_⟩
    simp only
    unfold keyOfIndex
    have hle := h.lenLe
    by_cases hlt : r.strings.length < r.N
    · right
      refine ⟨hlt, ?_⟩
      simp only [hlt, ↓reduceIte]
      cases hst : r.arena.store x with
      | err e =>
        left
        obtain ⟨rfl, _⟩ := Arena.store_err hst
        exact ⟨rfl, rfl⟩
      | panic => exact absurd hst (Arena.store_no_panic x)
      | fault f => exact absurd hst (Arena.store_no_fault h.wf x f)
      | ok p =>
        right
        obtain ⟨a', ref⟩ := p
        have hwf' := Arena.store_wf h.wf hst
        have hmono : ∀ l y, r.arena.read l = some y → a'.read l = some y :=
          fun l y hr => Arena.store_read_old h.wf hst l y hr
        have hc : contentOf env a'.read ref = some x := by
          rcases Arena.store_nonempty_ref hst with ⟨h0, rfl, _⟩ | ⟨_, loc, rfl, _⟩
          · simp [contentOf]; exact List.eq_nil_of_length_eq_zero h0
          · simp only [contentOf]; exact Arena.store_read_new h.wf hst
        have hvalid : ∀ loc, ref = .arena loc → a'.valid loc ∧ loc.len ≠ 0 ∧ ∀ l, r.arena.valid l → l.disjoint loc := by
          intro loc hl
          subst hl
          refine ⟨(Arena.valid_iff_read hwf' loc).mpr ⟨x, Arena.store_read_new h.wf hst⟩, ?_, ?_⟩
          · rcases Arena.store_nonempty_ref hst with ⟨_, hh, _⟩ | ⟨h0, loc', hh, hl⟩
            · simp at hh
            · injection hh with hh; subst hh; omega
          · intro l hv; exact Arena.store_disjoint h.wf hst l hv
        have hstat : ∀ i, ref = .static i → i < env.pool.length := by
          intro i hi
          rcases Arena.store_nonempty_ref hst with ⟨_, hh, _⟩ | ⟨_, loc', hh, _⟩ <;> simp [hi] at hh
        have hinv := Rodeo.push_inv h hwf' hmono hc hnew hlt hvalid hstat
        -- the insert with the source's rehash closure
        have hplaced : ∀ e ∈ r.table, ∃ s, strAt env a'.read (r.strings ++ [ref]) e.2 = some s ∧ e.1 = env.hash s := by
          intro e he
          obtain ⟨s, hs, hh⟩ := h.tinv.placed e he
          refine ⟨s, ?_, hh⟩
          have := h.tinv.bound e he
          rw [strAt_append]; simp only [this, ↓reduceIte]
          exact strAt_mono hmono hs
        have hins : tableInsert r.table (env.hash x) r.strings.length grow (rehashFn env a'.read (r.strings ++ [ref]))
            = .ok (r.table ++ [(env.hash x, r.strings.length)]) := by
          have := tableInsert_ok (hash := env.hash) (S := strAt env a'.read (r.strings ++ [ref])) hplaced (env.hash x) r.strings.length grow
          exact this
        simp only [hins]
        refine ⟨_, ref, rfl, rfl, ?_⟩
        refine ⟨hinv, rfl, rfl, ?_, Rodeo.old_of_push h hmono, (Arena.store_usage hst).1⟩
        simp [Rodeo.str, strAt_append, hc]
    · left
      have : r.strings.length = r.N := by omega
      refine ⟨this, ?_⟩
      simp [hlt]


/-- Complete case analysis of `try_get_or_intern_static` for an existing pool string. -/
theorem Rodeo.tryInternStatic_spec {env : Env} {r : Rodeo} (h : r.Inv env) (i : Nat) (x : Bytes)
    (hp : env.pool[i]? = some x) (grow : Bool) :
    (∃ k, r.str env k = some x ∧ r.tryInternStatic env i grow = .ok (r, k)) ∨
    ((∀ k, r.str env k ≠ some x) ∧
      ((r.strings.length = r.N ∧ r.tryInternStatic env i grow = .err .keySpace) ∨
       (r.strings.length < r.N ∧
          ∃ r', r.tryInternStatic env i grow = .ok (r', r.strings.length) ∧ r'.arena = r.arena ∧
              Rodeo.Pushed env r r' x (.static i)))) := by
  unfold Rodeo.tryInternStatic
  simp only [hp]
  rw [Rodeo.get_eq h]
  cases hf : tfind env.hash (r.str env) r.table x with
  | some k =>
    left
    exact ⟨k, (tfind_some hf).1, rfl⟩
  | none =>
    right
    have hnew : ∀ k, r.str env k ≠ some x := by
      intro k hk
      exact tfind_none h.tinv hf k (Rodeo.Inv.str_lt hk) hk
    refine ⟨hnew, ?_⟩
    simp only
    unfold keyOfIndex
    have hle := h.lenLe
    by_cases hlt : r.strings.length < r.N
    · right
      refine ⟨hlt, ?_⟩
      simp only [hlt, ↓reduceIte]
      have hil : i < env.pool.length := (List.getElem?_eq_some_iff.mp hp).1
      have hmono : ∀ l y, r.arena.read l = some y → r.arena.read l = some y := fun _ _ h => h
      have hc : contentOf env r.arena.read (.static i) = some x := by simp [contentOf, hp]
      have hinv := Rodeo.push_inv (ref := .static i) h h.wf hmono hc hnew hlt (by simp) (by simp; exact hil)
      have hplaced : ∀ e ∈ r.table, ∃ s, strAt env r.arena.read (r.strings ++ [.static i]) e.2 = some s ∧ e.1 = env.hash s := by
        intro e he
        obtain ⟨s, hs, hh⟩ := h.tinv.placed e he
        refine ⟨s, ?_, hh⟩
        have := h.tinv.bound e he
        rw [strAt_append]; simp only [this, ↓reduceIte]
        exact hs
      have hins : tableInsert r.table (env.hash x) r.strings.length grow (rehashFn env r.arena.read (r.strings ++ [.static i]))
          = .ok (r.table ++ [(env.hash x, r.strings.length)]) :=
        tableInsert_ok (hash := env.hash) (S := strAt env r.arena.read (r.strings ++ [.static i])) hplaced (env.hash x) r.strings.length grow
      simp only [hins]
      refine ⟨_, rfl, rfl, ?_⟩
      refine ⟨hinv, rfl, rfl, ?_, Rodeo.old_of_push h hmono, rfl⟩
      simp [Rodeo.str, strAt_append, hc]
    · left
      have : r.strings.length = r.N := by omega
      refine ⟨this, ?_⟩
      simp [hlt]

theorem Arena.clear_wf {a : Arena} (h : a.WF) : a.clear.WF := by
  obtain ⟨h1, h2, h3, h4, h5⟩ := h
  constructor
  · intro b hb
    simp only [Arena.clear, Arena.all, List.mem_cons, List.mem_map, Bucket.clear] at hb
    rcases hb with rfl | ⟨c, _, rfl⟩ <;> simp
  · simpa [Arena.clear, Arena.all, Bucket.clear, List.map_map, Function.comp_def] using h2
  · intro b hb
    simp only [Arena.clear, Arena.all, List.mem_cons, List.mem_map, Bucket.clear] at hb
    rcases hb with rfl | ⟨c, hc, rfl⟩
    · exact h3 a.cur (by simp [Arena.all])
    · exact h3 c (by simp [Arena.all, hc])
  · simpa [Arena.clear, Arena.all, Bucket.clear, sumCaps, List.map_map, Function.comp_def] using h4
  · exact h5

/-- `clear` yields a valid empty interner whatever the history before it. -/
theorem Rodeo.clear_inv {env : Env} {r : Rodeo} (h : r.Inv env) : r.clear.Inv env := by
  constructor <;> simp [Rodeo.clear, Arena.clear_wf h.wf, Rodeo.str, strAt]
  · exact TInv.empty _ _

theorem Rodeo.setLimit_inv {env : Env} {r : Rodeo} (h : r.Inv env) (m : Nat) : (r.setLimit m).Inv env := by
  obtain ⟨h1, h2, h3, h4, h5, h6, h7⟩ := h
  have hwf : ({ r.arena with max := m } : Arena).WF := by
    obtain ⟨a1, a2, a3, a4, a5⟩ := h1
    exact ⟨a1, a2, a3, a4, a5⟩
  exact ⟨hwf, h2, h3, h4, h5, h6, h7⟩


/-! ### One iteration of the store-then-insert loops (`clone_strings_into`, the deserialisers) -/

theorem tfind_congr {hash : Bytes → UInt64} {S S' : Nat → Option Bytes} {t : Table} (x : Bytes)
    (h : ∀ e ∈ t, S e.2 = S' e.2) : tfind hash S t x = tfind hash S' t x := by
  unfold tfind
  congr 1
  induction t with
  | nil => rfl
  | cons e rest ih =>
    simp only [List.find?_cons]
    rw [h e (by simp), ih (fun e' he' => h e' (by simp [he']))]

/-- After a successful `store` of a *new* string below the key capacity: both lookup forms (before
and after the push) answer "absent", the insert with the source's rehash closure succeeds, and the
pushed interner satisfies `Pushed`. -/
theorem Rodeo.push_after_store {env : Env} {r : Rodeo} (h : r.Inv env) {x : Bytes} {a' : Arena} {ref : StrRef}
    (hst : r.arena.store x = .ok (a', ref)) (grow : Bool) :
    tableFind env a'.read (r.strings ++ [ref]) r.table x = .ok (tfind env.hash (r.str env) r.table x) ∧
    tableFind env a'.read r.strings r.table x = .ok (tfind env.hash (r.str env) r.table x) ∧
    ((∀ k, r.str env k ≠ some x) → r.strings.length < r.N →
      tableInsert r.table (env.hash x) r.strings.length grow (rehashFn env a'.read (r.strings ++ [ref]))
          = .ok (r.table ++ [(env.hash x, r.strings.length)]) ∧
      Rodeo.Pushed env r ({ r with table := r.table ++ [(env.hash x, r.strings.length)], strings := r.strings ++ [ref], arena := a' } : Rodeo) x ref) := by
  have hwf' := Arena.store_wf h.wf hst
  have hmono : ∀ l y, r.arena.read l = some y → a'.read l = some y :=
    fun l y hr => Arena.store_read_old h.wf hst l y hr
  have hS1 : ∀ e ∈ r.table, strAt env a'.read (r.strings ++ [ref]) e.2 = r.str env e.2 := by
    intro e he
    have hb := h.tinv.bound e he
    obtain ⟨y, hy⟩ := h.str_total e.2 hb
    rw [strAt_append]; simp only [hb, ↓reduceIte]
    rw [hy]; exact strAt_mono hmono hy
  have hS2 : ∀ e ∈ r.table, strAt env a'.read r.strings e.2 = r.str env e.2 := by
    intro e he
    have hb := h.tinv.bound e he
    obtain ⟨y, hy⟩ := h.str_total e.2 hb
    rw [hy]; exact strAt_mono hmono hy
  refine ⟨?_, ?_, ?_⟩
  · rw [tableFind_eq env a'.read (r.strings ++ [ref]) r.table x (fun e he => by have := h.tinv.bound e he; simp; omega)]
    rw [tfind_congr x hS1]
  · rw [tableFind_eq env a'.read r.strings r.table x h.tinv.bound]
    rw [tfind_congr x hS2]
  · intro hnew hlt
    have hc : contentOf env a'.read ref = some x := by
      rcases Arena.store_nonempty_ref hst with ⟨h0, rfl, _⟩ | ⟨_, loc, rfl, _⟩
      · simp [contentOf]; exact List.eq_nil_of_length_eq_zero h0
      · simp only [contentOf]; exact Arena.store_read_new h.wf hst
    have hvalid : ∀ loc, ref = .arena loc → a'.valid loc ∧ loc.len ≠ 0 ∧ ∀ l, r.arena.valid l → l.disjoint loc := by
      intro loc hl
      subst hl
      refine ⟨(Arena.valid_iff_read hwf' loc).mpr ⟨x, Arena.store_read_new h.wf hst⟩, ?_, ?_⟩
      · rcases Arena.store_nonempty_ref hst with ⟨_, hh, _⟩ | ⟨h0, loc', hh, hl⟩
        · simp at hh
        · injection hh with hh; subst hh; omega
      · intro l hv; exact Arena.store_disjoint h.wf hst l hv
    have hstat : ∀ i, ref = .static i → i < env.pool.length := by
      intro i hi
      rcases Arena.store_nonempty_ref hst with ⟨_, hh, _⟩ | ⟨_, loc', hh, _⟩ <;> simp [hi] at hh
    have hinv := Rodeo.push_inv h hwf' hmono hc hnew hlt hvalid hstat
    have hplaced : ∀ e ∈ r.table, ∃ s, strAt env a'.read (r.strings ++ [ref]) e.2 = some s ∧ e.1 = env.hash s := by
      intro e he
      obtain ⟨s, hs, hh⟩ := h.tinv.placed e he
      exact ⟨s, by rw [hS1 e he]; exact hs, hh⟩
    refine ⟨tableInsert_ok (hash := env.hash) (S := strAt env a'.read (r.strings ++ [ref])) hplaced (env.hash x) r.strings.length grow, ?_⟩
    refine ⟨hinv, rfl, rfl, ?_, Rodeo.old_of_push h hmono, (Arena.store_usage hst).1⟩
    simp [Rodeo.str, strAt_append, hc]

end Lasso
