import LassoProofs.Lemmas.SerdeT
/-
  The serialised form of a well-formed concurrent interner is a well-formed map document.
-/
namespace Lasso
set_option linter.unusedSimpArgs false

theorem inj_on_of_nodup_map {f : α → β} {l : List α} (h : (l.map f).Nodup) :
    ∀ a ∈ l, ∀ b ∈ l, f a = f b → a = b := by
  induction l with
  | nil => simp
  | cons x rest ih =>
    simp only [List.map_cons, List.nodup_cons, List.mem_map] at h
    intro a ha b hb hab
    simp only [List.mem_cons] at ha hb
    rcases ha with rfl | ha <;> rcases hb with rfl | hb
    · rfl
    · exact absurd ⟨b, hb, hab.symm⟩ h.1
    · exact absurd ⟨a, ha, hab⟩ h.1
    · exact ih h.2 a ha b hb hab

theorem nodup_of_nodup_map {f : α → β} {l : List α} (h : (l.map f).Nodup) : l.Nodup := by
  induction l with
  | nil => simp
  | cons x rest ih =>
    simp only [List.map_cons, List.nodup_cons, List.mem_map] at h
    simp only [List.nodup_cons]
    exact ⟨fun hx => h.1 ⟨x, hx, rfl⟩, ih h.2⟩

theorem filterMap_eq_map_of {f : α → Option β} {g : α → β} {l : List α} (h : ∀ a ∈ l, f a = some (g a)) :
    l.filterMap f = l.map g := by
  induction l with
  | nil => rfl
  | cons x rest ih =>
    simp only [List.filterMap_cons, h x (by simp), List.map_cons]
    rw [ih (fun a ha => h a (by simp [ha]))]

theorem Threaded.map_len {env : Env} {t : Threaded} (h : t.Inv env) : t.map.length = t.strs.length := by
  have hperm : (t.strs.map (·.1)).Perm (t.map.map (·.2)) := by
    rw [List.perm_ext_iff_of_nodup h.strNd h.mapNd]
    intro k
    simp only [List.mem_map]
    constructor
    · rintro ⟨e, he, rfl⟩; exact ⟨(e.2, e.1), h.strMap e.1 e.2 he, rfl⟩
    · rintro ⟨e, he, rfl⟩; exact ⟨(e.2, e.1), h.mapStr e.1 e.2 he, rfl⟩
  simpa using hperm.length_eq.symm

theorem Threaded.serDoc_eq {env : Env} {t : Threaded} (h : t.Inv env) :
    t.serDoc env = t.map.map (fun e => ((t.content env e.1).getD [], e.2 + 1)) := by
  unfold Threaded.serDoc
  apply filterMap_eq_map_of
  intro e he
  obtain ⟨y, hy⟩ := Threaded.content_some h (h.mapStr e.1 e.2 he)
  simp [hy]

theorem Threaded.serDoc_spec {env : Env} {t : Threaded} (h : t.Inv env) :
    (t.serDoc env).length = t.strs.length ∧ ((t.serDoc env).map (·.1)).Nodup ∧ ((t.serDoc env).map (·.2)).Nodup ∧
    (∀ e ∈ t.serDoc env, 0 < e.2 ∧ e.2 ≤ (t.serDoc env).length) ∧
    (∀ e ∈ t.serDoc env, t.str env (indexOfKey e.2) = some e.1) := by
  have hml := Threaded.map_len h
  rw [Threaded.serDoc_eq h]
  have hinjKey := inj_on_of_nodup_map h.mapNd
  refine ⟨by simp [hml], ?_, ?_, ?_, ?_⟩
  · rw [List.map_map]
    refine nodup_map_of_inj_on ?_ ?_
    · -- the map itself has no repeated entry (its keys are distinct)
      exact nodup_of_nodup_map h.mapNd
    · intro a ha b hb hab
      simp only [Function.comp] at hab
      obtain ⟨ya, hya⟩ := Threaded.content_some h (h.mapStr a.1 a.2 ha)
      obtain ⟨yb, hyb⟩ := Threaded.content_some h (h.mapStr b.1 b.2 hb)
      simp only [hya, hyb, Option.getD_some] at hab
      subst hab
      have sa := (Threaded.str_iff h a.2 ya).mpr ⟨a.1, h.mapStr a.1 a.2 ha, hya⟩
      have sb := (Threaded.str_iff h b.2 ya).mpr ⟨b.1, h.mapStr b.1 b.2 hb, hyb⟩
      exact hinjKey a ha b hb (h.distinct a.2 b.2 ya sa sb)
  · rw [List.map_map]
    refine nodup_map_of_inj_on (nodup_of_nodup_map h.mapNd) ?_
    intro a ha b hb hab
    simp only [Function.comp] at hab
    exact hinjKey a ha b hb (by omega)
  · intro e he
    obtain ⟨m, hm, rfl⟩ := List.mem_map.mp he
    have := (h.dense m.2).mpr ⟨m.1, h.mapStr m.1 m.2 hm⟩
    simp only [List.length_map]
    omega
  · intro e he
    obtain ⟨m, hm, rfl⟩ := List.mem_map.mp he
    obtain ⟨y, hy⟩ := Threaded.content_some h (h.mapStr m.1 m.2 hm)
    simp only [hy, Option.getD_some, indexOfKey, Nat.add_sub_cancel]
    exact (Threaded.str_iff h m.2 y).mpr ⟨m.1, h.mapStr m.1 m.2 hm, hy⟩

end Lasso
