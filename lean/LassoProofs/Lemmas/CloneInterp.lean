import LassoModel.CloneInterp
namespace Lasso
open Lasso.Source

theorem clone_loopBody :
    cloneLoopBody Extracted.cloneCopyEffects =
      [.store, .propagate, .stringsPush, .hashOne, .probe, .keyCheck .loopIndex, .reject, .tableInsert] := by decide

/-- Running the effect sequence regenerated from `clone_strings_into` is the model's `Rodeo.cloneInto`. -/
theorem interp_clone_is_model (env : Env) (N : Nat) (grow : Bool) (src : List Bytes) :
    ∀ (idx : Nat) (t : Table) (ss : List StrRef) (a : Arena),
      interpCloneInto env N grow Extracted.cloneCopyEffects src idx t ss a = Rodeo.cloneInto env N grow src idx t ss a := by
  induction src with
  | nil => intro idx t ss a; simp [interpCloneInto, Rodeo.cloneInto]
  | cons x rest ih =>
    intro idx t ss a
    unfold interpCloneInto Rodeo.cloneInto
    rw [clone_loopBody]
    simp only [runCEffects, CEffect.run, CReg.start]
    cases hst : a.store x with
    | ok p =>
      obtain ⟨a', ref⟩ := p
      simp only []
      cases hf : tableFind env a'.read (ss ++ [ref]) t x with
      | ok o =>
        cases o with
        | some k => simp
        | none =>
          simp only []
          cases hk : keyOfIndex N idx with
          | none => simp
          | some raw =>
            simp only [Option.isNone_some]
            cases hi : tableInsert t (env.hash x) idx grow (rehashFn env a'.read (ss ++ [ref])) with
            | ok t' => simp [ih]
            | err e => simp
            | panic => simp
            | fault f => simp
      | err e => simp
      | panic => simp
      | fault f => simp
    | err e => simp
    | panic => simp
    | fault f => simp

end Lasso
