import LassoModel.CloneInterp
namespace Lasso
open Lasso.Source

theorem clone_loopBody :
    cloneLoopBody Extracted.cloneCopyEffects =
      [.store, .propagate, .stringsPush, .hashOne, .probe, .keyCheck .loopIndex, .reject, .tableInsert] := by decide

/-- Running the effect sequence regenerated from `clone_strings_into` is the model's `Rodeo.cloneInto`. -/
theorem interp_clone_is_model (env : Env) (N : Nat) (grow : Bool) (src : List Bytes) :
    ∀ (idx : Nat) (t : Table) (ss : List StrRef) (a : Arena),
      interpCloneInto env N grow Extracted.cloneCopyEffects src idx t ss a = Rodeo.cloneInto env N grow src idx t ss a := by
  induction src with
  | nil => intro idx t ss a; simp [interpCloneInto, Rodeo.cloneInto]
  | cons x rest ih =>
    intro idx t ss a
    unfold interpCloneInto Rodeo.cloneInto
    rw [clone_loopBody]
    simp only [runCEffects, CEffect.run, CReg.start]
    cases hst : a.store x with
    | ok p =>
      obtain ⟨a', ref⟩ := p
      simp only []
      cases hf : tableFind env a'.read (ss ++ [ref]) t x with
      | ok o =>
        cases o with
        | some k => simp
        | none =>
          simp only []
          cases hk : keyOfIndex N idx with
          | none => simp
          | some raw =>
            simp only [Option.isNone_some]
            cases hi : tableInsert t (env.hash x) idx grow (rehashFn env a'.read (ss ++ [ref])) with
            | ok t' => simp [ih]
            | err e => simp
            | panic => simp
            | fault f => simp
      | err e => simp
      | panic => simp
      | fault f => simp
    | err e => simp
    | panic => simp
    | fault f => simp

end Lasso

namespace Lasso
open Lasso.Source

theorem interp_tryClone_is_model (env : Env) (r : Rodeo) (grow : Bool) :
    interpTryClone env Extracted.tryCloneEffects Extracted.cloneCopyEffects r grow = r.tryClone env grow := by
  have he : Extracted.tryCloneEffects =
      [.sumLengths, .arenaSizedToContent, .propagate, .presizeExact, .presizeExact, .cloneHasher, .copyAll, .propagate] := by decide
  unfold interpTryClone Rodeo.tryClone
  rw [he]
  cases hc : Rodeo.contents env r.arena.read r.strings with
  | none => simp
  | some cs =>
    simp only [runWEffects, CEffect.runW, interp_clone_is_model]
    cases hi : Rodeo.cloneInto env r.N grow cs 0 [] []
        (Arena.new (if sumNat (cs.map List.length) = 0 then 4096 else sumNat (cs.map List.length))
          (Nat.max r.arena.max (if sumNat (cs.map List.length) = 0 then 4096 else sumNat (cs.map List.length)))) with
    | ok p => obtain ⟨t, ss, a⟩ := p; simp [hi]
    | err e => simp [hi]
    | panic => simp [hi]
    | fault f => simp [hi]

theorem interp_tryCloneFrom_is_model (env : Env) (target source : Rodeo) (grow : Bool) :
    interpTryCloneFrom env Extracted.tryCloneFromEffects Extracted.cloneCopyEffects target source grow =
      Rodeo.tryCloneFrom env target source grow := by
  have he : Extracted.tryCloneFromEffects =
      [.clearTarget, .takeHasher, .reserve, .propagate, .reserve, .propagate, .copyAll, .propagate] := by decide
  unfold interpTryCloneFrom Rodeo.tryCloneFrom
  rw [he]
  cases hc : Rodeo.contents env source.arena.read source.strings with
  | none => simp
  | some cs =>
    simp only [runWEffects, CEffect.runW, interp_clone_is_model, Rodeo.clear]
    cases hi : Rodeo.cloneInto env target.N grow cs 0 [] [] target.arena.clear with
    | ok p => obtain ⟨t, ss, a⟩ := p; simp [hi]
    | err e => simp [hi]
    | panic => simp [hi]
    | fault f => simp [hi]

end Lasso
