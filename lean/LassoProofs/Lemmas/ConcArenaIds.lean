import LassoProofs.Lemmas.ConcArenaHist
/-
  No block is ever lost: every block identity handed out so far is either in the published list or
  owned by exactly the thread that is about to publish it.  At quiescence the list therefore holds
  every block that was ever allocated.
-/
namespace Lasso.CA
open Lasso

/-- Every block identity below `nextId` is accounted for. -/
def AllIds (s : AS) : Prop :=
  ∀ i, i < s.nextId → (∃ b ∈ s.buckets, b.id = i) ∨
    (∃ (t : Nat) (th : AThread) (x : Bytes) (nb : ABucket), s.ts[t]? = some th ∧ ownsB th.pc = some (x, nb) ∧ nb.id = i)

theorem set_get_ne {ts : List AThread} {t u : Nat} {new : AThread} (h : u ≠ t) : (ts.set t new)[u]? = ts[u]? := by
  simp [List.getElem?_set_ne (Ne.symm h)]

theorem set_get_self {ts : List AThread} {t : Nat} {th new : AThread} (h : ts[t]? = some th) : (ts.set t new)[t]? = some new := by
  have hl : t < ts.length := (List.getElem?_eq_some_iff.mp h).1
  simp [hl]

/-- Ownership facts survive a step that keeps the stepping thread's ownership. -/
theorem owner_kept {s : AS} {t : Nat} {th new : AThread} (ht : s.ts[t]? = some th) (how : ownsB new.pc = ownsB th.pc)
    {u : Nat} {thu : AThread} {x : Bytes} {nb : ABucket} (hu : s.ts[u]? = some thu) (ho : ownsB thu.pc = some (x, nb)) :
    ∃ (u' : Nat) (th' : AThread), (s.ts.set t new)[u']? = some th' ∧ ownsB th'.pc = some (x, nb) := by
  by_cases hut : u = t
  · subst hut
    rw [ht] at hu; injection hu with hu; subst hu
    exact ⟨u, new, set_get_self ht, by rw [how]; exact ho⟩
  · exact ⟨u, thu, by rw [set_get_ne hut]; exact hu, ho⟩

theorem allIds_pc {s : AS} (hA : AllIds s) {t : Nat} {th : AThread} (ht : s.ts[t]? = some th) (new : AThread)
    (how : ownsB new.pc = ownsB th.pc) (lg : List (Nat × Bytes × ARes)) (bc : Nat) :
    AllIds { s with ts := s.ts.set t new, log := lg, bucketCap := bc } := by
  intro i hi
  rcases hA i hi with h | ⟨u, thu, x, nb, hu, ho, hid⟩
  · exact Or.inl h
  · obtain ⟨u', th', h1, h2⟩ := owner_kept ht how hu ho
    exact Or.inr ⟨u', th', x, nb, h1, h2, hid⟩

theorem allIds_upd {s : AS} (hA : AllIds s) {t : Nat} {th : AThread} (ht : s.ts[t]? = some th) (new : AThread)
    (how : ownsB new.pc = ownsB th.pc) (lg : List (Nat × Bytes × ARes)) (b : Nat) (f : ABucket → ABucket) (hf : ∀ k, (f k).id = k.id) :
    AllIds { s with ts := s.ts.set t new, log := lg, buckets := updB s.buckets b f } := by
  intro i hi
  rcases hA i hi with ⟨bk, hbk, hid⟩ | ⟨u, thu, x, nb, hu, ho, hid⟩
  · refine Or.inl ⟨_, mem_updB.mpr ⟨bk, hbk, rfl⟩, ?_⟩
    split <;> simp [hf, hid]
  · obtain ⟨u', th', h1, h2⟩ := owner_kept ht how hu ho
    exact Or.inr ⟨u', th', x, nb, h1, h2, hid⟩

theorem allIds_alloc {s : AS} (hA : AllIds s) {t : Nat} {th : AThread} (ht : s.ts[t]? = some th) (new : AThread) (req : Nat)
    (h0 : ownsB th.pc = none) (h1 : (ownsB new.pc).map (fun p => p.2.id) = some s.nextId) :
    AllIds { s with usage := s.usage + req, nextId := s.nextId + 1, ts := s.ts.set t new } := by
  intro i hi
  simp only at hi
  by_cases hlt : i < s.nextId
  · rcases hA i hlt with h | ⟨u, thu, x, nb, hu, ho, hid⟩
    · exact Or.inl h
    · have hut : u ≠ t := by
        intro e; subst e; rw [ht] at hu; injection hu with hu; subst hu; rw [h0] at ho; simp at ho
      exact Or.inr ⟨u, thu, x, nb, by simp only; rw [set_get_ne hut]; exact hu, ho, hid⟩
  · have : i = s.nextId := by omega
    subst this
    cases hn : ownsB new.pc with
    | none => rw [hn] at h1; simp at h1
    | some p =>
      rw [hn] at h1
      simp only [Option.map_some, Option.some.injEq] at h1
      exact Or.inr ⟨t, new, p.1, p.2, set_get_self ht, by rw [hn], h1⟩

theorem allIds_push {s : AS} (hA : AllIds s) {t : Nat} {th : AThread} (ht : s.ts[t]? = some th) (new : AThread) (nb : ABucket)
    (h0 : (ownsB th.pc).map (·.2) = some nb) (h1 : ownsB new.pc = none) (lg : List (Nat × Bytes × ARes)) :
    AllIds { s with ts := s.ts.set t new, log := lg, buckets := nb :: s.buckets } := by
  intro i hi
  rcases hA i hi with ⟨bk, hbk, hid⟩ | ⟨u, thu, x, nb', hu, ho, hid⟩
  · exact Or.inl ⟨bk, List.mem_cons_of_mem _ hbk, hid⟩
  · by_cases hut : u = t
    · subst hut
      rw [ht] at hu; injection hu with hu; subst hu
      rw [ho] at h0
      simp only [Option.map_some, Option.some.injEq] at h0
      subst h0
      exact Or.inl ⟨nb', List.mem_cons_self .., hid⟩
    · exact Or.inr ⟨u, thu, x, nb', by simp only; rw [set_get_ne hut]; exact hu, ho, hid⟩

theorem init_allIds (cap max : Nat) (programs : List (List Bytes)) : AllIds (init cap max programs) := by
  intro i hi
  simp only [init] at hi
  have : i = 0 := by omega
  subst this
  exact Or.inl ⟨{ id := 0, cap := cap, len := 0, claims := [] }, by simp [init], rfl⟩

/-- **Every step keeps every block identity accounted for.** -/
theorem step_allIds {cap0 : Nat} {s s' : AS} {t : Nat} {sp : Bool} (h : AInv cap0 s) (hA : AllIds s) (hs : step s t sp = some s') : AllIds s' := by
  unfold step at hs
  split at hs
  · simp at hs
  next th ht =>
  have hme := h.pcOk t th ht
  split at hs
  next hpc =>
    split at hs
    · simp at hs
    next x rest htodo =>
    split at hs <;> (injection hs with hs; subst hs)
    · exact allIds_pc hA ht { pc := .idle, todo := rest } (by rw [hpc]) _ s.bucketCap
    · exact allIds_pc hA ht { pc := .walk x none, todo := rest } (by rw [hpc]; rfl) s.log s.bucketCap
  next x cur hpc =>
    have key : ∀ nxt : Option Nat, (match nxt with
        | some b => some (setPc s t th (.loadLen x b))
        | none => some (setPc s t th (.growCap x))) = some s' → AllIds s' := by
      intro nxt hs
      split at hs <;> (injection hs with hs; subst hs)
      · exact allIds_pc hA ht { th with pc := .loadLen x _ } (by rw [hpc]; rfl) s.log s.bucketCap
      · exact allIds_pc hA ht { th with pc := .growCap x } (by rw [hpc]; rfl) s.log s.bucketCap
    exact key _ hs
  next x b hpc =>
    split at hs
    · simp at hs
    next bk hf =>
    split at hs <;> (injection hs with hs; subst hs)
    · exact allIds_pc hA ht { th with pc := .cas x b bk.len 0 } (by rw [hpc]; rfl) s.log s.bucketCap
    · exact allIds_pc hA ht { th with pc := .walk x (some b) } (by rw [hpc]; rfl) s.log s.bucketCap
  next x b seen tries hpc =>
    split at hs
    · simp at hs
    next bk hf =>
    split at hs
    · injection hs with hs; subst hs
      exact allIds_upd hA ht { th with pc := .copy x b seen } (by rw [hpc]; rfl) s.log b _ (fun _ => rfl)
    · split at hs <;> (injection hs with hs; subst hs)
      · exact allIds_pc hA ht { th with pc := .cas x b bk.len (tries + 1) } (by rw [hpc]; rfl) s.log s.bucketCap
      · exact allIds_pc hA ht { th with pc := .walk x (some b) } (by rw [hpc]; rfl) s.log s.bucketCap
  next x b off hpc =>
    injection hs with hs; subst hs
    exact allIds_upd hA ht { pc := .idle, todo := th.todo } (by rw [hpc]; rfl) _ b _ (fun _ => rfl)
  next x hpc =>
    dsimp only at hs
    split at hs <;> (injection hs with hs; subst hs)
    · exact allIds_pc hA ht { th with pc := .allocMax x x.length .oversize } (by rw [hpc]; rfl) s.log s.bucketCap
    · exact allIds_pc hA ht { th with pc := .growUsage x (s.bucketCap * 2) } (by rw [hpc]; rfl) s.log s.bucketCap
  next x next hpc =>
    injection hs with hs; subst hs
    exact allIds_pc hA ht { th with pc := .growMax x next s.usage } (by rw [hpc]; rfl) s.log s.bucketCap
  next x next u hpc =>
    dsimp only at hs
    split at hs
    · split at hs <;> (injection hs with hs; subst hs)
      · exact allIds_pc hA ht { pc := .idle, todo := th.todo } (by rw [hpc]; rfl) _ s.bucketCap
      · exact allIds_pc hA ht { th with pc := .allocMax x (s.max - u) .remaining } (by rw [hpc]; rfl) s.log s.bucketCap
    · injection hs with hs; subst hs
      exact allIds_pc hA ht { th with pc := .allocMax x next (.double next) } (by rw [hpc]; rfl) s.log s.bucketCap
  next x req k hpc =>
    injection hs with hs; subst hs
    exact allIds_pc hA ht { th with pc := .allocUpd x req s.max k } (by rw [hpc]; rfl) s.log s.bucketCap
  next x req mx k hpc =>
    have hx : 0 < x.length := hme.strPos x (by rw [hpc]; rfl)
    have hr : x.length ≤ req := hme.reqOk x req (by rw [hpc]; rfl)
    split at hs
    · injection hs with hs; subst hs
      exact allIds_pc hA ht { pc := .idle, todo := th.todo } (by rw [hpc]; rfl) _ s.bucketCap
    · split at hs
      · injection hs with hs; subst hs
        exact allIds_alloc hA ht { th with pc := .storeCap x (freshB s.nextId req x) _ } req (by rw [hpc]; rfl) rfl
      · split at hs
        · omega
        · injection hs with hs; subst hs
          exact allIds_alloc hA ht { th with pc := .pushLoad x (freshB s.nextId req x) } req (by rw [hpc]; rfl) rfl
  next x nb next hpc =>
    injection hs with hs; subst hs
    exact allIds_pc hA ht { th with pc := .pushLoad x nb } (by rw [hpc]; rfl) s.log next
  next x nb hpc =>
    injection hs with hs; subst hs
    exact allIds_pc hA ht { th with pc := .pushCas x nb (headId s.buckets) } (by rw [hpc]; rfl) s.log s.bucketCap
  next x nb hd hpc =>
    split at hs <;> (injection hs with hs; subst hs)
    · exact allIds_push hA ht { pc := .idle, todo := th.todo } nb (by rw [hpc]; rfl) rfl _
    · exact allIds_pc hA ht { th with pc := .pushCas x nb (headId s.buckets) } (by rw [hpc]; rfl) s.log s.bucketCap


theorem run_allIds {cap0 : Nat} (sched : List (Nat × Bool)) {s : AS} (h : AInv cap0 s) (hA : AllIds s) : AllIds (run s sched) := by
  induction sched generalizing s with
  | nil => exact hA
  | cons e rest ih =>
    obtain ⟨t, sp⟩ := e
    unfold run
    split
    next s' hs => exact ih (step_inv h hs) (step_allIds h hA hs)
    · exact ih h hA

/-- At quiescence nobody owns an unpublished block: the list holds every block ever allocated. -/
theorem quiescent_all_published {s : AS} (hA : AllIds s) (hq : quiescent s = true) :
    ∀ i, i < s.nextId → ∃ b ∈ s.buckets, b.id = i := by
  intro i hi
  rcases hA i hi with h | ⟨u, thu, x, nb, hu, ho, _⟩
  · exact h
  · unfold quiescent at hq
    simp only [List.all_eq_true, Bool.and_eq_true, beq_iff_eq] at hq
    have := (hq thu (List.mem_of_getElem? hu)).1
    rw [this] at ho
    simp [ownsB] at ho

end Lasso.CA
