import LassoModel.ConcArena
import LassoProofs.Lemmas.Arena
/-
  Invariant of the interleaving semantics of `LockfreeArena::store_str` and its preservation by every
  step of every thread, for any number of threads and every schedule, including spurious failures of
  the weak compare-exchanges and exhausted retry budgets.
-/
namespace Lasso.CA
open Lasso
set_option linter.unusedSimpArgs false
set_option linter.unusedVariables false

/-- The claims tile `[0, len)`: most recent first, each non-empty and ending where the next begins. -/
def Tiled : Nat → List Claim → Prop
  | len, [] => len = 0
  | len, c :: rest => c.off + c.n = len ∧ 0 < c.n ∧ Tiled c.off rest

theorem tiled_mem_lt {len : Nat} {cs : List Claim} (h : Tiled len cs) {c : Claim} (hc : c ∈ cs) : c.off + c.n ≤ len ∧ 0 < c.n := by
  induction cs generalizing len with
  | nil => simp at hc
  | cons d rest ih =>
    obtain ⟨h1, h2, h3⟩ := h
    simp only [List.mem_cons] at hc
    rcases hc with rfl | hc
    · exact ⟨by omega, h2⟩
    · have := ih h3 hc
      exact ⟨by omega, this.2⟩

/-- Two different claims of a tiled block never overlap. -/
theorem tiled_disjoint {len : Nat} {cs : List Claim} (h : Tiled len cs) {c d : Claim} (hc : c ∈ cs) (hd : d ∈ cs) :
    c = d ∨ c.off + c.n ≤ d.off ∨ d.off + d.n ≤ c.off := by
  induction cs generalizing len with
  | nil => simp at hc
  | cons e rest ih =>
    obtain ⟨h1, h2, h3⟩ := h
    simp only [List.mem_cons] at hc hd
    rcases hc with rfl | hc <;> rcases hd with rfl | hd
    · exact Or.inl rfl
    · right; right; have := tiled_mem_lt h3 hd; omega
    · right; left; have := tiled_mem_lt h3 hc; omega
    · exact ih h3 hc hd

theorem tiled_off_unique {len : Nat} {cs : List Claim} (h : Tiled len cs) {c d : Claim} (hc : c ∈ cs) (hd : d ∈ cs)
    (ho : c.off = d.off) : c = d := by
  rcases tiled_disjoint h hc hd with h1 | h1 | h1
  · exact h1
  · have := (tiled_mem_lt h hc).2; omega
  · have := (tiled_mem_lt h hd).2; omega

theorem fillClaim_cons (c : Claim) (rest : List Claim) (off : Nat) (x : Bytes) :
    fillClaim (c :: rest) off x = (if c.off = off then { c with data := some x } else c) :: fillClaim rest off x := rfl

theorem tiled_fill {len : Nat} {cs : List Claim} (h : Tiled len cs) (off : Nat) (x : Bytes) : Tiled len (fillClaim cs off x) := by
  induction cs generalizing len with
  | nil => exact h
  | cons c rest ih =>
    obtain ⟨h1, h2, h3⟩ := h
    rw [fillClaim_cons]
    by_cases hc : c.off = off
    · simp only [hc, ↓reduceIte]
      refine ⟨by simp only; omega, h2, ?_⟩
      have := ih h3
      simp only [hc] at this
      exact this
    · simp only [hc, ↓reduceIte]; exact ⟨h1, h2, ih h3⟩

def copies : APC → Option (Bytes × Nat × Nat)
  | .copy x b off => some (x, b, off)
  | _ => none

def ownsB : APC → Option (Bytes × ABucket)
  | .storeCap x nb _ => some (x, nb)
  | .pushLoad x nb => some (x, nb)
  | .pushCas x nb _ => some (x, nb)
  | _ => none

def sawMax : APC → Option Nat
  | .allocUpd _ _ mx _ => some mx
  | _ => none

def casB : APC → Option (Bytes × Nat × Nat)
  | .cas x b seen _ => some (x, b, seen)
  | _ => none

def reqOf : APC → Option (Bytes × Nat)
  | .growUsage x next => some (x, next)
  | .growMax x next _ => some (x, next)
  | .allocMax x req _ => some (x, req)
  | .allocUpd x req _ _ => some (x, req)
  | _ => none

def strOf : APC → Option Bytes
  | .idle => none
  | .walk x _ => some x
  | .loadLen x _ => some x
  | .cas x _ _ _ => some x
  | .copy x _ _ => some x
  | .growCap x => some x
  | .growUsage x _ => some x
  | .growMax x _ _ => some x
  | .allocMax x _ _ => some x
  | .allocUpd x _ _ _ => some x
  | .storeCap x _ _ => some x
  | .pushLoad x _ => some x
  | .pushCas x _ _ => some x

theorem getElem?_set_iff {ts : List AThread} {t u : Nat} {new th : AThread} :
    (ts.set t new)[u]? = some th ↔ (u = t ∧ th = new ∧ t < ts.length) ∨ (u ≠ t ∧ ts[u]? = some th) := by
  by_cases h : u = t
  · subst h
    by_cases hl : u < ts.length
    · simp [List.getElem?_set_self hl, hl]; exact eq_comm
    · simp [hl, List.getElem?_eq_none (by simp; omega : (ts.set u new).length ≤ u)]
  · simp [h, List.getElem?_set_ne (Ne.symm h)]

/-- What a logged result says: the string sits, completely copied, in the claim it was given. -/
def logged (s : AS) (e : Nat × Bytes × ARes) : Prop :=
  match e.2.2 with
  | .ok bid off => ∃ bk ∈ s.buckets, bk.id = bid ∧ ({ off := off, n := e.2.1.length, data := some e.2.1 } : Claim) ∈ bk.claims
  | _ => True

/-- Facts about one thread's program counter relative to the shared state. -/
structure PcOk (s : AS) (pc : APC) : Prop where
  copyClaim : ∀ (x : Bytes) (b off : Nat), copies pc = some (x, b, off) →
    ∃ bk ∈ s.buckets, bk.id = b ∧ ({ off := off, n := x.length, data := none } : Claim) ∈ bk.claims
  ownOk : ∀ (x : Bytes) (nb : ABucket), ownsB pc = some (x, nb) →
    nb.id < s.nextId ∧ nb.len ≤ nb.cap ∧ Tiled nb.len nb.claims ∧ (∀ b ∈ s.buckets, b.id ≠ nb.id) ∧
    (∀ c ∈ nb.claims, c.data ≠ none) ∧ ({ off := 0, n := x.length, data := some x } : Claim) ∈ nb.claims
  mxSeen : ∀ (mx : Nat), sawMax pc = some mx → mx ≤ s.hi
  casOk : ∀ (x : Bytes) (b seen : Nat), casB pc = some (x, b, seen) → ∀ bk ∈ s.buckets, bk.id = b → seen + x.length ≤ bk.cap
  casIn : ∀ (x : Bytes) (b seen : Nat), casB pc = some (x, b, seen) → ∃ bk ∈ s.buckets, bk.id = b
  reqOk : ∀ (x : Bytes) (req : Nat), reqOf pc = some (x, req) → x.length ≤ req
  strPos : ∀ (x : Bytes), strOf pc = some x → 0 < x.length

structure AInv (cap0 : Nat) (s : AS) : Prop where
  fit : ∀ b ∈ s.buckets, b.len ≤ b.cap
  tiled : ∀ b ∈ s.buckets, Tiled b.len b.claims
  ids : (s.buckets.map (·.id)).Nodup
  fresh : ∀ b ∈ s.buckets, b.id < s.nextId
  pcOk : ∀ (t : Nat) (th : AThread), s.ts[t]? = some th → PcOk s th.pc
  copyDis : ∀ (t u : Nat) (p q : AThread) (x y : Bytes) (b off : Nat), t ≠ u → s.ts[t]? = some p → s.ts[u]? = some q →
    copies p.pc = some (x, b, off) → copies q.pc = some (y, b, off) → False
  unfilled : ∀ b ∈ s.buckets, ∀ c ∈ b.claims, c.data = none →
    ∃ (t : Nat) (th : AThread) (x : Bytes), s.ts[t]? = some th ∧ copies th.pc = some (x, b.id, c.off)
  ownDis : ∀ (t u : Nat) (p q : AThread) (x y : Bytes) (a b : ABucket), t ≠ u → s.ts[t]? = some p → s.ts[u]? = some q →
    ownsB p.pc = some (x, a) → ownsB q.pc = some (y, b) → a.id ≠ b.id
  capOk : s.usage ≤ Nat.max cap0 s.hi
  maxLe : s.max ≤ s.hi
  logOk : ∀ e ∈ s.log, logged s e

theorem pcOk_idle (s : AS) : PcOk s .idle := by
  constructor <;> intros <;> simp_all [copies, ownsB, sawMax, casB, reqOf, strOf]

theorem init_pc {cap max : Nat} {programs : List (List Bytes)} {t : Nat} {th : AThread}
    (h : (init cap max programs).ts[t]? = some th) : th.pc = .idle := by
  simp only [init, List.getElem?_map, Option.map_eq_some_iff] at h
  obtain ⟨p, _, rfl⟩ := h
  rfl

theorem init_inv (cap max : Nat) (programs : List (List Bytes)) : AInv cap (init cap max programs) := by
  constructor
  · intro b hb; simp [init] at hb; subst hb; simp
  · intro b hb; simp [init] at hb; subst hb; simp [Tiled]
  · simp [init]
  · intro b hb; simp [init] at hb; subst hb; simp [init]
  · intro t th h; rw [init_pc h]; exact pcOk_idle _
  · intro t u p q x y b off _ hp _ hc _; rw [init_pc hp] at hc; simp [copies] at hc
  · intro b hb c hc; simp [init] at hb; subst hb; simp at hc
  · intro t u p q x y a b _ hp _ ha _; rw [init_pc hp] at ha; simp [ownsB] at ha
  · simp [init]; exact Nat.le_max_left _ _
  · simp [init]
  · intro e he; simp [init] at he

theorem logged_mono {s s' : AS} (e : Nat × Bytes × ARes)
    (hm : ∀ (bid : Nat) (c : Claim), c.data ≠ none → (∃ bk ∈ s.buckets, bk.id = bid ∧ c ∈ bk.claims) → (∃ bk ∈ s'.buckets, bk.id = bid ∧ c ∈ bk.claims))
    (h : logged s e) : logged s' e := by
  unfold logged at *
  split
  · next bid off heq =>
    rw [heq] at h
    exact hm bid _ (by simp) h
  · trivial

/-- `PcOk` only depends on the blocks, the id counter and the limit. -/
theorem pcOk_congr {s s' : AS} {pc : APC} (h : PcOk s pc) (hb : s'.buckets = s.buckets) (hn : s'.nextId = s.nextId)
    (hm : s'.hi = s.hi) : PcOk s' pc := by
  obtain ⟨a, b, c, d, d', e, f⟩ := h
  constructor
  · intro x bb off hc; rw [hb]; exact a x bb off hc
  · intro x nb ho; rw [hb, hn]; exact b x nb ho
  · intro mx hs; rw [hm]; exact c mx hs
  · intro x bb seen hc; rw [hb]; exact d x bb seen hc
  · intro x bb seen hc; rw [hb]; exact d' x bb seen hc
  · exact e
  · exact f

/-- A step that changes only thread `t`'s pc (and possibly the log by a non-`ok` entry, and the block
capacity), between pcs that neither hold a reservation nor own a block. -/
theorem inv_neutral {cap0 : Nat} {s : AS} (h : AInv cap0 s) (t : Nat) (th new : AThread) (ht : s.ts[t]? = some th)
    (ho : copies th.pc = none ∧ ownsB th.pc = none) (hn : copies new.pc = none ∧ ownsB new.pc = none)
    (hpc : PcOk s new.pc)
    (lg : List (Nat × Bytes × ARes)) (hlg : ∀ e ∈ lg, e ∈ s.log ∨ (∀ (b o : Nat), e.2.2 ≠ ARes.ok b o)) (bc : Nat) :
    AInv cap0 { s with ts := s.ts.set t new, log := lg, bucketCap := bc } := by
  obtain ⟨h1, h2, h3, h4, h5, h6, h7, h9, h11, h11b, h12⟩ := h
  constructor
  · exact h1
  · exact h2
  · exact h3
  · exact h4
  · intro u thu hu
    rw [getElem?_set_iff] at hu
    rcases hu with ⟨rfl, rfl, _⟩ | ⟨_, hu⟩
    · exact pcOk_congr hpc rfl rfl rfl
    · exact pcOk_congr (h5 u thu hu) rfl rfl rfl
  · intro u v p q x y b off huv hu hv hp hq
    rw [getElem?_set_iff] at hu hv
    rcases hu with ⟨rfl, rfl, _⟩ | ⟨_, hu⟩
    · rw [hn.1] at hp; simp at hp
    · rcases hv with ⟨rfl, rfl, _⟩ | ⟨_, hv⟩
      · rw [hn.1] at hq; simp at hq
      · exact h6 u v p q x y b off huv hu hv hp hq
  · intro b hb c hc hd
    obtain ⟨u, thu, x, hu, hcu⟩ := h7 b hb c hc hd
    have hut : u ≠ t := by
      intro e; subst e; rw [ht] at hu; injection hu with hu; subst hu; rw [ho.1] at hcu; simp at hcu
    exact ⟨u, thu, x, by rw [getElem?_set_iff]; exact Or.inr ⟨hut, hu⟩, hcu⟩
  · intro u v p q x y a b huv hu hv hp hq
    rw [getElem?_set_iff] at hu hv
    rcases hu with ⟨rfl, rfl, _⟩ | ⟨_, hu⟩
    · rw [hn.2] at hp; simp at hp
    · rcases hv with ⟨rfl, rfl, _⟩ | ⟨_, hv⟩
      · rw [hn.2] at hq; simp at hq
      · exact h9 u v p q x y a b huv hu hv hp hq
  · exact h11
  · exact h11b
  · intro e he
    rcases hlg e he with hold | hnew
    · exact h12 e hold
    · unfold logged; split
      · next b o heq => exact absurd heq (hnew b o)
      · trivial


theorem mem_updB {bs : List ABucket} {id : Nat} {f : ABucket → ABucket} {b' : ABucket} :
    b' ∈ updB bs id f ↔ ∃ b ∈ bs, b' = if b.id = id then f b else b := by
  unfold updB
  simp only [List.mem_map]
  constructor
  · rintro ⟨b, hb, rfl⟩; exact ⟨b, hb, rfl⟩
  · rintro ⟨b, hb, rfl⟩; exact ⟨b, hb, rfl⟩

theorem updB_ids {bs : List ABucket} {id : Nat} {f : ABucket → ABucket} (hf : ∀ b, (f b).id = b.id) :
    (updB bs id f).map (·.id) = bs.map (·.id) := by
  unfold updB
  rw [List.map_map]
  apply List.map_congr_left
  intro b _
  simp only [Function.comp]
  split <;> simp [hf]

theorem findB_some {bs : List ABucket} {id : Nat} {bk : ABucket} (h : findB bs id = some bk) : bk ∈ bs ∧ bk.id = id := by
  unfold findB at h
  exact ⟨List.mem_of_find?_eq_some h, by simpa using List.find?_some h⟩

theorem id_unique {bs : List ABucket} (h : (bs.map (·.id)).Nodup) {a b : ABucket} (ha : a ∈ bs) (hb : b ∈ bs) (he : a.id = b.id) : a = b := by
  induction bs with
  | nil => simp at ha
  | cons c rest ih =>
    simp only [List.map_cons, List.nodup_cons, List.mem_map] at h
    simp only [List.mem_cons] at ha hb
    rcases ha with rfl | ha <;> rcases hb with rfl | hb
    · rfl
    · exact absurd ⟨b, hb, he.symm⟩ h.1
    · exact absurd ⟨a, ha, he⟩ h.1
    · exact ih h.2 ha hb

/-- A successful compare-exchange of a block's length: the thread now holds `[seen, seen+|x|)`. -/
theorem inv_cas {cap0 : Nat} {s : AS} (h : AInv cap0 s) (t : Nat) (th : AThread) (x : Bytes) (b seen tries : Nat)
    (ht : s.ts[t]? = some th) (hpc : th.pc = .cas x b seen tries) (bk : ABucket) (hf : findB s.buckets b = some bk)
    (hlen : bk.len = seen) :
    AInv cap0 { s with ts := s.ts.set t { th with pc := .copy x b seen },
                       buckets := updB s.buckets b fun k => { k with len := seen + x.length, claims := { off := seen, n := x.length, data := none } :: k.claims } } := by
  obtain ⟨h1, h2, h3, h4, h5, h6, h7, h9, h11, h11b, h12⟩ := h
  obtain ⟨hbk, hbid⟩ := findB_some hf
  have hme := h5 t th ht
  have hcap : seen + x.length ≤ bk.cap := hme.casOk x b seen (by rw [hpc]; rfl) bk hbk hbid
  have hpos : 0 < x.length := hme.strPos x (by rw [hpc]; rfl)
  have hlt : t < s.ts.length := (List.getElem?_eq_some_iff.mp ht).1
  have hnotcopy : copies th.pc = none := by rw [hpc]; rfl
  have hnotown : ownsB th.pc = none := by rw [hpc]; rfl
  -- shape of the new block list
  have hshape : ∀ b', b' ∈ updB s.buckets b (fun k => { k with len := seen + x.length, claims := { off := seen, n := x.length, data := none } :: k.claims }) →
      (b' = { bk with len := seen + x.length, claims := { off := seen, n := x.length, data := none } :: bk.claims }) ∨ (b' ∈ s.buckets ∧ b'.id ≠ b) := by
    intro b' hb'
    obtain ⟨b0, hb0, rfl⟩ := mem_updB.mp hb'
    by_cases hid : b0.id = b
    · left
      have : b0 = bk := id_unique h3 hb0 hbk (by rw [hid, hbid])
      subst this; simp [hid]
    · right; simp [hid, hb0]
  have hkeep : ∀ b0 ∈ s.buckets, b0.id ≠ b → b0 ∈ updB s.buckets b (fun k => { k with len := seen + x.length, claims := { off := seen, n := x.length, data := none } :: k.claims }) := by
    intro b0 hb0 hne
    exact mem_updB.mpr ⟨b0, hb0, by simp [hne]⟩
  have hnew : ({ bk with len := seen + x.length, claims := { off := seen, n := x.length, data := none } :: bk.claims } : ABucket) ∈
      updB s.buckets b (fun k => { k with len := seen + x.length, claims := { off := seen, n := x.length, data := none } :: k.claims }) :=
    mem_updB.mpr ⟨bk, hbk, by simp [hbid]⟩
  -- every claim of an old block survives in the block of the same id
  have hclaims : ∀ (bid : Nat) (c : Claim), (∃ b0 ∈ s.buckets, b0.id = bid ∧ c ∈ b0.claims) →
      ∃ b' ∈ updB s.buckets b (fun k => { k with len := seen + x.length, claims := { off := seen, n := x.length, data := none } :: k.claims }), b'.id = bid ∧ c ∈ b'.claims := by
    rintro bid c ⟨b0, hb0, hid, hc⟩
    by_cases hb : b0.id = b
    · have : b0 = bk := id_unique h3 hb0 hbk (by rw [hb, hbid])
      subst this
      exact ⟨_, hnew, by simpa using hid, by simp [hc]⟩
    · exact ⟨b0, hkeep b0 hb0 hb, hid, hc⟩
  constructor
  · intro b' hb'
    rcases hshape b' hb' with rfl | ⟨hm, _⟩
    · simpa using hcap
    · exact h1 b' hm
  · intro b' hb'
    rcases hshape b' hb' with rfl | ⟨hm, _⟩
    · exact ⟨rfl, hpos, by rw [← hlen]; exact h2 bk hbk⟩
    · exact h2 b' hm
  · rw [updB_ids (by intro k; rfl)]; exact h3
  · intro b' hb'
    rcases hshape b' hb' with rfl | ⟨hm, _⟩
    · exact h4 bk hbk
    · exact h4 b' hm
  · intro u thu hu
    rw [getElem?_set_iff] at hu
    rcases hu with ⟨rfl, rfl, _⟩ | ⟨hne, hu⟩
    · constructor
      · intro x' b' off' hc
        simp only [copies, Option.some.injEq, Prod.mk.injEq] at hc
        obtain ⟨rfl, rfl, rfl⟩ := hc
        exact ⟨_, hnew, hbid, by simp⟩
      · intro x' nb ho; simp [ownsB] at ho
      · intro mx hm; simp [sawMax] at hm
      · intro x' b' s' hc; simp [casB] at hc
      · intro x' b' s' hc; simp [casB] at hc
      · intro x' r hr; simp [reqOf] at hr
      · intro x' hs; simp only [strOf, Option.some.injEq] at hs; subst hs; exact hpos
    · have hold := h5 u thu hu
      constructor
      · intro x' b' off' hc
        exact hclaims b' _ (hold.copyClaim x' b' off' hc)
      · intro x' nb ho
        obtain ⟨a1, a2, a3, a4, a5, a6⟩ := hold.ownOk x' nb ho
        refine ⟨a1, a2, a3, ?_, a5, a6⟩
        intro b' hb'
        rcases hshape b' hb' with rfl | ⟨hm, _⟩
        · exact a4 bk hbk
        · exact a4 b' hm
      · exact hold.mxSeen
      · intro x' b' s' hc b'' hb'' hid
        rcases hshape b'' hb'' with rfl | ⟨hm, _⟩
        · exact hold.casOk x' b' s' hc bk hbk (by simpa using hid)
        · exact hold.casOk x' b' s' hc b'' hm hid
      · intro x' b' s' hc
        obtain ⟨k, hk, hkid⟩ := hold.casIn x' b' s' hc
        exact ⟨_, mem_updB.mpr ⟨k, hk, rfl⟩, by split <;> simpa using hkid⟩
      · exact hold.reqOk
      · exact hold.strPos
  · intro u v p q x' y' b' off' huv hu hv hp hq
    rw [getElem?_set_iff] at hu hv
    -- an old reservation in block b lies below `seen`
    have hbelow : ∀ (w : Nat) (thw : AThread) (z : Bytes) (o : Nat), s.ts[w]? = some thw → copies thw.pc = some (z, b, o) → o < seen := by
      intro w thw z o hw hc
      obtain ⟨b0, hb0, hid, hcl⟩ := (h5 w thw hw).copyClaim z b o hc
      have : b0 = bk := id_unique h3 hb0 hbk (by rw [hid, hbid])
      subst this
      have := tiled_mem_lt (h2 b0 hbk) hcl
      have hz := (h5 w thw hw).strPos z (by cases hpcw : thw.pc <;> simp_all [copies, strOf])
      simp at this; omega
    rcases hu with ⟨rfl, rfl, _⟩ | ⟨hune, hu⟩ <;> rcases hv with ⟨rfl, rfl, _⟩ | ⟨hvne, hv⟩
    · exact huv rfl
    · simp only [copies, Option.some.injEq, Prod.mk.injEq] at hp
      obtain ⟨rfl, rfl, rfl⟩ := hp
      have := hbelow v q y' _ hv hq
      omega
    · simp only [copies, Option.some.injEq, Prod.mk.injEq] at hq
      obtain ⟨rfl, rfl, rfl⟩ := hq
      have := hbelow u p x' _ hu hp
      omega
    · exact h6 u v p q x' y' b' off' huv hu hv hp hq
  · intro b' hb' c hc hd
    rcases hshape b' hb' with rfl | ⟨hm, hne⟩
    · simp only [List.mem_cons] at hc
      rcases hc with rfl | hc
      · exact ⟨t, _, x, by rw [getElem?_set_iff]; exact Or.inl ⟨rfl, rfl, hlt⟩, by simp [copies, hbid]⟩
      · obtain ⟨u, thu, z, hu, hcu⟩ := h7 bk hbk c hc hd
        have hut : u ≠ t := by
          intro e; subst e; rw [ht] at hu; injection hu with hu; subst hu; rw [hnotcopy] at hcu; simp at hcu
        exact ⟨u, thu, z, by rw [getElem?_set_iff]; exact Or.inr ⟨hut, hu⟩, by simpa using hcu⟩
    · obtain ⟨u, thu, z, hu, hcu⟩ := h7 b' hm c hc hd
      have hut : u ≠ t := by
        intro e; subst e; rw [ht] at hu; injection hu with hu; subst hu; rw [hnotcopy] at hcu; simp at hcu
      exact ⟨u, thu, z, by rw [getElem?_set_iff]; exact Or.inr ⟨hut, hu⟩, hcu⟩
  · intro u v p q x' y' a' b' huv hu hv hp hq
    rw [getElem?_set_iff] at hu hv
    rcases hu with ⟨rfl, rfl, _⟩ | ⟨_, hu⟩
    · simp [ownsB] at hp
    · rcases hv with ⟨rfl, rfl, _⟩ | ⟨_, hv⟩
      · simp [ownsB] at hq
      · exact h9 u v p q x' y' a' b' huv hu hv hp hq
  · exact h11
  · exact h11b
  · intro e he
    exact logged_mono e (fun bid c _ hex => hclaims bid c hex) (h12 e he)


theorem mem_fillClaim {cs : List Claim} {off : Nat} {x : Bytes} {c : Claim} :
    c ∈ fillClaim cs off x ↔ ∃ c0 ∈ cs, c = if c0.off = off then { c0 with data := some x } else c0 := by
  unfold fillClaim
  simp only [List.mem_map]
  constructor
  · rintro ⟨c0, h0, rfl⟩; exact ⟨c0, h0, rfl⟩
  · rintro ⟨c0, h0, rfl⟩; exact ⟨c0, h0, rfl⟩

/-- The copy into the reserved range, and the return of the reference. -/
theorem inv_copy {cap0 : Nat} {s : AS} (h : AInv cap0 s) (t : Nat) (th new : AThread) (x : Bytes) (b off : Nat)
    (ht : s.ts[t]? = some th) (hpc : th.pc = .copy x b off) (hnew : new.pc = .idle) :
    AInv cap0 { s with ts := s.ts.set t new, log := (t, x, .ok b off) :: s.log,
                       buckets := updB s.buckets b fun k => { k with claims := fillClaim k.claims off x } } := by
  obtain ⟨h1, h2, h3, h4, h5, h6, h7, h9, h11, h11b, h12⟩ := h
  have hme := h5 t th ht
  obtain ⟨bk, hbk, hbid, hmine⟩ := hme.copyClaim x b off (by rw [hpc]; rfl)
  have hlt : t < s.ts.length := (List.getElem?_eq_some_iff.mp ht).1
  have hshape : ∀ b', b' ∈ updB s.buckets b (fun k => { k with claims := fillClaim k.claims off x }) →
      (b' = { bk with claims := fillClaim bk.claims off x }) ∨ (b' ∈ s.buckets ∧ b'.id ≠ b) := by
    intro b' hb'
    obtain ⟨b0, hb0, rfl⟩ := mem_updB.mp hb'
    by_cases hid : b0.id = b
    · left
      have : b0 = bk := id_unique h3 hb0 hbk (by rw [hid, hbid])
      subst this; simp [hid]
    · right; simp [hid, hb0]
  have hnewb : ({ bk with claims := fillClaim bk.claims off x } : ABucket) ∈
      updB s.buckets b (fun k => { k with claims := fillClaim k.claims off x }) :=
    mem_updB.mpr ⟨bk, hbk, by simp [hbid]⟩
  have hkeep : ∀ b0 ∈ s.buckets, b0.id ≠ b → b0 ∈ updB s.buckets b (fun k => { k with claims := fillClaim k.claims off x }) :=
    fun b0 hb0 hne => mem_updB.mpr ⟨b0, hb0, by simp [hne]⟩
  -- a claim with another offset, or an already filled one, survives unchanged
  have hsurvive : ∀ (bid : Nat) (c : Claim), (c.off ≠ off ∨ bid ≠ b) → (∃ b0 ∈ s.buckets, b0.id = bid ∧ c ∈ b0.claims) →
      ∃ b' ∈ updB s.buckets b (fun k => { k with claims := fillClaim k.claims off x }), b'.id = bid ∧ c ∈ b'.claims := by
    rintro bid c hne ⟨b0, hb0, hid, hc⟩
    by_cases hb : b0.id = b
    · have : b0 = bk := id_unique h3 hb0 hbk (by rw [hb, hbid])
      subst this
      refine ⟨_, hnewb, by simpa using hid, ?_⟩
      simp only
      rw [mem_fillClaim]
      refine ⟨c, hc, ?_⟩
      have : c.off ≠ off := by
        rcases hne with h | h
        · exact h
        · exact absurd (hid.symm.trans hb) h
      simp [this]
    · exact ⟨b0, hkeep b0 hb0 hb, hid, hc⟩
  constructor
  · intro b' hb'
    rcases hshape b' hb' with rfl | ⟨hm, _⟩
    · exact h1 bk hbk
    · exact h1 b' hm
  · intro b' hb'
    rcases hshape b' hb' with rfl | ⟨hm, _⟩
    · exact tiled_fill (h2 bk hbk) off x
    · exact h2 b' hm
  · rw [updB_ids (by intro k; rfl)]; exact h3
  · intro b' hb'
    rcases hshape b' hb' with rfl | ⟨hm, _⟩
    · exact h4 bk hbk
    · exact h4 b' hm
  · intro u thu hu
    rw [getElem?_set_iff] at hu
    rcases hu with ⟨rfl, rfl, _⟩ | ⟨hne, hu⟩
    · rw [hnew]; exact pcOk_idle _
    · have hold := h5 u thu hu
      constructor
      · intro x' b' off' hc
        refine hsurvive b' _ ?_ (hold.copyClaim x' b' off' hc)
        by_cases hbb : b' = b
        · left
          subst hbb
          intro heq
          simp only at heq
          subst heq
          exact h6 u t thu th x' x b' off' hne hu ht hc (by rw [hpc]; rfl)
        · right; exact hbb
      · intro x' nb ho
        obtain ⟨a1, a2, a3, a4, a5, a6⟩ := hold.ownOk x' nb ho
        refine ⟨a1, a2, a3, ?_, a5, a6⟩
        intro b' hb'
        rcases hshape b' hb' with rfl | ⟨hm, _⟩
        · exact a4 bk hbk
        · exact a4 b' hm
      · exact hold.mxSeen
      · intro x' b' s' hc b'' hb'' hid
        rcases hshape b'' hb'' with rfl | ⟨hm, _⟩
        · exact hold.casOk x' b' s' hc bk hbk (by simpa using hid)
        · exact hold.casOk x' b' s' hc b'' hm hid
      · intro x' b' s' hc
        obtain ⟨k, hk, hkid⟩ := hold.casIn x' b' s' hc
        exact ⟨_, mem_updB.mpr ⟨k, hk, rfl⟩, by split <;> simpa using hkid⟩
      · exact hold.reqOk
      · exact hold.strPos
  · intro u v p q x' y' b' off' huv hu hv hp hq
    rw [getElem?_set_iff] at hu hv
    rcases hu with ⟨rfl, rfl, _⟩ | ⟨_, hu⟩
    · rw [hnew] at hp; simp [copies] at hp
    · rcases hv with ⟨rfl, rfl, _⟩ | ⟨_, hv⟩
      · rw [hnew] at hq; simp [copies] at hq
      · exact h6 u v p q x' y' b' off' huv hu hv hp hq
  · intro b' hb' c hc hd
    rcases hshape b' hb' with rfl | ⟨hm, hne⟩
    · simp only at hc
      rw [mem_fillClaim] at hc
      obtain ⟨c0, hc0, rfl⟩ := hc
      by_cases hco : c0.off = off
      · simp [hco] at hd
      · simp only [hco, ↓reduceIte] at hd ⊢
        obtain ⟨u, thu, z, hu, hcu⟩ := h7 bk hbk c0 hc0 hd
        have hut : u ≠ t := by
          intro e; subst e; rw [ht] at hu; injection hu with hu; subst hu
          rw [hpc] at hcu; simp only [copies, Option.some.injEq, Prod.mk.injEq] at hcu
          exact hco hcu.2.2.symm
        exact ⟨u, thu, z, by rw [getElem?_set_iff]; exact Or.inr ⟨hut, hu⟩, by simpa using hcu⟩
    · obtain ⟨u, thu, z, hu, hcu⟩ := h7 b' hm c hc hd
      have hut : u ≠ t := by
        intro e; subst e; rw [ht] at hu; injection hu with hu; subst hu
        rw [hpc] at hcu; simp only [copies, Option.some.injEq, Prod.mk.injEq] at hcu
        exact hne hcu.2.1.symm
      exact ⟨u, thu, z, by rw [getElem?_set_iff]; exact Or.inr ⟨hut, hu⟩, hcu⟩
  · intro u v p q x' y' a' b' huv hu hv hp hq
    rw [getElem?_set_iff] at hu hv
    rcases hu with ⟨rfl, rfl, _⟩ | ⟨_, hu⟩
    · rw [hnew] at hp; simp [ownsB] at hp
    · rcases hv with ⟨rfl, rfl, _⟩ | ⟨_, hv⟩
      · rw [hnew] at hq; simp [ownsB] at hq
      · exact h9 u v p q x' y' a' b' huv hu hv hp hq
  · exact h11
  · exact h11b
  · intro e he
    simp only [List.mem_cons] at he
    rcases he with rfl | he
    · -- the new entry: the claim is now filled with exactly `x`
      unfold logged
      simp only
      refine ⟨_, hnewb, hbid, ?_⟩
      simp only
      rw [mem_fillClaim]
      exact ⟨_, hmine, by simp⟩
    · -- an older entry: its (filled) claim is not the one being filled now
      have hold := h12 e he
      unfold logged at hold ⊢
      split
      · next bid o heq =>
        rw [heq] at hold
        obtain ⟨b0, hb0, hid, hc⟩ := hold
        refine hsurvive bid _ ?_ ⟨b0, hb0, hid, hc⟩
        by_cases hbb : bid = b
        · left
          subst hbb
          intro ho
          simp only at ho
          have hb0k : b0 = bk := id_unique h3 hb0 hbk (by rw [hid, hbid])
          subst hb0k
          have := tiled_off_unique (h2 b0 hbk) hc hmine (by simpa using ho)
          simp at this
        · right; exact hbb
      · trivial


theorem pcOk_weaken {s s' : AS} {pc : APC} (h : PcOk s pc) (hb : s'.buckets = s.buckets) (hn : s.nextId ≤ s'.nextId)
    (hm : s'.hi = s.hi) : PcOk s' pc := by
  obtain ⟨a, b, c, d, d', e, f⟩ := h
  constructor
  · intro x bb off hc; rw [hb]; exact a x bb off hc
  · intro x nb ho
    obtain ⟨a1, a2, a3, a4, a5, a6⟩ := b x nb ho
    exact ⟨by omega, a2, a3, by rw [hb]; exact a4, a5, a6⟩
  · intro mx hs; rw [hm]; exact c mx hs
  · intro x bb seen hc; rw [hb]; exact d x bb seen hc
  · intro x bb seen hc; rw [hb]; exact d' x bb seen hc
  · exact e
  · exact f

/-- `allocate_memory` succeeded: the budget is claimed, the thread owns a fresh block holding `x`. -/
theorem inv_alloc {cap0 : Nat} {s : AS} (h : AInv cap0 s) (t : Nat) (th : AThread) (x : Bytes) (req mx : Nat) (k : GKind)
    (ht : s.ts[t]? = some th) (hpc : th.pc = .allocUpd x req mx k) (hfit : ¬ s.usage + req > mx) (newpc : APC)
    (hown : ownsB newpc = some (x, freshB s.nextId req x)) (hcp : copies newpc = none) (hsm : sawMax newpc = none)
    (hcb : casB newpc = none) (hrq : reqOf newpc = none) (hst : strOf newpc = some x) :
    AInv cap0 { s with usage := s.usage + req, nextId := s.nextId + 1, ts := s.ts.set t { th with pc := newpc } } := by
  obtain ⟨h1, h2, h3, h4, h5, h6, h7, h9, h11, h11b, h12⟩ := h
  have hme := h5 t th ht
  have hmx : mx ≤ s.hi := hme.mxSeen mx (by rw [hpc]; rfl)
  have hreq : x.length ≤ req := hme.reqOk x req (by rw [hpc]; rfl)
  have hpos : 0 < x.length := hme.strPos x (by rw [hpc]; rfl)
  have hnotown : ownsB th.pc = none := by rw [hpc]; rfl
  have hnotcopy : copies th.pc = none := by rw [hpc]; rfl
  constructor
  · exact h1
  · exact h2
  · exact h3
  · intro b hb; have := h4 b hb; simp only; omega
  · intro u thu hu
    rw [getElem?_set_iff] at hu
    rcases hu with ⟨rfl, rfl, _⟩ | ⟨hne, hu⟩
    · constructor
      · intro x' b' off' hc; simp only at hc; rw [hcp] at hc; simp at hc
      · intro x' nb ho
        simp only at ho
        rw [hown] at ho
        simp only [Option.some.injEq, Prod.mk.injEq] at ho
        obtain ⟨rfl, rfl⟩ := ho
        refine ⟨by simp [freshB], by simpa [freshB] using hreq, ?_, ?_, ?_, ?_⟩
        · simp only [freshB, Tiled]; exact ⟨by simp, hpos, trivial⟩
        · intro b hb; have := h4 b hb; simp only [freshB]; omega
        · intro c hc; simp [freshB] at hc; subst hc; simp
        · simp [freshB]
      · intro m hm; simp only at hm; rw [hsm] at hm; simp at hm
      · intro x' b' s' hc; simp only at hc; rw [hcb] at hc; simp at hc
      · intro x' b' s' hc; simp only at hc; rw [hcb] at hc; simp at hc
      · intro x' r hr; simp only at hr; rw [hrq] at hr; simp at hr
      · intro x' hs; simp only at hs; rw [hst] at hs; injection hs with hs; subst hs; exact hpos
    · exact pcOk_weaken (h5 u thu hu) rfl (by simp) rfl
  · intro u v p q x' y' b' off' huv hu hv hp hq
    rw [getElem?_set_iff] at hu hv
    rcases hu with ⟨rfl, rfl, _⟩ | ⟨_, hu⟩
    · simp only at hp; rw [hcp] at hp; simp at hp
    · rcases hv with ⟨rfl, rfl, _⟩ | ⟨_, hv⟩
      · simp only at hq; rw [hcp] at hq; simp at hq
      · exact h6 u v p q x' y' b' off' huv hu hv hp hq
  · intro b hb c hc hd
    obtain ⟨u, thu, z, hu, hcu⟩ := h7 b hb c hc hd
    have hut : u ≠ t := by
      intro e; subst e; rw [ht] at hu; injection hu with hu; subst hu; rw [hnotcopy] at hcu; simp at hcu
    exact ⟨u, thu, z, by rw [getElem?_set_iff]; exact Or.inr ⟨hut, hu⟩, hcu⟩
  · intro u v p q x' y' a' b' huv hu hv hp hq
    rw [getElem?_set_iff] at hu hv
    rcases hu with ⟨rfl, rfl, _⟩ | ⟨hune, hu⟩ <;> rcases hv with ⟨rfl, rfl, _⟩ | ⟨hvne, hv⟩
    · exact absurd rfl huv
    · simp only at hp; rw [hown] at hp
      simp only [Option.some.injEq, Prod.mk.injEq] at hp
      obtain ⟨_, rfl⟩ := hp
      have := ((h5 v q hv).ownOk y' b' hq).1
      simp only [freshB]; omega
    · simp only at hq; rw [hown] at hq
      simp only [Option.some.injEq, Prod.mk.injEq] at hq
      obtain ⟨_, rfl⟩ := hq
      have := ((h5 u p hu).ownOk x' a' hp).1
      simp only [freshB]; omega
    · exact h9 u v p q x' y' a' b' huv hu hv hp hq
  · simp only
    have : s.usage + req ≤ s.hi := by omega
    exact Nat.le_trans this (Nat.le_max_right _ _)
  · exact h11b
  · exact h12

/-- A pc change that keeps the owned block (capacity store, head load, failed head exchange). -/
theorem inv_keep_owned {cap0 : Nat} {s : AS} (h : AInv cap0 s) (t : Nat) (th : AThread) (x : Bytes) (nb : ABucket)
    (ht : s.ts[t]? = some th) (hold : ownsB th.pc = some (x, nb)) (newpc : APC)
    (hown : ownsB newpc = some (x, nb)) (hcp : copies newpc = none) (hsm : sawMax newpc = none)
    (hcb : casB newpc = none) (hrq : reqOf newpc = none) (hst : strOf newpc = some x) (bc : Nat) :
    AInv cap0 { s with ts := s.ts.set t { th with pc := newpc }, bucketCap := bc } := by
  obtain ⟨h1, h2, h3, h4, h5, h6, h7, h9, h11, h11b, h12⟩ := h
  have hme := h5 t th ht
  have hnotcopy : copies th.pc = none := by
    cases hp : th.pc <;> simp_all [copies, ownsB]
  have hpos : 0 < x.length := hme.strPos x (by cases hp : th.pc <;> simp_all [strOf, ownsB])
  constructor
  · exact h1
  · exact h2
  · exact h3
  · exact h4
  · intro u thu hu
    rw [getElem?_set_iff] at hu
    rcases hu with ⟨rfl, rfl, _⟩ | ⟨hne, hu⟩
    · constructor
      · intro x' b' off' hc; simp only at hc; rw [hcp] at hc; simp at hc
      · intro x' nb' ho
        simp only at ho
        rw [hown] at ho
        simp only [Option.some.injEq, Prod.mk.injEq] at ho
        obtain ⟨rfl, rfl⟩ := ho
        exact hme.ownOk x nb hold
      · intro m hm; simp only at hm; rw [hsm] at hm; simp at hm
      · intro x' b' s' hc; simp only at hc; rw [hcb] at hc; simp at hc
      · intro x' b' s' hc; simp only at hc; rw [hcb] at hc; simp at hc
      · intro x' r hr; simp only at hr; rw [hrq] at hr; simp at hr
      · intro x' hs; simp only at hs; rw [hst] at hs; injection hs with hs; subst hs; exact hpos
    · exact pcOk_congr (h5 u thu hu) rfl rfl rfl
  · intro u v p q x' y' b' off' huv hu hv hp hq
    rw [getElem?_set_iff] at hu hv
    rcases hu with ⟨rfl, rfl, _⟩ | ⟨_, hu⟩
    · simp only at hp; rw [hcp] at hp; simp at hp
    · rcases hv with ⟨rfl, rfl, _⟩ | ⟨_, hv⟩
      · simp only at hq; rw [hcp] at hq; simp at hq
      · exact h6 u v p q x' y' b' off' huv hu hv hp hq
  · intro b hb c hc hd
    obtain ⟨u, thu, z, hu, hcu⟩ := h7 b hb c hc hd
    have hut : u ≠ t := by
      intro e; subst e; rw [ht] at hu; injection hu with hu; subst hu; rw [hnotcopy] at hcu; simp at hcu
    exact ⟨u, thu, z, by rw [getElem?_set_iff]; exact Or.inr ⟨hut, hu⟩, hcu⟩
  · intro u v p q x' y' a' b' huv hu hv hp hq
    rw [getElem?_set_iff] at hu hv
    rcases hu with ⟨rfl, rfl, _⟩ | ⟨hune, hu⟩ <;> rcases hv with ⟨rfl, rfl, _⟩ | ⟨hvne, hv⟩
    · exact absurd rfl huv
    · simp only at hp; rw [hown] at hp
      simp only [Option.some.injEq, Prod.mk.injEq] at hp
      obtain ⟨rfl, rfl⟩ := hp
      exact h9 u v th q x y' nb b' huv ht hv hold hq
    · simp only at hq; rw [hown] at hq
      simp only [Option.some.injEq, Prod.mk.injEq] at hq
      obtain ⟨rfl, rfl⟩ := hq
      exact h9 u v p th x' x a' nb huv hu ht hp hold
    · exact h9 u v p q x' y' a' b' huv hu hv hp hq
  · exact h11
  · exact h11b
  · exact h12

/-- The head exchange succeeded: the owned block is published at the head of the list. -/
theorem inv_push {cap0 : Nat} {s : AS} (h : AInv cap0 s) (t : Nat) (th new : AThread) (x : Bytes) (nb : ABucket)
    (ht : s.ts[t]? = some th) (hold : ownsB th.pc = some (x, nb)) (hnew : new.pc = .idle) :
    AInv cap0 { s with ts := s.ts.set t new, log := (t, x, .ok nb.id 0) :: s.log, buckets := nb :: s.buckets } := by
  obtain ⟨h1, h2, h3, h4, h5, h6, h7, h9, h11, h11b, h12⟩ := h
  have hme := h5 t th ht
  obtain ⟨o1, o2, o3, o4, o5, o6⟩ := hme.ownOk x nb hold
  have hnotcopy : copies th.pc = none := by
    cases hp : th.pc <;> simp_all [copies, ownsB]
  constructor
  · intro b hb; simp only [List.mem_cons] at hb; rcases hb with rfl | hb
    · exact o2
    · exact h1 b hb
  · intro b hb; simp only [List.mem_cons] at hb; rcases hb with rfl | hb
    · exact o3
    · exact h2 b hb
  · simp only [List.map_cons, List.nodup_cons, List.mem_map]
    refine ⟨?_, h3⟩
    rintro ⟨b, hb, hid⟩
    exact o4 b hb hid
  · intro b hb; simp only [List.mem_cons] at hb; rcases hb with rfl | hb
    · exact o1
    · exact h4 b hb
  · intro u thu hu
    rw [getElem?_set_iff] at hu
    rcases hu with ⟨rfl, rfl, _⟩ | ⟨hne, hu⟩
    · rw [hnew]; exact pcOk_idle _
    · have hou := h5 u thu hu
      constructor
      · intro x' b' off' hc
        obtain ⟨bk, hbk, hid, hcl⟩ := hou.copyClaim x' b' off' hc
        exact ⟨bk, List.mem_cons_of_mem _ hbk, hid, hcl⟩
      · intro x' nb' ho
        obtain ⟨a1, a2, a3, a4, a5, a6⟩ := hou.ownOk x' nb' ho
        refine ⟨a1, a2, a3, ?_, a5, a6⟩
        intro b hb
        simp only [List.mem_cons] at hb
        rcases hb with rfl | hb
        · exact h9 t u th thu x x' b nb' (Ne.symm hne) ht hu hold ho
        · exact a4 b hb
      · exact hou.mxSeen
      · intro x' b' s' hc b'' hb'' hid
        simp only [List.mem_cons] at hb''
        rcases hb'' with rfl | hb''
        · obtain ⟨k, hk, hkid⟩ := hou.casIn x' b' s' hc
          exact absurd (hkid.trans hid.symm) (o4 k hk)
        · exact hou.casOk x' b' s' hc b'' hb'' hid
      · intro x' b' s' hc
        obtain ⟨k, hk, hkid⟩ := hou.casIn x' b' s' hc
        exact ⟨k, List.mem_cons_of_mem _ hk, hkid⟩
      · exact hou.reqOk
      · exact hou.strPos
  · intro u v p q x' y' b' off' huv hu hv hp hq
    rw [getElem?_set_iff] at hu hv
    rcases hu with ⟨rfl, rfl, _⟩ | ⟨_, hu⟩
    · rw [hnew] at hp; simp [copies] at hp
    · rcases hv with ⟨rfl, rfl, _⟩ | ⟨_, hv⟩
      · rw [hnew] at hq; simp [copies] at hq
      · exact h6 u v p q x' y' b' off' huv hu hv hp hq
  · intro b hb c hc hd
    simp only [List.mem_cons] at hb
    rcases hb with rfl | hb
    · exact absurd hd (o5 c hc)
    · obtain ⟨u, thu, z, hu, hcu⟩ := h7 b hb c hc hd
      have hut : u ≠ t := by
        intro e; subst e; rw [ht] at hu; injection hu with hu; subst hu; rw [hnotcopy] at hcu; simp at hcu
      exact ⟨u, thu, z, by rw [getElem?_set_iff]; exact Or.inr ⟨hut, hu⟩, hcu⟩
  · intro u v p q x' y' a' b' huv hu hv hp hq
    rw [getElem?_set_iff] at hu hv
    rcases hu with ⟨rfl, rfl, _⟩ | ⟨_, hu⟩
    · rw [hnew] at hp; simp [ownsB] at hp
    · rcases hv with ⟨rfl, rfl, _⟩ | ⟨_, hv⟩
      · rw [hnew] at hq; simp [ownsB] at hq
      · exact h9 u v p q x' y' a' b' huv hu hv hp hq
  · exact h11
  · exact h11b
  · intro e he
    simp only [List.mem_cons] at he
    rcases he with rfl | he
    · unfold logged; simp only
      exact ⟨nb, by simp, rfl, o6⟩
    · exact logged_mono e (fun bid c _ ⟨bk, hbk, hid, hc⟩ => ⟨bk, List.mem_cons_of_mem _ hbk, hid, hc⟩) (h12 e he)


theorem pcOk_simple (s : AS) (pc : APC) (x : Bytes) (hx : 0 < x.length) (h1 : copies pc = none) (h2 : ownsB pc = none)
    (h3 : sawMax pc = none) (h4 : casB pc = none) (h5 : reqOf pc = none) (h6 : strOf pc = some x) : PcOk s pc := by
  constructor
  · intro _ _ _ h; rw [h1] at h; simp at h
  · intro _ _ h; rw [h2] at h; simp at h
  · intro _ h; rw [h3] at h; simp at h
  · intro _ _ _ h; rw [h4] at h; simp at h
  · intro _ _ _ h; rw [h4] at h; simp at h
  · intro _ _ h; rw [h5] at h; simp at h
  · intro y h; rw [h6] at h; injection h with h; subst h; exact hx

theorem pcOk_req (s : AS) (pc : APC) (x : Bytes) (req : Nat) (hx : 0 < x.length) (hr : x.length ≤ req)
    (h1 : copies pc = none) (h2 : ownsB pc = none)
    (h3 : ∀ mx, sawMax pc = some mx → mx ≤ s.hi) (h4 : casB pc = none) (h5 : reqOf pc = some (x, req)) (h6 : strOf pc = some x) : PcOk s pc := by
  constructor
  · intro _ _ _ h; rw [h1] at h; simp at h
  · intro _ _ h; rw [h2] at h; simp at h
  · exact h3
  · intro _ _ _ h; rw [h4] at h; simp at h
  · intro _ _ _ h; rw [h4] at h; simp at h
  · intro y r h; rw [h5] at h; simp only [Option.some.injEq, Prod.mk.injEq] at h; obtain ⟨e1, e2⟩ := h; subst e1; subst e2; exact hr
  · intro y h; rw [h6] at h; injection h with h; subst h; exact hx

theorem pcOk_cas (s : AS) (x : Bytes) (b seen tries : Nat) (hx : 0 < x.length) (bk : ABucket) (hbk : bk ∈ s.buckets) (hid : bk.id = b)
    (hids : (s.buckets.map (·.id)).Nodup) (hc : seen + x.length ≤ bk.cap) : PcOk s (.cas x b seen tries) := by
  constructor
  · intro _ _ _ h; simp [copies] at h
  · intro _ _ h; simp [ownsB] at h
  · intro _ h; simp [sawMax] at h
  · intro y b' s' h k hk hkid
    simp only [casB, Option.some.injEq, Prod.mk.injEq] at h
    obtain ⟨e1, e2, e3⟩ := h
    subst e1; subst e2; subst e3
    have : k = bk := id_unique hids hk hbk (hkid.trans hid.symm)
    subst this; exact hc
  · intro y b' s' h
    simp only [casB, Option.some.injEq, Prod.mk.injEq] at h
    exact ⟨bk, hbk, hid.trans h.2.1⟩
  · intro _ _ h; simp [reqOf] at h
  · intro y h; simp only [strOf, Option.some.injEq] at h; subst h; exact hx

/-- **Every step preserves the invariant.** -/
theorem step_inv {cap0 : Nat} {s s' : AS} {t : Nat} {sp : Bool} (h : AInv cap0 s) (hs : step s t sp = some s') : AInv cap0 s' := by
  unfold step at hs
  split at hs
  · simp at hs
  next th ht =>
  have hme := h.pcOk t th ht
  split at hs
  next hpc =>
    -- idle
    split at hs
    · simp at hs
    next x rest htodo =>
    split at hs
    · injection hs with hs; subst hs
      exact inv_neutral h t th { pc := .idle, todo := rest } ht (by rw [hpc]; exact ⟨rfl, rfl⟩) ⟨rfl, rfl⟩ (pcOk_idle _)
        ((t, x, .empty) :: s.log) (by intro e he; simp only [List.mem_cons] at he; rcases he with rfl | he; exact Or.inr (by intro _ _ hh; cases hh); exact Or.inl he) s.bucketCap
    next hx =>
      injection hs with hs; subst hs
      exact inv_neutral h t th { pc := .walk x none, todo := rest } ht (by rw [hpc]; exact ⟨rfl, rfl⟩) ⟨rfl, rfl⟩
        (pcOk_simple _ _ x (by omega) rfl rfl rfl rfl rfl rfl) s.log (fun e he => Or.inl he) s.bucketCap
  next x cur hpc =>
    have hx : 0 < x.length := hme.strPos x (by rw [hpc]; rfl)
    have key : ∀ nxt : Option Nat, (match nxt with
        | some b => some (setPc s t th (.loadLen x b))
        | none => some (setPc s t th (.growCap x))) = some s' → AInv cap0 s' := by
      intro nxt hs
      split at hs <;> (injection hs with hs; subst hs)
      · exact inv_neutral h t th { th with pc := .loadLen x _ } ht (by rw [hpc]; exact ⟨rfl, rfl⟩) ⟨rfl, rfl⟩
          (pcOk_simple _ _ x hx rfl rfl rfl rfl rfl rfl) s.log (fun e he => Or.inl he) s.bucketCap
      · exact inv_neutral h t th { th with pc := .growCap x } ht (by rw [hpc]; exact ⟨rfl, rfl⟩) ⟨rfl, rfl⟩
          (pcOk_simple _ _ x hx rfl rfl rfl rfl rfl rfl) s.log (fun e he => Or.inl he) s.bucketCap
    exact key _ hs
  next x b hpc =>
    have hx : 0 < x.length := hme.strPos x (by rw [hpc]; rfl)
    split at hs
    · simp at hs
    next bk hf =>
    obtain ⟨hbk, hbid⟩ := findB_some hf
    split at hs <;> (injection hs with hs; subst hs)
    next hfit =>
      exact inv_neutral h t th { th with pc := .cas x b bk.len 0 } ht (by rw [hpc]; exact ⟨rfl, rfl⟩) ⟨rfl, rfl⟩
        (pcOk_cas s x b bk.len 0 hx bk hbk hbid h.ids hfit) s.log (fun e he => Or.inl he) s.bucketCap
    · exact inv_neutral h t th { th with pc := .walk x (some b) } ht (by rw [hpc]; exact ⟨rfl, rfl⟩) ⟨rfl, rfl⟩
        (pcOk_simple _ _ x hx rfl rfl rfl rfl rfl rfl) s.log (fun e he => Or.inl he) s.bucketCap
  next x b seen tries hpc =>
    have hx : 0 < x.length := hme.strPos x (by rw [hpc]; rfl)
    split at hs
    · simp at hs
    next bk hf =>
    obtain ⟨hbk, hbid⟩ := findB_some hf
    split at hs
    next hok =>
      injection hs with hs; subst hs
      exact inv_cas h t th x b seen tries ht hpc bk hf hok.1
    · split at hs <;> (injection hs with hs; subst hs)
      next hre =>
        exact inv_neutral h t th { th with pc := .cas x b bk.len (tries + 1) } ht (by rw [hpc]; exact ⟨rfl, rfl⟩) ⟨rfl, rfl⟩
          (pcOk_cas s x b bk.len (tries + 1) hx bk hbk hbid h.ids hre.2) s.log (fun e he => Or.inl he) s.bucketCap
      · exact inv_neutral h t th { th with pc := .walk x (some b) } ht (by rw [hpc]; exact ⟨rfl, rfl⟩) ⟨rfl, rfl⟩
          (pcOk_simple _ _ x hx rfl rfl rfl rfl rfl rfl) s.log (fun e he => Or.inl he) s.bucketCap
  next x b off hpc =>
    injection hs with hs; subst hs
    exact inv_copy h t th { pc := .idle, todo := th.todo } x b off ht hpc rfl
  next x hpc =>
    have hx : 0 < x.length := hme.strPos x (by rw [hpc]; rfl)
    dsimp only at hs
    split at hs <;> (injection hs with hs; subst hs)
    · exact inv_neutral h t th { th with pc := .allocMax x x.length .oversize } ht (by rw [hpc]; exact ⟨rfl, rfl⟩) ⟨rfl, rfl⟩
        (pcOk_req _ _ x x.length hx (Nat.le_refl _) rfl rfl (by intro _ hh; simp [sawMax] at hh) rfl rfl rfl) s.log (fun e he => Or.inl he) s.bucketCap
    next hle =>
      exact inv_neutral h t th { th with pc := .growUsage x (s.bucketCap * 2) } ht (by rw [hpc]; exact ⟨rfl, rfl⟩) ⟨rfl, rfl⟩
        (pcOk_req _ _ x _ hx (by omega) rfl rfl (by intro _ hh; simp [sawMax] at hh) rfl rfl rfl) s.log (fun e he => Or.inl he) s.bucketCap
  next x next hpc =>
    have hx : 0 < x.length := hme.strPos x (by rw [hpc]; rfl)
    have hr : x.length ≤ next := hme.reqOk x next (by rw [hpc]; rfl)
    injection hs with hs; subst hs
    exact inv_neutral h t th { th with pc := .growMax x next s.usage } ht (by rw [hpc]; exact ⟨rfl, rfl⟩) ⟨rfl, rfl⟩
      (pcOk_req _ _ x _ hx hr rfl rfl (by intro _ hh; simp [sawMax] at hh) rfl rfl rfl) s.log (fun e he => Or.inl he) s.bucketCap
  next x next u hpc =>
    have hx : 0 < x.length := hme.strPos x (by rw [hpc]; rfl)
    have hr : x.length ≤ next := hme.reqOk x next (by rw [hpc]; rfl)
    dsimp only at hs
    split at hs
    · split at hs <;> (injection hs with hs; subst hs)
      · exact inv_neutral h t th { pc := .idle, todo := th.todo } ht (by rw [hpc]; exact ⟨rfl, rfl⟩) ⟨rfl, rfl⟩ (pcOk_idle _)
          ((t, x, .err) :: s.log) (by intro e he; simp only [List.mem_cons] at he; rcases he with rfl | he; exact Or.inr (by intro _ _ hh; cases hh); exact Or.inl he) s.bucketCap
      next hrem =>
        exact inv_neutral h t th { th with pc := .allocMax x (s.max - u) .remaining } ht (by rw [hpc]; exact ⟨rfl, rfl⟩) ⟨rfl, rfl⟩
          (pcOk_req _ _ x _ hx (by omega) rfl rfl (by intro _ hh; simp [sawMax] at hh) rfl rfl rfl) s.log (fun e he => Or.inl he) s.bucketCap
    · injection hs with hs; subst hs
      exact inv_neutral h t th { th with pc := .allocMax x next (.double next) } ht (by rw [hpc]; exact ⟨rfl, rfl⟩) ⟨rfl, rfl⟩
        (pcOk_req _ _ x _ hx hr rfl rfl (by intro _ hh; simp [sawMax] at hh) rfl rfl rfl) s.log (fun e he => Or.inl he) s.bucketCap
  next x req k hpc =>
    have hx : 0 < x.length := hme.strPos x (by rw [hpc]; rfl)
    have hr : x.length ≤ req := hme.reqOk x req (by rw [hpc]; rfl)
    injection hs with hs; subst hs
    exact inv_neutral h t th { th with pc := .allocUpd x req s.max k } ht (by rw [hpc]; exact ⟨rfl, rfl⟩) ⟨rfl, rfl⟩
      (pcOk_req _ _ x _ hx hr rfl rfl (by intro _ hh; simp only [sawMax, Option.some.injEq] at hh; rw [← hh]; exact h.maxLe) rfl rfl rfl) s.log (fun e he => Or.inl he) s.bucketCap
  next x req mx k hpc =>
    have hx : 0 < x.length := hme.strPos x (by rw [hpc]; rfl)
    have hr : x.length ≤ req := hme.reqOk x req (by rw [hpc]; rfl)
    split at hs
    · injection hs with hs; subst hs
      exact inv_neutral h t th { pc := .idle, todo := th.todo } ht (by rw [hpc]; exact ⟨rfl, rfl⟩) ⟨rfl, rfl⟩ (pcOk_idle _)
        ((t, x, .err) :: s.log) (by intro e he; simp only [List.mem_cons] at he; rcases he with rfl | he; exact Or.inr (by intro _ _ hh; cases hh); exact Or.inl he) s.bucketCap
    next hfit =>
      split at hs
      · injection hs with hs; subst hs
        exact inv_alloc h t th x req mx _ ht hpc hfit (.storeCap x (freshB s.nextId req x) _) rfl rfl rfl rfl rfl rfl
      · split at hs
        · omega
        · injection hs with hs; subst hs
          exact inv_alloc h t th x req mx _ ht hpc hfit (.pushLoad x (freshB s.nextId req x)) rfl rfl rfl rfl rfl rfl
  next x nb next hpc =>
    injection hs with hs; subst hs
    exact inv_keep_owned h t th x nb ht (by rw [hpc]; rfl) (.pushLoad x nb) rfl rfl rfl rfl rfl rfl next
  next x nb hpc =>
    injection hs with hs; subst hs
    exact inv_keep_owned h t th x nb ht (by rw [hpc]; rfl) (.pushCas x nb (headId s.buckets)) rfl rfl rfl rfl rfl rfl s.bucketCap
  next x nb hd hpc =>
    split at hs <;> (injection hs with hs; subst hs)
    · exact inv_push h t th { pc := .idle, todo := th.todo } x nb ht (by rw [hpc]; rfl) rfl
    · exact inv_keep_owned h t th x nb ht (by rw [hpc]; rfl) (.pushCas x nb (headId s.buckets)) rfl rfl rfl rfl rfl rfl s.bucketCap

theorem run_inv {cap0 : Nat} (sched : List (Nat × Bool)) {s : AS} (h : AInv cap0 s) : AInv cap0 (run s sched) := by
  induction sched generalizing s with
  | nil => exact h
  | cons e rest ih =>
    obtain ⟨t, sp⟩ := e
    unfold run
    split
    next s' hs => exact ih (step_inv h hs)
    · exact ih h

theorem reach_inv (cap max : Nat) (programs : List (List Bytes)) (sched : List (Nat × Bool)) :
    AInv cap (run (init cap max programs) sched) := run_inv sched (init_inv cap max programs)


/-! ### Accounting: the usage counter equals the capacity of published plus in-flight blocks -/

def capSum (bs : List ABucket) : Nat := (bs.map (·.cap)).sum

/-- Capacity of the block a thread owns but has not yet published. -/
def ow (pc : APC) : Nat :=
  match ownsB pc with
  | some (_, nb) => nb.cap
  | none => 0

def owned (ts : List AThread) : Nat := (ts.map fun th => ow th.pc).sum

def Acct (s : AS) : Prop := s.usage = capSum s.buckets + owned s.ts

theorem owned_set {ts : List AThread} {t : Nat} {th : AThread} (ht : ts[t]? = some th) (new : AThread) :
    owned (ts.set t new) + ow th.pc = owned ts + ow new.pc := by
  induction ts generalizing t with
  | nil => simp at ht
  | cons a rest ih =>
    cases t with
    | zero =>
      simp only [List.getElem?_cons_zero, Option.some.injEq] at ht
      subst ht
      simp only [owned, List.set_cons_zero, List.map_cons, List.sum_cons]
      omega
    | succ n =>
      simp only [List.getElem?_cons_succ] at ht
      have := ih ht
      simp only [owned, List.set_cons_succ, List.map_cons, List.sum_cons] at this ⊢
      omega

theorem capSum_updB {bs : List ABucket} {id : Nat} {f : ABucket → ABucket} (hf : ∀ b, (f b).cap = b.cap) :
    capSum (updB bs id f) = capSum bs := by
  unfold capSum updB
  induction bs with
  | nil => rfl
  | cons a rest ih =>
    simp only [List.map_cons, List.sum_cons, ih]
    split <;> simp [hf]

theorem acct_pc {s : AS} (hA : Acct s) {t : Nat} {th : AThread} (ht : s.ts[t]? = some th) (new : AThread)
    (how : ow new.pc = ow th.pc) (lg : List (Nat × Bytes × ARes)) (bc : Nat) :
    Acct { s with ts := s.ts.set t new, log := lg, bucketCap := bc } := by
  have := owned_set ht new
  unfold Acct at *
  simp only
  omega

theorem acct_upd {s : AS} (hA : Acct s) {t : Nat} {th : AThread} (ht : s.ts[t]? = some th) (new : AThread)
    (how : ow new.pc = ow th.pc) (lg : List (Nat × Bytes × ARes)) (b : Nat) (f : ABucket → ABucket) (hf : ∀ b, (f b).cap = b.cap) :
    Acct { s with ts := s.ts.set t new, log := lg, buckets := updB s.buckets b f } := by
  have := owned_set ht new
  unfold Acct at *
  simp only [capSum_updB hf]
  omega

theorem acct_alloc {s : AS} (hA : Acct s) {t : Nat} {th : AThread} (ht : s.ts[t]? = some th) (new : AThread) (req : Nat)
    (h0 : ow th.pc = 0) (h1 : ow new.pc = req) :
    Acct { s with usage := s.usage + req, nextId := s.nextId + 1, ts := s.ts.set t new } := by
  have := owned_set ht new
  unfold Acct at *
  simp only
  omega

theorem acct_push {s : AS} (hA : Acct s) {t : Nat} {th : AThread} (ht : s.ts[t]? = some th) (new : AThread) (nb : ABucket)
    (h0 : ow th.pc = nb.cap) (h1 : ow new.pc = 0) (lg : List (Nat × Bytes × ARes)) :
    Acct { s with ts := s.ts.set t new, log := lg, buckets := nb :: s.buckets } := by
  have := owned_set ht new
  unfold Acct at *
  simp only [capSum, List.map_cons, List.sum_cons] at *
  omega

theorem owned_quiescent {ts : List AThread} (h : ∀ th ∈ ts, th.pc = .idle) : owned ts = 0 := by
  induction ts with
  | nil => rfl
  | cons a r ih =>
    simp only [owned, List.map_cons, List.sum_cons] at ih ⊢
    rw [ih (fun th hth => h th (List.mem_cons_of_mem _ hth)), h a (List.mem_cons_self ..)]
    rfl

theorem init_acct (cap max : Nat) (programs : List (List Bytes)) : Acct (init cap max programs) := by
  unfold Acct init
  have : owned (programs.map fun p => ({ pc := .idle, todo := p } : AThread)) = 0 := by
    apply owned_quiescent
    intro th hth
    simp only [List.mem_map] at hth
    obtain ⟨p, _, rfl⟩ := hth
    rfl
  simp only [this]
  simp [capSum]

/-- **Every step preserves the accounting identity.** -/
theorem step_acct {cap0 : Nat} {s s' : AS} {t : Nat} {sp : Bool} (h : AInv cap0 s) (hA : Acct s) (hs : step s t sp = some s') : Acct s' := by
  unfold step at hs
  split at hs
  · simp at hs
  next th ht =>
  have hme := h.pcOk t th ht
  split at hs
  next hpc =>
    split at hs
    · simp at hs
    next x rest htodo =>
    split at hs <;> (injection hs with hs; subst hs)
    · exact acct_pc hA ht { pc := .idle, todo := rest } (by rw [hpc]) _ s.bucketCap
    · exact acct_pc hA ht { pc := .walk x none, todo := rest } (by rw [hpc]; rfl) s.log s.bucketCap
  next x cur hpc =>
    have key : ∀ nxt : Option Nat, (match nxt with
        | some b => some (setPc s t th (.loadLen x b))
        | none => some (setPc s t th (.growCap x))) = some s' → Acct s' := by
      intro nxt hs
      split at hs <;> (injection hs with hs; subst hs)
      · exact acct_pc hA ht { th with pc := .loadLen x _ } (by rw [hpc]; rfl) s.log s.bucketCap
      · exact acct_pc hA ht { th with pc := .growCap x } (by rw [hpc]; rfl) s.log s.bucketCap
    exact key _ hs
  next x b hpc =>
    split at hs
    · simp at hs
    next bk hf =>
    split at hs <;> (injection hs with hs; subst hs)
    · exact acct_pc hA ht { th with pc := .cas x b bk.len 0 } (by rw [hpc]; rfl) s.log s.bucketCap
    · exact acct_pc hA ht { th with pc := .walk x (some b) } (by rw [hpc]; rfl) s.log s.bucketCap
  next x b seen tries hpc =>
    split at hs
    · simp at hs
    next bk hf =>
    split at hs
    · injection hs with hs; subst hs
      exact acct_upd hA ht { th with pc := .copy x b seen } (by rw [hpc]; rfl) s.log b _ (fun _ => rfl)
    · split at hs <;> (injection hs with hs; subst hs)
      · exact acct_pc hA ht { th with pc := .cas x b bk.len (tries + 1) } (by rw [hpc]; rfl) s.log s.bucketCap
      · exact acct_pc hA ht { th with pc := .walk x (some b) } (by rw [hpc]; rfl) s.log s.bucketCap
  next x b off hpc =>
    injection hs with hs; subst hs
    exact acct_upd hA ht { pc := .idle, todo := th.todo } (by rw [hpc]; rfl) _ b _ (fun _ => rfl)
  next x hpc =>
    dsimp only at hs
    split at hs <;> (injection hs with hs; subst hs)
    · exact acct_pc hA ht { th with pc := .allocMax x x.length .oversize } (by rw [hpc]; rfl) s.log s.bucketCap
    · exact acct_pc hA ht { th with pc := .growUsage x (s.bucketCap * 2) } (by rw [hpc]; rfl) s.log s.bucketCap
  next x next hpc =>
    injection hs with hs; subst hs
    exact acct_pc hA ht { th with pc := .growMax x next s.usage } (by rw [hpc]; rfl) s.log s.bucketCap
  next x next u hpc =>
    dsimp only at hs
    split at hs
    · split at hs <;> (injection hs with hs; subst hs)
      · exact acct_pc hA ht { pc := .idle, todo := th.todo } (by rw [hpc]; rfl) _ s.bucketCap
      · exact acct_pc hA ht { th with pc := .allocMax x (s.max - u) .remaining } (by rw [hpc]; rfl) s.log s.bucketCap
    · injection hs with hs; subst hs
      exact acct_pc hA ht { th with pc := .allocMax x next (.double next) } (by rw [hpc]; rfl) s.log s.bucketCap
  next x req k hpc =>
    injection hs with hs; subst hs
    exact acct_pc hA ht { th with pc := .allocUpd x req s.max k } (by rw [hpc]; rfl) s.log s.bucketCap
  next x req mx k hpc =>
    have hx : 0 < x.length := hme.strPos x (by rw [hpc]; rfl)
    have hr : x.length ≤ req := hme.reqOk x req (by rw [hpc]; rfl)
    split at hs
    · injection hs with hs; subst hs
      exact acct_pc hA ht { pc := .idle, todo := th.todo } (by rw [hpc]; rfl) _ s.bucketCap
    · split at hs
      · injection hs with hs; subst hs
        exact acct_alloc hA ht { th with pc := .storeCap x (freshB s.nextId req x) _ } req (by rw [hpc]; rfl) rfl
      · split at hs
        · omega
        · injection hs with hs; subst hs
          exact acct_alloc hA ht { th with pc := .pushLoad x (freshB s.nextId req x) } req (by rw [hpc]; rfl) rfl
  next x nb next hpc =>
    injection hs with hs; subst hs
    exact acct_pc hA ht { th with pc := .pushLoad x nb } (by rw [hpc]; rfl) s.log next
  next x nb hpc =>
    injection hs with hs; subst hs
    exact acct_pc hA ht { th with pc := .pushCas x nb (headId s.buckets) } (by rw [hpc]; rfl) s.log s.bucketCap
  next x nb hd hpc =>
    split at hs <;> (injection hs with hs; subst hs)
    · exact acct_push hA ht { pc := .idle, todo := th.todo } nb (by rw [hpc]; rfl) rfl _
    · exact acct_pc hA ht { th with pc := .pushCas x nb (headId s.buckets) } (by rw [hpc]; rfl) s.log s.bucketCap

theorem run_acct {cap0 : Nat} (sched : List (Nat × Bool)) {s : AS} (h : AInv cap0 s) (hA : Acct s) : Acct (run s sched) := by
  induction sched generalizing s with
  | nil => exact hA
  | cons e rest ih =>
    obtain ⟨t, sp⟩ := e
    unfold run
    split
    next s' hs => exact ih (step_inv h hs) (step_acct h hA hs)
    · exact ih h hA

end Lasso.CA
