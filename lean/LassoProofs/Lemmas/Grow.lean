import LassoModel.Arena
import LassoModel.Grow
import LassoModel.Extracted
/-
  Translation validation for the growth logic of the two arenas: the decision tree the extractor
  regenerates from `store_str` on every run (`Extracted.arenaGrow`, `Extracted.lockfreeGrow`),
  evaluated by `Grow.eval`, determines exactly what the hand-written model (`Arena.store`,
  `LArena.grow`) does — for every arena state and every string.  A change of the branch conditions,
  of the amount claimed, of the block size, of the stored capacity or of the placement in the source
  changes the tree and breaks these theorems (or, if the model is changed along with it, the theorems
  of C01/C04/C08 that are proved about the model).
-/
namespace Lasso
open Lasso.Source Lasso.Grow

/-- What an outcome of the source's decision tree means for the single-threaded arena. -/
def Arena.applyOutcome (a : Arena) (s : Bytes) : Outcome → Out (Arena × StrRef)
  | .err => .err .memoryLimit
  | .grow claim size newCap place =>
    if s.length ≤ size then
      match place with
      | .pushBack =>
        .ok ({ a with usage := a.usage + claim, full := a.full ++ [a.cur], cur := Arena.freshBlock a.nextId size s,
                      bucketCap := newCap.getD a.bucketCap, nextId := a.nextId + 1 },
             .arena { bid := a.nextId, off := 0, len := s.length })
      | .insertBeforeLast =>
        .ok ({ a with usage := a.usage + claim, full := insertBeforeLast (Arena.freshBlock a.nextId size s) a.full,
                      bucketCap := newCap.getD a.bucketCap, nextId := a.nextId + 1 },
             .arena { bid := a.nextId, off := 0, len := s.length })
      | _ => .fault .oobWrite
    else .fault .oobWrite          -- the unchecked `push_slice` into a block that is too small

def Arena.env (a : Arena) (s : Bytes) : Env := { len := s.length, bucketCap := a.bucketCap, usage := a.usage, max := a.max }

/-- **The single-threaded arena's model is the source's decision tree.** -/
theorem arena_store_is_source_tree (a : Arena) (s : Bytes) (h0 : s.length ≠ 0) (hfit : ¬ s.length ≤ a.cur.free) :
    (Grow.eval (a.env s) Extracted.arenaGrow).map (a.applyOutcome s) = some (a.store s) := by
  unfold Arena.store
  simp only [h0, hfit, ↓reduceIte]
  simp only [Extracted.arenaGrow, Grow.eval, Grow.evalE, Grow.evalC, Arena.env, Env.get, Env.set, Grow.evalAlloc,
    Option.bind_some, bind, pure]
  by_cases h1 : s.length > a.bucketCap * 2
  · simp only [h1, decide_true, ↓reduceIte, Arena.storeOversize]
    by_cases h2 : a.usage + s.length > a.max <;> simp [h2, Arena.applyOutcome]
  · simp only [h1, decide_false, Bool.false_eq_true, ↓reduceIte]
    by_cases h2 : a.usage + a.bucketCap * 2 > a.max
    · simp only [h2, decide_true, ↓reduceIte, Arena.storeRemaining]
      by_cases h3 : a.max - a.usage < s.length
      · simp [h3, Arena.applyOutcome]
      · by_cases h4 : a.usage + (a.max - a.usage) > a.max
        · omega
        · by_cases h5 : a.max - a.usage = 0
          · omega
          · have h6 : s.length ≤ a.max - a.usage := by omega
            simp [h3, h4, h5, h6, Arena.applyOutcome]
    · simp only [h2, decide_false, Bool.false_eq_true, ↓reduceIte, Arena.storeDouble]
      have h6 : s.length ≤ a.bucketCap * 2 := by omega
      simp [h6, Arena.applyOutcome]

/-- What an outcome means for the lock-free arena (sequential semantics): new blocks go to the head. -/
def LArena.applyOutcome (a : LArena) (s : Bytes) : Outcome → Out (LArena × StrRef)
  | .err => .err .memoryLimit
  | .grow claim size newCap place =>
    if s.length ≤ size then
      match place with
      | .pushFront =>
        .ok ({ a with usage := a.usage + claim, bucketCap := newCap.getD a.bucketCap,
                      buckets := { id := a.nextId, cap := size, data := s } :: a.buckets, nextId := a.nextId + 1 },
             .arena { bid := a.nextId, off := 0, len := s.length })
      | _ => .fault .oobWrite
    else .fault .oobWrite

def LArena.env (a : LArena) (s : Bytes) : Env := { len := s.length, bucketCap := a.bucketCap, usage := a.usage, max := a.max }

/-- **The lock-free arena's growth model is the source's decision tree.** -/
theorem larena_grow_is_source_tree (a : LArena) (s : Bytes) :
    (Grow.eval (a.env s) Extracted.lockfreeGrow).map (a.applyOutcome s) = some (a.grow s) := by
  unfold LArena.grow
  simp only [Extracted.lockfreeGrow, Grow.eval, Grow.evalE, Grow.evalC, LArena.env, Env.get, Env.set, Grow.evalAlloc,
    Option.bind_some, bind, pure]
  by_cases h1 : s.length > a.bucketCap * 2
  · simp only [h1, decide_true, ↓reduceIte]
    by_cases h2 : a.usage + s.length > a.max <;> simp [h2, LArena.applyOutcome]
  · simp only [h1, decide_false, Bool.false_eq_true, ↓reduceIte]
    by_cases h2 : a.usage + a.bucketCap * 2 > a.max
    · simp only [h2, decide_true, ↓reduceIte]
      by_cases h3 : a.max - a.usage < s.length
      · simp [h3, LArena.applyOutcome]
      · by_cases h4 : a.usage + (a.max - a.usage) > a.max
        · simp [h3, h4, LArena.applyOutcome]
        · by_cases h5 : a.max - a.usage = 0
          · simp [h3, h4, h5, LArena.applyOutcome]
          · have h6 : s.length ≤ a.max - a.usage := by omega
            simp [h3, h4, h5, h6, LArena.applyOutcome]
    · simp only [h2, decide_false, Bool.false_eq_true, ↓reduceIte]
      have h6 : s.length ≤ a.bucketCap * 2 := by omega
      simp [h6, LArena.applyOutcome]

/-- `Arena::allocate_memory` in the source is the check-then-add the model's `allocate` (and the
`claim` step of `Grow.evalAlloc`) assumes. -/
theorem arena_allocate_shape : Extracted.arenaAllocateIsCheckThenAdd = true := by decide

end Lasso
