import LassoModel.Arena
import LassoModel.Grow
import LassoModel.Extracted
/-
  Translation validation for the growth logic of the two arenas: the decision tree the extractor
  regenerates from `store_str` on every run (`Extracted.arenaGrow`, `Extracted.lockfreeGrow`),
  evaluated by `Grow.eval`, determines exactly what the hand-written model (`Arena.store`,
  `LArena.grow`) does — for every arena state and every string.  A change of the branch conditions,
  of the amount claimed, of the block size, of the stored capacity or of the placement in the source
  changes the tree and breaks these theorems (or, if the model is changed along with it, the theorems
  of C01/C04/C08 that are proved about the model).
-/
namespace Lasso
open Lasso.Source Lasso.Grow

/-! The proofs are split in two so that they survive harmless rewrites of the source: (1) the regenerated
tree evaluates to a closed-form specification of the four numbers involved — proved by blind case
splitting and linear arithmetic, so `x * 2` vs `x + x`, `a > b` vs `b < a`, renamed or inlined locals,
negated conditions with swapped branches all go through; (2) the specification is what the model does
(independent of the source). -/

/-- Closed form of the growth decision (both arenas): oversized / remaining budget / doubled. -/
def growSpec (place1 place2 : GPlace) (env : Env) : Outcome :=
  if env.len > env.bucketCap * 2 then
    (if env.usage + env.len > env.max then .err else .grow env.len env.len none place1)
  else if env.usage + env.bucketCap * 2 > env.max then
    (if env.max - env.usage < env.len then .err
     else if env.max - env.usage = 0 then .err
     else .grow (env.max - env.usage) (env.max - env.usage) none place2)
  else .grow (env.bucketCap * 2) (env.bucketCap * 2) (some (env.bucketCap * 2)) place2

/-- Closes the leaves of the case analysis: equal outcomes, or contradictory arithmetic. -/
macro "grow_leaf" : tactic =>
  `(tactic| first
    | omega
    | (simp_all <;> omega)
    | (simp_all; done)
    | (refine congrArg some ?_; simp_all <;> omega))

theorem arenaGrow_spec (env : Env) (hn : env.nextCap = none) (hr : env.remaining = none) :
    Grow.eval env Extracted.arenaGrow = some (growSpec .insertBeforeLast .pushBack env) := by
  simp only [Extracted.arenaGrow, Grow.eval, Grow.evalE, Grow.evalC, Env.get, Env.set, Grow.evalAlloc,
    Option.bind_some, bind, pure, growSpec, hn, hr]
  repeat' split
  all_goals grow_leaf

theorem lockfreeGrow_spec (env : Env) (hn : env.nextCap = none) (hr : env.remaining = none) :
    Grow.eval env Extracted.lockfreeGrow = some (growSpec .pushFront .pushFront env) := by
  simp only [Extracted.lockfreeGrow, Grow.eval, Grow.evalE, Grow.evalC, Env.get, Env.set, Grow.evalAlloc,
    Option.bind_some, bind, pure, growSpec, hn, hr]
  repeat' split
  all_goals grow_leaf

/-- What an outcome of the source's decision tree means for the single-threaded arena. -/
def Arena.applyOutcome (a : Arena) (s : Bytes) : Outcome → Out (Arena × StrRef)
  | .err => .err .memoryLimit
  | .grow claim size newCap place =>
    if s.length ≤ size then
      match place with
      | .pushBack =>
        .ok ({ a with usage := a.usage + claim, full := a.full ++ [a.cur], cur := Arena.freshBlock a.nextId size s,
                      bucketCap := newCap.getD a.bucketCap, nextId := a.nextId + 1 },
             .arena { bid := a.nextId, off := 0, len := s.length })
      | .insertBeforeLast =>
        .ok ({ a with usage := a.usage + claim, full := insertBeforeLast (Arena.freshBlock a.nextId size s) a.full,
                      bucketCap := newCap.getD a.bucketCap, nextId := a.nextId + 1 },
             .arena { bid := a.nextId, off := 0, len := s.length })
      | _ => .fault .oobWrite
    else .fault .oobWrite          -- the unchecked `push_slice` into a block that is too small

def Arena.env (a : Arena) (s : Bytes) : Env := { len := s.length, bucketCap := a.bucketCap, usage := a.usage, max := a.max }

/-- **The single-threaded arena's model is the source's decision tree.** -/
theorem arena_store_is_spec (a : Arena) (s : Bytes) (h0 : s.length ≠ 0) (hfit : ¬ s.length ≤ a.cur.free) :
    a.applyOutcome s (growSpec .insertBeforeLast .pushBack (a.env s)) = a.store s := by
  unfold Arena.store growSpec
  simp only [h0, hfit, ↓reduceIte, Arena.env]
  by_cases h1 : s.length > a.bucketCap * 2
  · simp only [h1, ↓reduceIte, Arena.storeOversize]
    by_cases h2 : a.usage + s.length > a.max <;> simp [h2, Arena.applyOutcome]
  · simp only [h1, ↓reduceIte]
    by_cases h2 : a.usage + a.bucketCap * 2 > a.max
    · simp only [h2, ↓reduceIte, Arena.storeRemaining]
      by_cases h3 : a.max - a.usage < s.length
      · simp [h3, Arena.applyOutcome]
      · have h4 : ¬ a.usage + (a.max - a.usage) > a.max := by omega
        have h5 : ¬ a.max - a.usage = 0 := by omega
        have h6 : s.length ≤ a.max - a.usage := by omega
        simp [h3, h4, h5, h6, Arena.applyOutcome]
    · simp only [h2, ↓reduceIte, Arena.storeDouble]
      have h6 : s.length ≤ a.bucketCap * 2 := by omega
      simp [h6, Arena.applyOutcome]

/-- **The single-threaded arena's model is the source's decision tree.** -/
theorem arena_store_is_source_tree (a : Arena) (s : Bytes) (h0 : s.length ≠ 0) (hfit : ¬ s.length ≤ a.cur.free) :
    (Grow.eval (a.env s) Extracted.arenaGrow).map (a.applyOutcome s) = some (a.store s) := by
  rw [arenaGrow_spec (a.env s) rfl rfl, Option.map_some, arena_store_is_spec a s h0 hfit]

/-- What an outcome means for the lock-free arena (sequential semantics): new blocks go to the head. -/
def LArena.applyOutcome (a : LArena) (s : Bytes) : Outcome → Out (LArena × StrRef)
  | .err => .err .memoryLimit
  | .grow claim size newCap place =>
    if s.length ≤ size then
      match place with
      | .pushFront =>
        .ok ({ a with usage := a.usage + claim, bucketCap := newCap.getD a.bucketCap,
                      buckets := { id := a.nextId, cap := size, data := s } :: a.buckets, nextId := a.nextId + 1 },
             .arena { bid := a.nextId, off := 0, len := s.length })
      | _ => .fault .oobWrite
    else .fault .oobWrite

def LArena.env (a : LArena) (s : Bytes) : Env := { len := s.length, bucketCap := a.bucketCap, usage := a.usage, max := a.max }

/-- **The lock-free arena's growth model is the source's decision tree.** -/
theorem larena_grow_is_spec (a : LArena) (s : Bytes) :
    a.applyOutcome s (growSpec .pushFront .pushFront (a.env s)) = a.grow s := by
  unfold LArena.grow growSpec
  simp only [LArena.env]
  by_cases h1 : s.length > a.bucketCap * 2
  · simp only [h1, ↓reduceIte]
    by_cases h2 : a.usage + s.length > a.max <;> simp [h2, LArena.applyOutcome]
  · simp only [h1, ↓reduceIte]
    by_cases h2 : a.usage + a.bucketCap * 2 > a.max
    · simp only [h2, ↓reduceIte]
      by_cases h3 : a.max - a.usage < s.length
      · simp [h3, LArena.applyOutcome]
      · by_cases h4 : a.usage + (a.max - a.usage) > a.max
        · have h5 : a.max - a.usage = 0 := by omega
          simp [h3, h4, h5, LArena.applyOutcome]
        · by_cases h5 : a.max - a.usage = 0
          · simp [h3, h4, h5, LArena.applyOutcome]
          · have h6 : s.length ≤ a.max - a.usage := by omega
            simp [h3, h4, h5, h6, LArena.applyOutcome]
    · simp only [h2, ↓reduceIte]
      have h6 : s.length ≤ a.bucketCap * 2 := by omega
      simp [h6, LArena.applyOutcome]

/-- **The lock-free arena's growth model is the source's decision tree.** -/
theorem larena_grow_is_source_tree (a : LArena) (s : Bytes) :
    (Grow.eval (a.env s) Extracted.lockfreeGrow).map (a.applyOutcome s) = some (a.grow s) := by
  rw [lockfreeGrow_spec (a.env s) rfl rfl, Option.map_some, larena_grow_is_spec a s]

/-- `Arena::allocate_memory` in the source is the check-then-add the model's `allocate` (and the
`claim` step of `Grow.evalAlloc`) assumes. -/
theorem arena_allocate_shape : Extracted.arenaAllocateIsCheckThenAdd = true := by decide

end Lasso
