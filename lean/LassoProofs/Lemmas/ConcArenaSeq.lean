import LassoProofs.Lemmas.ConcArenaSolo
import LassoProofs.Lemmas.ConcArenaHist
/-
  The atomic-operation-level arena machine, run by one thread, *is* the sequential lock-free arena model
  (`LArena.store`, the model the single-thread theorems of C01/C04/C08 about `ThreadedRodeo` are proved
  on): same block chosen, same offset, same bookkeeping.  States are related by their shapes
  (identity, capacity, reserved length of every block in list order; capacity, usage, limit, next id).
-/
namespace Lasso.CA
open Lasso Lasso.Grow

abbrev BShape := Nat × Nat × Nat      -- (id, cap, reserved length)

def shapeB (b : ABucket) : BShape := (b.id, b.cap, b.len)
def shapeL (b : Bucket) : BShape := (b.id, b.cap, b.data.length)

/-- First block with room gets the string: on shapes. -/
def bump (n : Nat) : List BShape → Option (List BShape × Nat × Nat)
  | [] => none
  | (i, c, l) :: rest =>
    if l + n ≤ c then some ((i, c, l + n) :: rest, i, l)
    else match bump n rest with
      | some (r, j, o) => some ((i, c, l) :: r, j, o)
      | none => none

theorem fitIn_shape (x : Bytes) (ls : List Bucket) :
    (LArena.fitIn x ls).map (fun r => (r.1.map shapeL, r.2.bid, r.2.off, r.2.len)) =
      (bump x.length (ls.map shapeL)).map (fun r => (r.1, r.2.1, r.2.2, x.length)) := by
  induction ls with
  | nil => rfl
  | cons l ls ih =>
    simp only [LArena.fitIn, List.map_cons, shapeL, bump]
    by_cases h : l.data.length + x.length ≤ l.cap
    · simp [h, shapeL]
    · simp only [h, ↓reduceIte]
      cases hf : LArena.fitIn x ls with
      | none =>
        rw [hf] at ih
        simp only [Option.map_none] at ih
        have : bump x.length (ls.map shapeL) = none := by
          cases hb : bump x.length (ls.map shapeL) with
          | none => rfl
          | some v => rw [hb] at ih; simp at ih
        simp [this]
      | some r =>
        rw [hf] at ih
        simp only [Option.map_some] at ih
        cases hb : bump x.length (ls.map shapeL) with
        | none => rw [hb] at ih; simp at ih
        | some v =>
          rw [hb] at ih
          simp only [Option.map_some, Option.some.injEq, Prod.mk.injEq] at ih
          obtain ⟨r1, r2, r3⟩ := v
          simp only at ih
          simp [shapeL, ih.1, ih.2.1, ih.2.2.1, ih.2.2.2]

theorem updB_noop {bs : List ABucket} {i : Nat} {f : ABucket → ABucket} (h : ∀ k ∈ bs, k.id ≠ i) : updB bs i f = bs := by
  induction bs with
  | nil => rfl
  | cons a r ih =>
    have ha : a.id ≠ i := h a (List.mem_cons_self ..)
    have e : updB (a :: r) i f = (if a.id = i then f a else a) :: updB r i f := rfl
    rw [e, ih (fun k hk => h k (List.mem_cons_of_mem _ hk))]
    simp [ha]

theorem stored_shape (x : Bytes) :
    ∀ (cs : List ABucket), (cs.map (·.id)).Nodup →
      match cs.find? (fits x.length) with
      | some b => bump x.length (cs.map shapeB) = some ((stored cs b x).map shapeB, b.id, b.len)
      | none => bump x.length (cs.map shapeB) = none := by
  intro cs
  induction cs with
  | nil => intro _; rfl
  | cons c cs ih =>
    intro hnd
    simp only [List.map_cons, List.nodup_cons, List.mem_map] at hnd
    by_cases hf : c.len + x.length ≤ c.cap
    · have hfit : fits x.length c = true := by simp [fits, hf]
      simp only [List.find?_cons, hfit, List.map_cons, shapeB, bump, hf, ↓reduceIte]
      have hno : ∀ k ∈ cs, k.id ≠ c.id := fun k hk he => hnd.1 ⟨k, hk, he⟩
      have e1 : ∀ f, updB (c :: cs) c.id f = f c :: cs := by
        intro f
        have e : updB (c :: cs) c.id f = (if c.id = c.id then f c else c) :: updB cs c.id f := rfl
        rw [e, updB_noop hno]; simp
      simp only [stored, e1]
      have e2 : ∀ (c' : ABucket) f, c'.id = c.id → updB (c' :: cs) c.id f = f c' :: cs := by
        intro c' f hid
        have e : updB (c' :: cs) c.id f = (if c'.id = c.id then f c' else c') :: updB cs c.id f := rfl
        rw [e, updB_noop hno]; simp [hid]
      have e3 := e2 { id := c.id, cap := c.cap, len := c.len + x.length, claims := { off := c.len, n := x.length, data := none } :: c.claims }
        (fun k => { k with claims := fillClaim k.claims c.len x }) rfl
      simp only [e3]
      simp [shapeB]
    · have hfit : fits x.length c = false := by simp [fits, hf]
      simp only [List.find?_cons, hfit, List.map_cons, shapeB, bump, hf, ↓reduceIte]
      have := ih hnd.2
      cases hfind : cs.find? (fits x.length) with
      | none =>
        simp only [hfind] at this
        simp [this]
      | some b =>
        simp only [hfind] at this
        have hb : b ∈ cs := List.mem_of_find?_eq_some hfind
        have hne : c.id ≠ b.id := fun he => hnd.1 ⟨b, hb, he.symm⟩
        have e : ∀ (c' : ABucket) (bs : List ABucket) f, c'.id ≠ b.id → updB (c' :: bs) b.id f = c' :: updB bs b.id f := by
          intro c' bs f h'
          have e : updB (c' :: bs) b.id f = (if c'.id = b.id then f c' else c') :: updB bs b.id f := rfl
          rw [e]; simp [h']
        simp only [this, stored, e _ _ _ hne, List.map_cons, shapeB]

structure Rel (s : AS) (a : LArena) : Prop where
  blocks : s.buckets.map shapeB = a.buckets.map shapeL
  cap : s.bucketCap = a.bucketCap
  usage : s.usage = a.usage
  max : s.max = a.max
  nextId : s.nextId = a.nextId

end Lasso.CA

namespace Lasso.CA
open Lasso Lasso.Grow

/-- How the sequential model's reference shows up in the machine's log. -/
def answerOf : StrRef → ARes
  | .arena loc => .ok loc.bid loc.off
  | .empty => .empty
  | _ => .err

theorem solo_is_sequential (s : AS) (a : LArena) (x : Bytes) (rest : List Bytes) (hR : Rel s a)
    (hnd : (s.buckets.map (·.id)).Nodup) (ht : s.ts = [{ pc := .idle, todo := x :: rest }]) :
    ∃ sched : List (Nat × Bool), (∀ e ∈ sched, e = (0, false)) ∧
      (run s sched).ts = [{ pc := .idle, todo := rest }] ∧
      match a.store x with
      | .ok (a', ref) => Rel (run s sched) a' ∧ (run s sched).log = (0, x, answerOf ref) :: s.log
      | .err _ => Rel (run s sched) a ∧ (run s sched).log = (0, x, .err) :: s.log
      | _ => False := by
  obtain ⟨sched, hall, hres⟩ := solo_store s x rest hnd ht
  refine ⟨sched, hall, ?_⟩
  by_cases hx : x.length = 0
  · simp only [hx, ↓reduceIte] at hres
    rw [hres]
    simp only [LArena.store, hx, ↓reduceIte, answerOf, true_and]
    exact ⟨⟨hR.blocks, hR.cap, hR.usage, hR.max, hR.nextId⟩, trivial⟩
  · simp only [hx, ↓reduceIte] at hres
    have hA := fitIn_shape x a.buckets
    have hB := stored_shape x s.buckets hnd
    rw [← hR.blocks] at hA
    simp only [LArena.store, hx, ↓reduceIte]
    cases hfind : s.buckets.find? (fits x.length) with
    | some b =>
      simp only [hfind] at hres hB
      rw [hB] at hA
      cases hfit : LArena.fitIn x a.buckets with
      | none => rw [hfit] at hA; simp at hA
      | some r =>
        rw [hfit] at hA
        simp only [Option.map_some, Option.some.injEq, Prod.mk.injEq] at hA
        obtain ⟨h1, h2, h3, _⟩ := hA
        rw [hres]
        refine ⟨rfl, ⟨?_, hR.cap, hR.usage, hR.max, hR.nextId⟩, ?_⟩
        · exact h1.symm
        · simp [answerOf, h2, h3]
    | none =>
      simp only [hfind] at hres hB
      rw [hB] at hA
      have hfit : LArena.fitIn x a.buckets = none := by
        cases h : LArena.fitIn x a.buckets with
        | none => rfl
        | some r => rw [h] at hA; simp at hA
      simp only [hfit]
      have henv : envOf s x = a.env x := by
        simp [envOf, LArena.env, hR.cap, hR.usage, hR.max]
      have hg := larena_grow_is_source_tree a x
      rw [henv] at hres
      cases he : Grow.eval (a.env x) Extracted.lockfreeGrow with
      | none => rw [he] at hres; exact hres.elim
      | some o =>
        rw [he] at hres hg
        simp only [Option.map_some, Option.some.injEq] at hg
        rw [← hg]
        cases o with
        | err =>
          obtain ⟨h1, h2, h3, h4, h5, h6⟩ := hres
          simp only [LArena.applyOutcome]
          exact ⟨h6, ⟨by rw [h2]; exact hR.blocks, by rw [h3]; exact hR.cap, by rw [h1]; exact hR.usage,
            by rw [(run_limits sched s).1]; exact hR.max, by rw [h4]; exact hR.nextId⟩, h5⟩
        | grow claim size newCap place =>
          obtain ⟨h0, hp, h1, h2, h3, h4, h5, h6⟩ := hres
          subst hp
          simp only [LArena.applyOutcome, h0, ↓reduceIte]
          refine ⟨h6, ⟨?_, ?_, ?_, ?_, ?_⟩, ?_⟩
          · rw [h2]; simp [shapeB, shapeL, freshB, hR.blocks, hR.nextId]
          · rw [h3, hR.cap]
          · rw [h1, hR.usage]
          · rw [(run_limits sched s).1]; exact hR.max
          · rw [h4, hR.nextId]
          · rw [h5]; simp [answerOf, hR.nextId]

end Lasso.CA
