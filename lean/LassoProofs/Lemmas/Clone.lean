import LassoProofs.Lemmas.Paths
/-
  `clone_strings_into`, `try_clone`, `try_clone_from`.
-/
namespace Lasso
set_option linter.unusedSimpArgs false

theorem Rodeo.Pushed.onlyNew {env : Env} {r r' : Rodeo} {x : Bytes} {ref : StrRef} (h : r.Inv env)
    (hp : Rodeo.Pushed env r r' x ref) (j : Nat) (y : Bytes) (hj : r'.str env j = some y) :
    (j = r.strings.length ∧ y = x) ∨ r.str env j = some y := by
  have hl := Rodeo.Inv.str_lt hj
  rw [hp.strings] at hl
  simp only [List.length_append, List.length_singleton] at hl
  by_cases hjl : j < r.strings.length
  · right
    obtain ⟨y0, hy0⟩ := h.str_total j hjl
    have := hp.old j y0 hy0
    rw [this] at hj; injection hj with hj; subst hj; exact hy0
  · left
    have : j = r.strings.length := by omega
    subst this
    rw [hp.newStr] at hj; injection hj with hj
    exact ⟨rfl, hj.symm⟩

/-- The rodeo made of the loop variables of `clone_strings_into`. -/
def Rodeo.ofParts (t : Table) (ss : List StrRef) (a : Arena) (N : Nat) : Rodeo :=
  { table := t, strings := ss, arena := a, N := N }

/-- Complete behaviour of the `clone_strings_into` loop from a well-formed state, for pairwise
distinct new strings. -/
theorem Rodeo.cloneInto_spec {env : Env} (grow : Bool) (xs : List Bytes) :
    ∀ (r : Rodeo), r.Inv env → xs.Nodup → (∀ x ∈ xs, ∀ k, r.str env k ≠ some x) →
    (∃ t ss a, Rodeo.cloneInto env r.N grow xs r.strings.length r.table r.strings r.arena = .ok (t, ss, a) ∧
        (Rodeo.ofParts t ss a r.N).Inv env ∧ ss.length = r.strings.length + xs.length ∧
        a.max = r.arena.max ∧
        (∀ j y, r.str env j = some y → (Rodeo.ofParts t ss a r.N).str env j = some y) ∧
        (∀ j, j < xs.length → (Rodeo.ofParts t ss a r.N).str env (r.strings.length + j) = xs[j]?)) ∨
    (Rodeo.cloneInto env r.N grow xs r.strings.length r.table r.strings r.arena = .err .keySpace ∧
        r.N < r.strings.length + xs.length) ∨
    (Rodeo.cloneInto env r.N grow xs r.strings.length r.table r.strings r.arena = .err .memoryLimit) := by
  induction xs with
  | nil =>
    intro r h _ _
    left
    exact ⟨r.table, r.strings, r.arena, rfl, h, by simp, rfl, fun _ _ h => h, by simp⟩
  | cons x rest ih =>
    intro r h hnd hnew
    simp only [List.nodup_cons] at hnd
    unfold Rodeo.cloneInto
    cases hst : r.arena.store x with
    | err e =>
      right; right
      obtain ⟨rfl, _⟩ := Arena.store_err hst
      rfl
    | panic => exact absurd hst (Arena.store_no_panic x)
    | fault f => exact absurd hst (Arena.store_no_fault h.wf x f)
    | ok p =>
      obtain ⟨a', ref⟩ := p
      obtain ⟨hf1, _, hpush⟩ := Rodeo.push_after_store h hst grow
      have hxnew : ∀ k, r.str env k ≠ some x := hnew x (by simp)
      have hnone : tfind env.hash (r.str env) r.table x = none := by
        cases hf : tfind env.hash (r.str env) r.table x with
        | none => rfl
        | some k => exact absurd (tfind_some hf).1 (hxnew k)
      simp only [hf1, hnone]
      unfold keyOfIndex
      by_cases hlt : r.strings.length < r.N
      · simp only [hlt, ↓reduceIte]
        obtain ⟨hins, hp⟩ := hpush hxnew hlt
        simp only [hins]
        -- recurse on the pushed interner
        let r1 : Rodeo := { r with table := r.table ++ [(env.hash x, r.strings.length)], strings := r.strings ++ [ref], arena := a' }
        have hnew1 : ∀ y ∈ rest, ∀ k, r1.str env k ≠ some y := by
          intro y hy k hk
          rcases Rodeo.Pushed.onlyNew h hp k y hk with ⟨_, rfl⟩ | hold
          · exact hnd.1 hy
          · exact hnew y (by simp [hy]) k hold
        have hlen1 : r1.strings.length = r.strings.length + 1 := by simp [r1]
        have hN1 : r1.N = r.N := rfl
        have := ih r1 hp.inv hnd.2 hnew1
        rw [hlen1, hN1] at this
        rcases this with ⟨t, ss, a, he, hi, hl, hm, hold, hnewstr⟩ | ⟨he, hN⟩ | he
        · left
          refine ⟨t, ss, a, he, hi, by simp [hl]; omega, by rw [hm]; exact hp.maxSame, ?_, ?_⟩
          · intro j y hj; exact hold j y (hp.old j y hj)
          · intro j hj
            cases j with
            | zero => simpa using hold _ _ hp.newStr
            | succ j' =>
              have := hnewstr j' (by simp at hj; omega)
              simp only [List.getElem?_cons_succ]
              rw [← this]; congr 1; omega
        · right; left
          exact ⟨he, by simp; omega⟩
        · right; right; exact he
      · right; left
        exact ⟨by simp [hlt], by simp; omega⟩


/-! ### The list of contents -/

theorem contents_spec (env : Env) (read : Loc → Option Bytes) (ss : List StrRef)
    (hc : ∀ ref ∈ ss, ∃ y, contentOf env read ref = some y) :
    ∃ cs, Rodeo.contents env read ss = some cs ∧ cs.length = ss.length ∧ ∀ j, cs[j]? = strAt env read ss j := by
  induction ss with
  | nil => exact ⟨[], rfl, rfl, by intro j; simp [strAt]⟩
  | cons r rest ih =>
    obtain ⟨y, hy⟩ := hc r (by simp)
    obtain ⟨cs, h1, h2, h3⟩ := ih (fun ref hr => hc ref (by simp [hr]))
    refine ⟨y :: cs, by simp [Rodeo.contents, hy, h1], by simp [h2], ?_⟩
    intro j
    cases j with
    | zero => simp [strAt, hy]
    | succ j' => simpa [strAt] using h3 j'

theorem Rodeo.contents_of_inv {env : Env} {r : Rodeo} (h : r.Inv env) :
    ∃ cs, Rodeo.contents env r.arena.read r.strings = some cs ∧ cs.length = r.strings.length ∧
      (∀ j, cs[j]? = r.str env j) ∧ cs.Nodup := by
  obtain ⟨cs, h1, h2, h3⟩ := contents_spec env r.arena.read r.strings (fun ref hr => h.content_some ref hr)
  refine ⟨cs, h1, h2, h3, ?_⟩
  rw [List.nodup_iff_pairwise_ne, List.pairwise_iff_getElem]
  intro i j hi hj hij heq
  have e1 : r.str env i = some cs[i] := by unfold Rodeo.str; rw [← h3 i]; exact List.getElem?_eq_getElem hi
  have e2 : r.str env j = some cs[j] := by unfold Rodeo.str; rw [← h3 j]; exact List.getElem?_eq_getElem hj
  rw [heq] at e1
  have := h.distinct i j _ e1 e2
  omega

/-! ### The clone's arena is sized so that every string fits its first block -/

theorem Rodeo.cloneInto_no_mem (env : Env) (N : Nat) (grow : Bool) (xs : List Bytes) :
    ∀ (idx : Nat) (t : Table) (ss : List StrRef) (a : Arena),
      sumNat (xs.map List.length) ≤ a.cur.free →
      Rodeo.cloneInto env N grow xs idx t ss a ≠ .err .memoryLimit := by
  induction xs with
  | nil => intro idx t ss a _; simp [Rodeo.cloneInto]
  | cons x rest ih =>
    intro idx t ss a hsum
    simp only [List.map_cons, sumNat] at hsum
    unfold Rodeo.cloneInto
    have hfit : x.length ≤ a.cur.free := by omega
    have hst : ∃ a' ref, a.store x = .ok (a', ref) ∧ a'.cur.free = a.cur.free - x.length := by
      unfold Arena.store Arena.storeFit Bucket.free at *
      by_cases h0 : x.length = 0
      · exact ⟨a, .empty, by simp [h0], by omega⟩
      · refine ⟨_, _, by simp only [h0, hfit, ↓reduceIte]; rw [if_pos (by omega)], ?_⟩
        simp; omega
    obtain ⟨a', ref, hs, hfree⟩ := hst
    simp only [hs]
    rcases tableFind_cases env a'.read (ss ++ [ref]) t x with ⟨o, ho⟩ | ho
    · simp only [ho]
      cases o with
      | some _ => simp
      | none =>
        simp only
        cases keyOfIndex N idx with
        | none => simp
        | some _ =>
          simp only
          rcases tableInsert_cases t (env.hash x) idx grow (rehashFn env a'.read (ss ++ [ref])) with ⟨t', ht⟩ | ht
          · simp only [ht]; exact ih (idx + 1) t' (ss ++ [ref]) a' (by omega)
          · simp [ht]
    · simp [ho]


theorem Rodeo.ofParts_self (r : Rodeo) : Rodeo.ofParts r.table r.strings r.arena r.N = r := rfl

/-- `try_clone` of a well-formed interner always succeeds (every string fits the clone's first
block, whatever the limits) and yields a well-formed interner with the same key->string pairs. -/
theorem Rodeo.tryClone_total {env : Env} {r : Rodeo} (h : r.Inv env) (grow : Bool) :
    ∃ r', r.tryClone env grow = .ok r' ∧ r'.Inv env ∧ r'.N = r.N ∧ r'.strings.length = r.strings.length ∧
      ∀ j, r'.str env j = r.str env j := by
  obtain ⟨cs, hcs, hlen, hget, hnd⟩ := Rodeo.contents_of_inv h
  unfold Rodeo.tryClone
  simp only [hcs]
  generalize hcap : (if sumNat (cs.map List.length) = 0 then 4096 else sumNat (cs.map List.length)) = cap
  have hcap0 : 0 < cap := by subst hcap; split <;> omega
  have hcapge : sumNat (cs.map List.length) ≤ cap := by subst hcap; split <;> omega
  let r0 : Rodeo := Rodeo.new r.N cap (Nat.max r.arena.max cap)
  have h0 : r0.Inv env := Rodeo.new_inv env r.N cap _ hcap0
  have hspec := Rodeo.cloneInto_spec (env := env) grow cs r0 h0 hnd (by intro x _ k; simp [r0, Rodeo.new, Rodeo.str, strAt])
  have hnomem := Rodeo.cloneInto_no_mem env r.N grow cs 0 [] [] (Arena.new cap (Nat.max r.arena.max cap))
    (by simp [Arena.new, Bucket.free]; exact hcapge)
  have e0 : r0.strings.length = 0 := rfl
  have e1 : r0.table = [] := rfl
  have e2 : r0.strings = [] := rfl
  have e3 : r0.arena = Arena.new cap (Nat.max r.arena.max cap) := rfl
  have e4 : r0.N = r.N := rfl
  rw [e0, e1, e2, e3, e4] at hspec
  rcases hspec with ⟨t, ss, a, he, hi, hl, _, _, hnew⟩ | ⟨_, hN⟩ | he
  · simp only [he]
    refine ⟨_, rfl, hi, rfl, by simp at hl; simp [hl, hlen], ?_⟩
    intro j
    by_cases hj : j < cs.length
    · have := hnew j hj
      simp only [Nat.zero_add] at this
      rw [← hget j]; exact this
    · have h1 : r.str env j = none := by rw [← hget j]; exact List.getElem?_eq_none (by omega)
      rw [h1]
      apply Option.eq_none_iff_forall_ne_some.mpr
      intro y hy
      have := Rodeo.Inv.str_lt hy
      simp at this hl
      omega
  · have := h.lenLe; simp at hN; omega
  · exact absurd he hnomem

/-- `try_clone_from`: either the target ends up with exactly the source's key->string pairs (nothing
of its previous content), or an error is reported. With equal key capacities the only possible
error is the memory limit of the *target*. -/
theorem Rodeo.tryCloneFrom_spec {env : Env} {target source : Rodeo} (ht : target.Inv env) (hs : source.Inv env)
    (hN : target.N = source.N) (grow : Bool) :
    (∃ r', Rodeo.tryCloneFrom env target source grow = .ok r' ∧ r'.Inv env ∧ r'.N = target.N ∧
        r'.strings.length = source.strings.length ∧ (∀ j, r'.str env j = source.str env j) ∧
        r'.arena.max = target.arena.max) ∨
    Rodeo.tryCloneFrom env target source grow = .err .memoryLimit := by
  obtain ⟨cs, hcs, hlen, hget, hnd⟩ := Rodeo.contents_of_inv hs
  unfold Rodeo.tryCloneFrom
  simp only [hcs]
  have h0 : target.clear.Inv env := Rodeo.clear_inv ht
  have hspec := Rodeo.cloneInto_spec (env := env) grow cs target.clear h0 hnd
    (by intro x _ k; simp [Rodeo.clear, Rodeo.str, strAt])
  have e0 : target.clear.strings.length = 0 := rfl
  have e1 : target.clear.table = [] := rfl
  have e2 : target.clear.strings = [] := rfl
  rw [e0, e1, e2] at hspec
  rcases hspec with ⟨t, ss, a, he, hi, hl, hm, _, hnew⟩ | ⟨_, hN'⟩ | he
  · left
    simp only [he]
    refine ⟨_, rfl, hi, rfl, by simp at hl; simp [hl, hlen], ?_, by simpa [Rodeo.clear, Arena.clear] using hm⟩
    intro j
    by_cases hj : j < cs.length
    · have := hnew j hj
      simp only [Nat.zero_add] at this
      rw [← hget j]; exact this
    · have h1 : source.str env j = none := by rw [← hget j]; exact List.getElem?_eq_none (by omega)
      rw [h1]
      apply Option.eq_none_iff_forall_ne_some.mpr
      intro y hy
      have := Rodeo.Inv.str_lt hy
      simp at this hl
      omega
  · have := hs.lenLe
    simp [Rodeo.clear] at hN'
    omega
  · right; simp only [he]

end Lasso
