import LassoProofs.Lemmas.Threaded
import LassoProofs.Lemmas.History
/-
  Histories of state-changing calls on a `ThreadedRodeo` used from one thread.
-/
namespace Lasso

inductive TOp where
  | intern (x : Bytes)
  | internStatic (i : Nat)
  | setLimit (m : Nat)
  deriving Repr

def TOp.wellFormed (env : Env) : TOp → Prop
  | .internStatic i => i < env.pool.length
  | _ => True

def Threaded.apply (env : Env) (t : Threaded) : TOp → Threaded
  | .intern x => (t.tryIntern env x).1
  | .internStatic i => (t.tryInternStatic env i).1
  | .setLimit m => t.setLimit m

def Threaded.run (env : Env) (t : Threaded) (ops : List TOp) : Threaded := ops.foldl (Threaded.apply env) t

/-- One call keeps the invariant and every key -> string association, and adds none except the
one it reports. -/
theorem Threaded.apply_inv_keeps {env : Env} {t : Threaded} (h : t.Inv env) (op : TOp) (hw : op.wellFormed env) :
    (t.apply env op).Inv env ∧ ∀ k y, t.str env k = some y → (t.apply env op).str env k = some y := by
  cases op with
  | intern x =>
    simp only [Threaded.apply]
    rcases Threaded.tryIntern_spec h x with ⟨k, _, he⟩ | ⟨_, ⟨_, he⟩ | ⟨a', ref, _, ⟨_, he, hi, hk⟩ | ⟨_, he, hp⟩⟩⟩
    · rw [he]; exact ⟨h, fun _ _ h => h⟩
    · rw [he]; exact ⟨h, fun _ _ h => h⟩
    · rw [he]; exact ⟨hi, fun k y hy => (hk k y).mp hy⟩
    · rw [he]; exact ⟨hp.inv, hp.old⟩
  | internStatic i =>
    simp only [Threaded.apply]
    have hi : env.pool[i]? = some env.pool[i] := List.getElem?_eq_getElem hw
    rcases Threaded.tryInternStatic_spec h i _ hi with ⟨k, _, he⟩ | ⟨_, ⟨_, he, hi, hk⟩ | ⟨_, he, hp⟩⟩
    · rw [he]; exact ⟨h, fun _ _ h => h⟩
    · rw [he]; exact ⟨hi, fun k y hy => (hk k y).mp hy⟩
    · rw [he]; exact ⟨hp.inv, hp.old⟩
  | setLimit m => exact ⟨Threaded.setLimit_inv h m, fun _ _ h => h⟩

theorem Threaded.run_inv_keeps {env : Env} {t : Threaded} (h : t.Inv env) (ops : List TOp)
    (hw : ∀ op ∈ ops, op.wellFormed env) :
    (t.run env ops).Inv env ∧ ∀ k y, t.str env k = some y → (t.run env ops).str env k = some y := by
  induction ops generalizing t with
  | nil => exact ⟨h, fun _ _ h => h⟩
  | cons op rest ih =>
    simp only [Threaded.run, List.foldl_cons]
    obtain ⟨h1, h2⟩ := Threaded.apply_inv_keeps h op (hw op (by simp))
    obtain ⟨h3, h4⟩ := ih h1 (fun o ho => hw o (by simp [ho]))
    exact ⟨h3, fun k y hk => h4 k y (h2 k y hk)⟩

/-- Resolution paths of the concurrent interner read the key -> string map. -/
theorem Threaded.paths {env : Env} {t : Threaded} (k : Nat) (x : Bytes) (hk : t.str env k = some x) :
    t.resolve env k = .ok x ∧ t.tryResolve env k = .ok (some x) ∧ t.containsKey k = true := by
  unfold Threaded.str at hk
  unfold Threaded.resolve Threaded.tryResolve Threaded.containsKey
  cases hr : t.resolveRef k with
  | none => simp [hr] at hk
  | some r => simp only [hr] at hk; simp [hk]

theorem Threaded.unknown_key {env : Env} {t : Threaded} (h : t.Inv env) (k : Nat) (hk : t.strs.length ≤ k) :
    t.resolve env k = .panic ∧ t.tryResolve env k = .ok none ∧ t.containsKey k = false := by
  have : t.resolveRef k = none := by
    unfold Threaded.resolveRef
    cases hg : assocGet k t.strs with
    | none => rfl
    | some r =>
      have := (h.dense k).mpr ⟨r, mem_of_assocGet hg⟩
      omega
  simp [Threaded.resolve, Threaded.tryResolve, Threaded.containsKey, this]

end Lasso
