import LassoProofs.Lemmas.ConcArena
import LassoProofs.Lemmas.Grow
/-
  The growth steps of the arena machine (`growCap … pushCas`), run by one thread without interference,
  do exactly what the decision tree regenerated from `LockfreeArena::store_str` says
  (`Extracted.lockfreeGrow`, evaluated on the values of capacity, usage and limit in the state).
  This ties the hand-written micro-steps of `ConcArena.step` to the translated source, the same tree
  `larena_grow_is_source_tree` ties the sequential model to.
-/
namespace Lasso.CA
open Lasso Lasso.Source Lasso.Grow

def envOf (s : AS) (x : Bytes) : Env := { len := x.length, bucketCap := s.bucketCap, usage := s.usage, max := s.max }

/-- What the uninterrupted growth of thread 0 must have produced, according to the source's tree. -/
def Matches (s s' : AS) (rest : List Bytes) (x : Bytes) : Option Outcome → Prop
  | some .err =>
      s'.usage = s.usage ∧ s'.buckets = s.buckets ∧ s'.bucketCap = s.bucketCap ∧ s'.nextId = s.nextId ∧
      s'.log = (0, x, .err) :: s.log ∧ s'.ts = [{ pc := .idle, todo := rest }]
  | some (.grow claim size newCap place) =>
      x.length ≤ size ∧ place = .pushFront ∧
      s'.usage = s.usage + claim ∧ s'.buckets = freshB s.nextId size x :: s.buckets ∧
      s'.bucketCap = newCap.getD s.bucketCap ∧ s'.nextId = s.nextId + 1 ∧
      s'.log = (0, x, .ok s.nextId 0) :: s.log ∧ s'.ts = [{ pc := .idle, todo := rest }]
  | none => False

theorem solo_grow (s : AS) (x : Bytes) (rest : List Bytes) (hx : 0 < x.length)
    (ht : s.ts = [{ pc := .growCap x, todo := rest }]) :
    ∃ n, n ≤ 8 ∧ Matches s (run s (List.replicate n (0, false))) rest x (Grow.eval (envOf s x) Extracted.lockfreeGrow) := by
  rw [lockfreeGrow_spec (envOf s x) rfl rfl]
  simp only [growSpec, envOf]
  by_cases h1 : x.length > s.bucketCap * 2
  · -- oversized: growCap, allocMax, allocUpd, pushLoad, pushCas
    simp only [h1, decide_true, ↓reduceIte]
    by_cases h2 : s.usage + x.length > s.max
    · refine ⟨3, by omega, ?_⟩
      simp [List.replicate, run, step, ht, setPc, done, h1, h2, Matches]
    · refine ⟨5, by omega, ?_⟩
      have hne : ¬ x.length = 0 := by omega
      simp [List.replicate, run, step, ht, setPc, done, h1, h2, Matches, headId, freshB, hne]
  · simp only [h1, decide_false, Bool.false_eq_true, ↓reduceIte]
    by_cases h2 : s.usage + s.bucketCap * 2 > s.max
    · simp only [h2, decide_true, ↓reduceIte]
      by_cases h3 : s.max - s.usage < x.length
      · refine ⟨3, by omega, ?_⟩
        simp [List.replicate, run, step, ht, setPc, done, h1, h2, h3, Matches]
      · have h4 : ¬ s.usage + (s.max - s.usage) > s.max := by omega
        have h5 : ¬ s.max - s.usage = 0 := by omega
        refine ⟨7, by omega, ?_⟩
        simp [List.replicate, run, step, ht, setPc, done, h1, h2, h3, h4, h5, Matches, headId, freshB]
        omega
    · simp only [h2, decide_false, Bool.false_eq_true, ↓reduceIte]
      refine ⟨8, by omega, ?_⟩
      simp [List.replicate, run, step, ht, setPc, done, h1, h2, Matches, headId, freshB]
      omega

end Lasso.CA

namespace Lasso.CA
open Lasso

/-! ### The search for a block with room, run by one thread without interference -/

def fits (n : Nat) (b : ABucket) : Bool := decide (b.len + n ≤ b.cap)

/-- The cursor of the walk: nothing visited yet, or the last visited block is the last of `pre`. -/
def Cur (pre : List ABucket) : Option Nat → Prop
  | none => pre = []
  | some c => ∃ p b, pre = p ++ [b] ∧ b.id = c

theorem succOf_append_last (p : List ABucket) (b : ABucket) (rem : List ABucket)
    (hnd : ((p ++ [b] ++ rem).map (·.id)).Nodup) : succOf (p ++ [b] ++ rem) b.id = headId rem := by
  induction p with
  | nil => simp [succOf]
  | cons a r ih =>
    simp only [List.cons_append, List.map_cons, List.nodup_cons, List.mem_map] at hnd
    have hne : a.id ≠ b.id := by
      intro h
      exact hnd.1 ⟨b, by simp, h.symm⟩
    simp only [List.cons_append, succOf, hne, ↓reduceIte]
    exact ih hnd.2

theorem next_of_cur {pre rem : List ABucket} {cur : Option Nat} (hc : Cur pre cur)
    (hnd : ((pre ++ rem).map (·.id)).Nodup) :
    nextOf (pre ++ rem) cur = headId rem := by
  cases cur with
  | none => simp only [Cur] at hc; subst hc; rfl
  | some c =>
    obtain ⟨p, b, rfl, rfl⟩ := hc
    exact succOf_append_last p b rem hnd

theorem findB_mid (pre : List ABucket) (b : ABucket) (rem : List ABucket)
    (hnd : ((pre ++ b :: rem).map (·.id)).Nodup) : findB (pre ++ b :: rem) b.id = some b := by
  induction pre with
  | nil => simp [findB]
  | cons a r ih =>
    simp only [List.cons_append, List.map_cons, List.nodup_cons, List.mem_map] at hnd
    have hne : a.id ≠ b.id := fun h => hnd.1 ⟨b, by simp, h.symm⟩
    have : (a.id == b.id) = false := by simp [hne]
    simp only [List.cons_append, findB, List.find?_cons, this]
    exact ih hnd.2

/-- The reservation and the completed copy, as the two `updB`s the machine performs. -/
def stored (bs : List ABucket) (b : ABucket) (x : Bytes) : List ABucket :=
  updB (updB bs b.id fun k => { k with len := b.len + x.length, claims := { off := b.len, n := x.length, data := none } :: k.claims })
    b.id fun k => { k with claims := fillClaim k.claims b.len x }

theorem solo_walk (x : Bytes) (rest : List Bytes) (rem : List ABucket) :
    ∀ (s : AS) (pre : List ABucket) (cur : Option Nat),
      s.buckets = pre ++ rem → Cur pre cur → (s.buckets.map (·.id)).Nodup →
      s.ts = [{ pc := .walk x cur, todo := rest }] →
      ∃ sched : List (Nat × Bool), (∀ e ∈ sched, e = (0, false)) ∧
        match rem.find? (fits x.length) with
        | some b => run s sched = { s with ts := [{ pc := .idle, todo := rest }], log := (0, x, .ok b.id b.len) :: s.log,
                                           buckets := stored s.buckets b x }
        | none => run s sched = { s with ts := [{ pc := .growCap x, todo := rest }] } := by
  induction rem with
  | nil =>
    intro s pre cur hb hc hnd ht
    refine ⟨[(0, false)], by simp, ?_⟩
    have hn := next_of_cur hc (by rw [← hb]; exact hnd)
    rw [← hb] at hn
    simp only [List.find?_nil, run, step, ht, List.getElem?_cons_zero, hn]
    simp [headId, setPc, ht]
  | cons b rem' ih =>
    intro s pre cur hb hc hnd ht
    have hn := next_of_cur hc (by rw [← hb]; exact hnd)
    rw [← hb] at hn
    have hf : findB s.buckets b.id = some b := by rw [hb]; exact findB_mid pre b rem' (by rw [← hb]; exact hnd)
    by_cases hfit : b.len + x.length ≤ b.cap
    · -- walk, loadLen, cas (succeeds), copy
      refine ⟨[(0, false), (0, false), (0, false), (0, false)], by simp, ?_⟩
      have : fits x.length b = true := by simp [fits, hfit]
      simp only [List.find?_cons, this]
      simp [run, step, ht, hn, headId, setPc, hf, hfit, done, stored]
    · -- walk, loadLen (no room), then continue from the next block
      let s1 : AS := { s with ts := [{ pc := .walk x (some b.id), todo := rest }] }
      have hrun2 : run s [(0, false), (0, false)] = s1 := by
        simp [run, step, ht, hn, headId, setPc, hf, hfit, s1]
      obtain ⟨sched, hall, hres⟩ := ih s1 (pre ++ [b]) (some b.id) (by simp [s1, hb]) ⟨pre, b, rfl, rfl⟩ hnd rfl
      refine ⟨(0, false) :: (0, false) :: sched, by simpa using hall, ?_⟩
      have : fits x.length b = false := by simp [fits, hfit]
      simp only [List.find?_cons, this]
      have hcomp : run s ((0, false) :: (0, false) :: sched) = run s1 sched := by
        rw [← hrun2]
        simp only [run]
        cases h1 : step s 0 false with
        | none => simp [run, h1] at hrun2 ⊢
        | some sa =>
          simp only
          cases h2 : step sa 0 false <;> rfl
      rw [hcomp]
      cases hfind : rem'.find? (fits x.length) with
      | none => simp only [hfind] at hres; simpa [s1] using hres
      | some b' => simp only [hfind] at hres; simpa [s1] using hres

end Lasso.CA

namespace Lasso.CA
open Lasso Lasso.Grow

theorem run_append (s : AS) (a b : List (Nat × Bool)) : run s (a ++ b) = run (run s a) b := by
  induction a generalizing s with
  | nil => rfl
  | cons e r ih =>
    obtain ⟨t, sp⟩ := e
    simp only [List.cons_append, run]
    cases step s t sp <;> exact ih _

/-- **One `store_str` call run without interference**, from the call to its return: the string goes
into the first block of the list that has room; if none has, the outcome is what the decision tree
regenerated from the source says. -/
theorem solo_store (s : AS) (x : Bytes) (rest : List Bytes) (hnd : (s.buckets.map (·.id)).Nodup)
    (ht : s.ts = [{ pc := .idle, todo := x :: rest }]) :
    ∃ sched : List (Nat × Bool), (∀ e ∈ sched, e = (0, false)) ∧
      if x.length = 0 then
        run s sched = { s with ts := [{ pc := .idle, todo := rest }], log := (0, x, .empty) :: s.log }
      else match s.buckets.find? (fits x.length) with
        | some b => run s sched = { s with ts := [{ pc := .idle, todo := rest }], log := (0, x, .ok b.id b.len) :: s.log,
                                           buckets := stored s.buckets b x }
        | none => Matches s (run s sched) rest x (Grow.eval (envOf s x) Extracted.lockfreeGrow) := by
  by_cases hx : x.length = 0
  · refine ⟨[(0, false)], by simp, ?_⟩
    simp [hx, run, step, ht, done]
  · simp only [hx, ↓reduceIte]
    let s1 : AS := { s with ts := [{ pc := .walk x none, todo := rest }] }
    have h1 : run s [(0, false)] = s1 := by simp [run, step, ht, hx, s1]
    obtain ⟨sched, hall, hres⟩ := solo_walk x rest s.buckets s1 [] none rfl rfl hnd rfl
    cases hfind : s.buckets.find? (fits x.length) with
    | some b =>
      refine ⟨(0, false) :: sched, by simpa using hall, ?_⟩
      have : run s ((0, false) :: sched) = run s1 sched := by
        rw [← h1]; exact run_append s [(0, false)] sched
      rw [this]
      simp only [s1, hfind] at hres
      simpa [s1] using hres
    | none =>
      simp only [s1, hfind] at hres
      let s2 : AS := { s with ts := [{ pc := .growCap x, todo := rest }] }
      obtain ⟨n, _, hm⟩ := solo_grow s2 x rest (by omega) rfl
      refine ⟨(0, false) :: (sched ++ List.replicate n (0, false)), ?_, ?_⟩
      · intro e he
        simp only [List.mem_cons, List.mem_append, List.mem_replicate] at he
        rcases he with rfl | he | ⟨_, rfl⟩
        · rfl
        · exact hall e he
        · rfl
      · have : run s ((0, false) :: (sched ++ List.replicate n (0, false))) = run s2 (List.replicate n (0, false)) := by
          have e1 : run s ((0, false) :: (sched ++ List.replicate n (0, false))) = run (run s [(0, false)]) (sched ++ List.replicate n (0, false)) :=
            run_append s [(0, false)] _
          rw [e1, h1, run_append, hres]
        rw [this]
        -- `s2` differs from `s` in the thread list only
        have henv : envOf s2 x = envOf s x := rfl
        rw [henv] at hm
        revert hm
        cases Grow.eval (envOf s x) Extracted.lockfreeGrow with
        | none => exact id
        | some o => cases o <;> exact id

end Lasso.CA
