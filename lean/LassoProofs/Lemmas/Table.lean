import LassoModel.Rodeo
/-
  Helper lemmas about the raw-entry table, for an arbitrary hash function and an arbitrary
  "string of key" function `S`.
-/
namespace Lasso
set_option linter.unusedSimpArgs false

/-- Table invariant relative to the key->bytes function `S` of a vector of length `n`. -/
structure TInv (hash : Bytes → UInt64) (S : Nat → Option Bytes) (n : Nat) (t : Table) : Prop where
  placed : ∀ e ∈ t, ∃ s, S e.2 = some s ∧ e.1 = hash s
  covers : ∀ k, k < n → ∃ e ∈ t, e.2 = k
  bound : ∀ e ∈ t, e.2 < n

theorem TInv.empty (hash : Bytes → UInt64) (S : Nat → Option Bytes) : TInv hash S 0 [] := by
  constructor <;> simp

/-- The pure core of `tableFind`. -/
def tfind (hash : Bytes → UInt64) (S : Nat → Option Bytes) (t : Table) (x : Bytes) : Option Nat :=
  (t.find? (fun e => e.1 == hash x && S e.2 == some x)).map (·.2)

theorem tableFind_eq (env : Env) (read : Loc → Option Bytes) (strings : List StrRef) (t : Table) (x : Bytes)
    (hb : ∀ e ∈ t, e.2 < strings.length) :
    tableFind env read strings t x = .ok (tfind env.hash (strAt env read strings) t x) := by
  unfold tableFind tfind
  have : t.all (fun e => decide (e.2 < strings.length)) = true := by
    simp only [List.all_eq_true, decide_eq_true_eq]; exact hb
  simp [this]

theorem tfind_some {hash : Bytes → UInt64} {S : Nat → Option Bytes} {t : Table} {x : Bytes} {k : Nat}
    (h : tfind hash S t x = some k) : S k = some x ∧ ∃ e ∈ t, e.2 = k := by
  unfold tfind at h
  simp only [Option.map_eq_some_iff] at h
  obtain ⟨e, he, rfl⟩ := h
  have hm := List.mem_of_find?_eq_some he
  have hp := List.find?_some he
  simp only [Bool.and_eq_true, beq_iff_eq] at hp
  exact ⟨hp.2, e, hm, rfl⟩

theorem tfind_none {hash : Bytes → UInt64} {S : Nat → Option Bytes} {n : Nat} {t : Table} {x : Bytes}
    (hi : TInv hash S n t) (h : tfind hash S t x = none) : ∀ k, k < n → S k ≠ some x := by
  intro k hk hS
  unfold tfind at h
  simp only [Option.map_eq_none_iff, List.find?_eq_none] at h
  obtain ⟨e, he, rfl⟩ := hi.covers k hk
  obtain ⟨s, hs, hh⟩ := hi.placed e he
  have := h e he
  simp only [Bool.and_eq_true, beq_iff_eq, not_and] at this
  rw [hs] at hS
  injection hS with hS
  subst hS
  exact this hh hs

/-- With pairwise distinct contents the lookup is exact: it finds `k` iff key `k` holds `x`. -/
theorem tfind_spec {hash : Bytes → UInt64} {S : Nat → Option Bytes} {n : Nat} {t : Table} (x : Bytes)
    (hi : TInv hash S n t) (hdom : ∀ k y, S k = some y → k < n)
    (hd : ∀ i j y, S i = some y → S j = some y → i = j) (k : Nat) :
    tfind hash S t x = some k ↔ S k = some x := by
  constructor
  · intro h; exact (tfind_some h).1
  · intro hS
    cases hf : tfind hash S t x with
    | none => exact absurd hS (tfind_none hi hf k (hdom k x hS))
    | some j => rw [hd j k x (tfind_some hf).1 hS]

/-- The source's rehash closure re-places every entry exactly where it already is. -/
theorem rehashAll_id {hash : Bytes → UInt64} {S : Nat → Option Bytes} {t : Table}
    (hp : ∀ e ∈ t, ∃ s, S e.2 = some s ∧ e.1 = hash s) :
    rehashAll (fun k => (S k).map hash) t = some t := by
  induction t with
  | nil => rfl
  | cons e rest ih =>
    obtain ⟨s, hs, hh⟩ := hp e (by simp)
    have := ih (fun e' he' => hp e' (by simp [he']))
    simp only [rehashAll, hs, Option.map_some, this]
    cases e; simp_all

theorem tableInsert_ok {hash : Bytes → UInt64} {S : Nat → Option Bytes} {t : Table}
    (hp : ∀ e ∈ t, ∃ s, S e.2 = some s ∧ e.1 = hash s) (h : UInt64) (k : Nat) (grow : Bool) :
    tableInsert t h k grow (fun k => (S k).map hash) = .ok (t ++ [(h, k)]) := by
  unfold tableInsert
  cases grow <;> simp [rehashAll_id hp]

/-- Appending the entry for a new last key keeps the invariant, for the extended `S'`. -/
theorem TInv.push {hash : Bytes → UInt64} {S S' : Nat → Option Bytes} {n : Nat} {t : Table} {x : Bytes}
    (hi : TInv hash S n t) (hext : ∀ k, k < n → S' k = S k) (hnew : S' n = some x) :
    TInv hash S' (n + 1) (t ++ [(hash x, n)]) := by
  obtain ⟨h1, h2, h3⟩ := hi
  constructor
  · intro e he
    simp only [List.mem_append, List.mem_singleton] at he
    rcases he with he | rfl
    · obtain ⟨s, hs, hh⟩ := h1 e he
      exact ⟨s, by rw [hext _ (h3 e he)]; exact hs, hh⟩
    · exact ⟨x, hnew, rfl⟩
  · intro k hk
    by_cases hkn : k < n
    · obtain ⟨e, he, rfl⟩ := h2 k hkn
      exact ⟨e, by simp [he], rfl⟩
    · have : k = n := by omega
      subst this
      exact ⟨(hash x, k), by simp, rfl⟩
  · intro e he
    simp only [List.mem_append, List.mem_singleton] at he
    rcases he with he | rfl
    · have := h3 e he; omega
    · simp


theorem tableFind_cases (env : Env) (read : Loc → Option Bytes) (strings : List StrRef) (t : Table) (x : Bytes) :
    (∃ o, tableFind env read strings t x = .ok o) ∨ tableFind env read strings t x = .fault .oobIndex := by
  unfold tableFind
  split
  · exact Or.inl ⟨_, rfl⟩
  · exact Or.inr rfl

theorem tableInsert_cases (t : Table) (h : UInt64) (k : Nat) (grow : Bool) (rehash : Nat → Option UInt64) :
    (∃ t', tableInsert t h k grow rehash = .ok t') ∨ tableInsert t h k grow rehash = .fault .oobIndex := by
  unfold tableInsert
  split
  · split
    · exact Or.inl ⟨_, rfl⟩
    · exact Or.inr rfl
  · exact Or.inl ⟨_, rfl⟩

end Lasso
