import LassoProofs.Lemmas.LArena
import LassoProofs.Lemmas.Rodeo
import LassoModel.Views
/-
  The concurrent interner used from one thread: invariant and one-step facts.
-/
namespace Lasso
set_option linter.unusedSimpArgs false

theorem assocGet_of_mem {l : List (Nat × StrRef)} (hnd : (l.map (·.1)).Nodup) {k : Nat} {v : StrRef}
    (h : (k, v) ∈ l) : assocGet k l = some v := by
  induction l with
  | nil => simp at h
  | cons e rest ih =>
    simp only [List.map_cons, List.nodup_cons, List.mem_map] at hnd
    simp only [List.mem_cons] at h
    unfold assocGet
    simp only [List.find?_cons]
    rcases h with rfl | h
    · simp
    · have hne : e.1 ≠ k := by
        intro he; apply hnd.1; exact ⟨(k, v), h, by simp [he]⟩
      have : (e.1 == k) = false := by simp [hne]
      simp only [this]
      exact ih hnd.2 h

theorem mem_of_assocGet {l : List (Nat × StrRef)} {k : Nat} {v : StrRef} (h : assocGet k l = some v) : (k, v) ∈ l := by
  unfold assocGet at h
  simp only [Option.map_eq_some_iff] at h
  obtain ⟨e, he, rfl⟩ := h
  have hm := List.mem_of_find?_eq_some he
  have hp := List.find?_some he
  simp only [beq_iff_eq] at hp
  cases e; simp_all

structure Threaded.Inv (env : Env) (t : Threaded) : Prop where
  wf : t.arena.WF
  mapStr : ∀ ref k, (ref, k) ∈ t.map → (k, ref) ∈ t.strs
  strMap : ∀ k ref, (k, ref) ∈ t.strs → (ref, k) ∈ t.map
  strNd : (t.strs.map (·.1)).Nodup
  mapNd : (t.map.map (·.2)).Nodup
  dense : ∀ k, k < t.strs.length ↔ ∃ ref, (k, ref) ∈ t.strs
  ctr : t.ctr = t.strs.length ∨ (t.N ≤ t.ctr ∧ t.strs.length = t.N)
  valid : ∀ k loc, (k, StrRef.arena loc) ∈ t.strs → t.arena.valid loc ∧ loc.len ≠ 0
  statics : ∀ k i, (k, StrRef.static i) ∈ t.strs → i < env.pool.length
  disjoint : ∀ k1 l1 k2 l2, (k1, StrRef.arena l1) ∈ t.strs → (k2, StrRef.arena l2) ∈ t.strs → k1 ≠ k2 → l1.disjoint l2
  distinct : ∀ i j y, t.str env i = some y → t.str env j = some y → i = j
  lenLe : t.strs.length ≤ t.N

theorem Threaded.new_inv (env : Env) (N cap max : Nat) (h : 0 < cap) : (Threaded.new N cap max).Inv env := by
  constructor <;> simp [Threaded.new, LArena.new_wf _ _ h, Threaded.str, Threaded.resolveRef, assocGet]

theorem Threaded.str_iff {env : Env} {t : Threaded} (h : t.Inv env) (k : Nat) (y : Bytes) :
    t.str env k = some y ↔ ∃ ref, (k, ref) ∈ t.strs ∧ t.content env ref = some y := by
  unfold Threaded.str Threaded.resolveRef
  constructor
  · intro hs
    cases hg : assocGet k t.strs with
    | none => simp [hg] at hs
    | some ref => simp only [hg] at hs; exact ⟨ref, mem_of_assocGet hg, hs⟩
  · rintro ⟨ref, hm, hc⟩
    rw [assocGet_of_mem h.strNd hm]; exact hc

theorem Threaded.content_some {env : Env} {t : Threaded} (h : t.Inv env) {k : Nat} {ref : StrRef}
    (hm : (k, ref) ∈ t.strs) : ∃ y, t.content env ref = some y := by
  cases ref with
  | arena loc =>
    obtain ⟨hv, _⟩ := h.valid k loc hm
    exact (LArena.valid_iff_read h.wf loc).mp hv
  | static i =>
    have := h.statics k i hm
    exact ⟨env.pool[i], by simp [Threaded.content, contentOf, this]⟩
  | empty => exact ⟨[], rfl⟩

/-- `get` answers exactly "which key holds `x`". -/
theorem Threaded.get_spec {env : Env} {t : Threaded} (h : t.Inv env) (x : Bytes) (k : Nat) :
    t.get env x = some k ↔ t.str env k = some x := by
  unfold Threaded.get
  constructor
  · intro hg
    simp only [Option.map_eq_some_iff] at hg
    obtain ⟨e, he, rfl⟩ := hg
    have hm := List.mem_of_find?_eq_some he
    have hp := List.find?_some he
    simp only [beq_iff_eq] at hp
    exact (Threaded.str_iff h _ _).mpr ⟨e.1, h.mapStr e.1 e.2 hm, hp⟩
  · intro hs
    obtain ⟨ref, hm, hc⟩ := (Threaded.str_iff h _ _).mp hs
    have hmm := h.strMap k ref hm
    cases hf : t.map.find? (fun e => t.content env e.1 == some x) with
    | none =>
      rw [List.find?_eq_none] at hf
      have := hf (ref, k) hmm
      simp [hc] at this
    | some e =>
      have hm2 := List.mem_of_find?_eq_some hf
      have hp := List.find?_some hf
      simp only [beq_iff_eq] at hp
      have : t.str env e.2 = some x := (Threaded.str_iff h _ _).mpr ⟨e.1, h.mapStr e.1 e.2 hm2, hp⟩
      simp [h.distinct e.2 k x this hs]


theorem assocGet_cons (k idx : Nat) (ref : StrRef) (l : List (Nat × StrRef)) :
    assocGet k ((idx, ref) :: l) = if idx = k then some ref else assocGet k l := by
  unfold assocGet
  simp only [List.find?_cons]
  by_cases h : idx = k
  · simp [h]
  · have : (idx == k) = false := by simp [h]
    simp [this, h]

/-- What a successful insertion of a new string produces. -/
structure Threaded.Pushed (env : Env) (t t' : Threaded) (x : Bytes) (ref : StrRef) : Prop where
  inv : t'.Inv env
  sameN : t'.N = t.N
  strs : t'.strs = (t.strs.length, ref) :: t.strs
  newStr : t'.str env t.strs.length = some x
  old : ∀ j y, t.str env j = some y → t'.str env j = some y
  maxSame : t'.arena.max = t.arena.max

/-- The state after both inserts of a successful intern of a new string. -/
def Threaded.pushState (t : Threaded) (a' : LArena) (ref : StrRef) : Threaded :=
  { t with arena := a', ctr := t.ctr + 1, strs := (t.strs.length, ref) :: t.strs,
           map := t.map ++ [(ref, t.strs.length)] }

/-- Installing `(idx, ref)` with fresh `idx = len` in both maps, over an arena that preserves reads. -/
theorem Threaded.push_inv {env : Env} {t : Threaded} (h : t.Inv env) {a' : LArena} {ref : StrRef} {x : Bytes}
    (hwf : a'.WF) (hmono : ∀ l y, t.arena.read l = some y → a'.read l = some y)
    (hc : contentOf env a'.read ref = some x)
    (hnew : ∀ k, t.str env k ≠ some x) (hctr : t.ctr = t.strs.length) (hlen : t.strs.length < t.N)
    (hvalid : ∀ loc, ref = .arena loc → a'.valid loc ∧ loc.len ≠ 0 ∧ ∀ l, t.arena.valid l → l.disjoint loc)
    (hstat : ∀ i, ref = .static i → i < env.pool.length) (hmax : a'.max = t.arena.max) :
    Threaded.Pushed env t
      (t.pushState a' ref) x ref := by
  have hfresh : ∀ r, (t.strs.length, r) ∉ t.strs := by
    intro r hm
    have := (h.dense t.strs.length).mpr ⟨r, hm⟩
    omega
  have hstr : ∀ k, (t.pushState a' ref).str env k =
      if t.strs.length = k then some x else (assocGet k t.strs).bind (contentOf env a'.read) := by
    intro k
    simp only [Threaded.pushState, Threaded.str, Threaded.resolveRef, Threaded.content, assocGet_cons]
    by_cases hk : t.strs.length = k
    · simp [hk, hc]
    · simp only [hk, ↓reduceIte]
      cases assocGet k t.strs <;> rfl
  have hold : ∀ j y, t.str env j = some y →
      (t.pushState a' ref).str env j = some y := by
    intro j y hj
    rw [hstr]
    obtain ⟨r, hm, hcr⟩ := (Threaded.str_iff h j y).mp hj
    have hne : t.strs.length ≠ j := by
      intro he; subst he; exact hfresh r hm
    simp only [hne, ↓reduceIte, assocGet_of_mem h.strNd hm, Option.bind_some]
    exact contentOf_mono hmono hcr
  refine ⟨?_, rfl, rfl, by rw [hstr]; simp, hold, hmax⟩
  have hstr' := hstr
  simp only [Threaded.pushState] at hstr'
  unfold Threaded.pushState
  constructor
  · exact hwf
  · intro r k hm
    simp only [List.mem_append, List.mem_singleton, Prod.mk.injEq] at hm
    rcases hm with hm | ⟨rfl, rfl⟩
    · exact List.mem_cons_of_mem _ (h.mapStr r k hm)
    · simp
  · intro k r hm
    simp only [List.mem_cons, Prod.mk.injEq] at hm
    simp only [List.mem_append, List.mem_singleton, Prod.mk.injEq]
    rcases hm with ⟨rfl, rfl⟩ | hm
    · right; exact ⟨rfl, rfl⟩
    · left; exact h.strMap k r hm
  · simp only [List.map_cons, List.nodup_cons, List.mem_map]
    refine ⟨?_, h.strNd⟩
    rintro ⟨e, he, hk⟩
    cases e with
    | mk k r => simp at hk; subst hk; exact hfresh r he
  · simp only [List.map_append, List.map_cons, List.map_nil]
    rw [List.nodup_append]
    refine ⟨h.mapNd, by simp, ?_⟩
    intro a ha b hb
    simp only [List.mem_singleton] at hb
    subst hb
    simp only [List.mem_map] at ha
    obtain ⟨e, he, rfl⟩ := ha
    intro heq
    have := h.mapStr e.1 e.2 he
    rw [heq] at this
    exact hfresh e.1 this
  · intro k
    simp only [List.length_cons, List.mem_cons, Prod.mk.injEq]
    constructor
    · intro hk
      by_cases hkl : k < t.strs.length
      · obtain ⟨r, hr⟩ := (h.dense k).mp hkl
        exact ⟨r, Or.inr hr⟩
      · exact ⟨ref, Or.inl ⟨by omega, rfl⟩⟩
    · rintro ⟨r, ⟨rfl, _⟩ | hr⟩
      · omega
      · have := (h.dense k).mpr ⟨r, hr⟩; omega
  · left; simp; omega
  · intro k loc hm
    simp only [List.mem_cons, Prod.mk.injEq] at hm
    rcases hm with ⟨rfl, hr⟩ | hm
    · obtain ⟨hv, hl, _⟩ := hvalid loc hr.symm
      exact ⟨hv, hl⟩
    · obtain ⟨hv, hl⟩ := h.valid k loc hm
      refine ⟨?_, hl⟩
      obtain ⟨y, hy⟩ := (LArena.valid_iff_read h.wf loc).mp hv
      exact (LArena.valid_iff_read hwf loc).mpr ⟨y, hmono _ _ hy⟩
  · intro k i hm
    simp only [List.mem_cons, Prod.mk.injEq] at hm
    rcases hm with ⟨rfl, hr⟩ | hm
    · exact hstat i hr.symm
    · exact h.statics k i hm
  · intro k1 l1 k2 l2 h1 h2 hne
    simp only [List.mem_cons, Prod.mk.injEq] at h1 h2
    rcases h1 with ⟨rfl, hr1⟩ | h1 <;> rcases h2 with ⟨rfl, hr2⟩ | h2
    · exact absurd rfl hne
    · obtain ⟨_, _, hd⟩ := hvalid l1 hr1.symm
      have := hd l2 (h.valid k2 l2 h2).1
      unfold Loc.disjoint at *
      omega
    · obtain ⟨_, _, hd⟩ := hvalid l2 hr2.symm
      exact hd l1 (h.valid k1 l1 h1).1
    · exact h.disjoint k1 l1 k2 l2 h1 h2 hne
  · intro i j y hi hj
    have hinv : ∀ k y, ({ t with arena := a', ctr := t.ctr + 1, strs := (t.strs.length, ref) :: t.strs, map := t.map ++ [(ref, t.strs.length)] } : Threaded).str env k = some y →
        (k = t.strs.length ∧ y = x) ∨ (k ≠ t.strs.length ∧ t.str env k = some y) := by
      intro k y hk
      rw [hstr'] at hk
      by_cases hkl : t.strs.length = k
      · simp only [hkl, ↓reduceIte] at hk
        injection hk with hk
        exact Or.inl ⟨hkl.symm, hk.symm⟩
      · simp only [hkl, ↓reduceIte] at hk
        right
        refine ⟨fun e => hkl e.symm, ?_⟩
        cases hg : assocGet k t.strs with
        | none => simp [hg] at hk
        | some r =>
          simp only [hg, Option.bind_some] at hk
          have hm := mem_of_assocGet hg
          obtain ⟨y', hy'⟩ := Threaded.content_some h hm
          have : contentOf env a'.read r = some y' := contentOf_mono hmono hy'
          rw [this] at hk; injection hk with hk; subst hk
          exact (Threaded.str_iff h k _).mpr ⟨r, hm, hy'⟩
    rcases hinv i y hi with ⟨rfl, rfl⟩ | ⟨hi1, hi2⟩ <;> rcases hinv j y hj with ⟨rfl, hjx⟩ | ⟨hj1, hj2⟩
    · rfl
    · exact absurd hj2 (hnew j)
    · subst hjx; exact absurd hi2 (hnew i)
    · exact h.distinct i j y hi2 hj2
  · simp; omega


theorem assocInsert_fresh {l : List (Nat × StrRef)} {k : Nat} (v : StrRef) (h : ∀ e ∈ l, e.1 ≠ k) :
    assocInsert k v l = (k, v) :: l := by
  unfold assocInsert
  congr 1
  rw [List.filter_eq_self]
  intro e he
  simp [h e he]

/-- A failed key mint: the counter and (for the copying path) the arena have moved, both maps are
untouched; every association and the invariant survive. -/
theorem Threaded.burn_inv {env : Env} {t : Threaded} (h : t.Inv env) {a' : LArena}
    (hwf : a'.WF) (hmono : ∀ l y, t.arena.read l = some y → a'.read l = some y)
    (hfull : t.N ≤ t.ctr) :
    ({ t with arena := a', ctr := t.ctr + 1 } : Threaded).Inv env ∧
    (∀ k y, t.str env k = some y → ({ t with arena := a', ctr := t.ctr + 1 } : Threaded).str env k = some y) ∧
    (∀ k y, ({ t with arena := a', ctr := t.ctr + 1 } : Threaded).str env k = some y → t.str env k = some y) := by
  have hfwd : ∀ k y, t.str env k = some y → ({ t with arena := a', ctr := t.ctr + 1 } : Threaded).str env k = some y := by
    intro k y hk
    obtain ⟨r, hm, hc⟩ := (Threaded.str_iff h k y).mp hk
    simp only [Threaded.str, Threaded.resolveRef, Threaded.content, assocGet_of_mem h.strNd hm]
    exact contentOf_mono hmono hc
  have hbwd : ∀ k y, ({ t with arena := a', ctr := t.ctr + 1 } : Threaded).str env k = some y → t.str env k = some y := by
    intro k y hk
    simp only [Threaded.str, Threaded.resolveRef, Threaded.content] at hk
    cases hg : assocGet k t.strs with
    | none => simp [hg] at hk
    | some r =>
      simp only [hg] at hk
      have hm := mem_of_assocGet hg
      obtain ⟨y', hy'⟩ := Threaded.content_some h hm
      have : contentOf env a'.read r = some y' := contentOf_mono hmono hy'
      rw [this] at hk; injection hk with hk; subst hk
      exact (Threaded.str_iff h k _).mpr ⟨r, hm, hy'⟩
  refine ⟨?_, hfwd, hbwd⟩
  obtain ⟨h1, h2, h3, h4, h4b, h5, h6, h7, h8, h9, h10, h11⟩ := h
  refine ⟨hwf, h2, h3, h4, h4b, h5, ?_, ?_, h8, h9, ?_, h11⟩
  · right
    simp only
    rcases h6 with h6 | h6 <;> omega
  · intro k loc hm
    obtain ⟨hv, hl⟩ := h7 k loc hm
    refine ⟨?_, hl⟩
    obtain ⟨y, hy⟩ := (LArena.valid_iff_read h1 loc).mp hv
    exact (LArena.valid_iff_read hwf loc).mpr ⟨y, hmono _ _ hy⟩
  · intro i j y hi hj
    exact h10 i j y (hbwd i y hi) (hbwd j y hj)

/-- Complete case analysis of `ThreadedRodeo::try_get_or_intern` used from one thread. -/
theorem Threaded.tryIntern_spec {env : Env} {t : Threaded} (h : t.Inv env) (x : Bytes) :
    (∃ k, t.str env k = some x ∧ t.tryIntern env x = (t, .ok k)) ∨
    ((∀ k, t.str env k ≠ some x) ∧
      ((t.arena.store x = .err .memoryLimit ∧ t.tryIntern env x = (t, .err .memoryLimit)) ∨
       (∃ a' ref, t.arena.store x = .ok (a', ref) ∧
          ((t.strs.length = t.N ∧ t.tryIntern env x = ({ t with arena := a', ctr := t.ctr + 1 }, .err .keySpace) ∧
              ({ t with arena := a', ctr := t.ctr + 1 } : Threaded).Inv env ∧
              (∀ k y, t.str env k = some y ↔ ({ t with arena := a', ctr := t.ctr + 1 } : Threaded).str env k = some y)) ∨
           (t.strs.length < t.N ∧ t.tryIntern env x = (t.pushState a' ref, .ok t.strs.length) ∧
              Threaded.Pushed env t (t.pushState a' ref) x ref))))) := by
  unfold Threaded.tryIntern
  cases hg : t.get env x with
  | some k =>
    left
    exact ⟨k, (Threaded.get_spec h x k).mp hg, rfl⟩
  | none =>
    right
    have hnew : ∀ k, t.str env k ≠ some x := by
      intro k hk
      have := (Threaded.get_spec h x k).mpr hk
      rw [hg] at this; simp at this
    refine ⟨hnew, ?_⟩
    simp only
    cases hst : t.arena.store x with
    | err e =>
      left
      obtain ⟨rfl, _⟩ := LArena.store_err hst
      exact ⟨rfl, rfl⟩
    | panic => exact absurd hst (LArena.store_no_panic x)
    | fault f => exact absurd hst (LArena.store_no_fault x f)
    | ok p =>
      right
      obtain ⟨a', ref⟩ := p
      refine ⟨a', ref, rfl, ?_⟩
      have hwf' := LArena.store_wf h.wf hst
      have hmono : ∀ l y, t.arena.read l = some y → a'.read l = some y :=
        fun l y hr => LArena.store_read_old h.wf hst l y hr
      simp only
      unfold keyOfIndex
      by_cases hlt : t.ctr < t.N
      · right
        have hctr : t.ctr = t.strs.length := by
          rcases h.ctr with hc | hc
          · exact hc
          · omega
        have hc : contentOf env a'.read ref = some x := by
          rcases LArena.store_nonempty_ref hst with ⟨h0, rfl, _⟩ | ⟨_, loc, rfl, _⟩
          · simp [contentOf]; exact List.eq_nil_of_length_eq_zero h0
          · simp only [contentOf]; exact LArena.store_read_new h.wf hst
        have hvalid : ∀ loc, ref = .arena loc → a'.valid loc ∧ loc.len ≠ 0 ∧ ∀ l, t.arena.valid l → l.disjoint loc := by
          intro loc hl
          subst hl
          refine ⟨(LArena.valid_iff_read hwf' loc).mpr ⟨x, LArena.store_read_new h.wf hst⟩, ?_, ?_⟩
          · rcases LArena.store_nonempty_ref hst with ⟨_, hh, _⟩ | ⟨h0, loc', hh, hl⟩
            · simp at hh
            · injection hh with hh; subst hh; omega
          · intro l hv; exact LArena.store_disjoint h.wf hst l hv
        have hstat : ∀ i, ref = .static i → i < env.pool.length := by
          intro i hi
          rcases LArena.store_nonempty_ref hst with ⟨_, hh, _⟩ | ⟨_, loc', hh, _⟩ <;> simp [hi] at hh
        have hp := Threaded.push_inv h hwf' hmono hc hnew hctr (by omega) hvalid hstat (LArena.store_usage hst).1
        refine ⟨by omega, ?_, hp⟩
        simp only [hlt, ↓reduceIte]
        have hfr : ∀ e ∈ t.strs, e.1 ≠ t.ctr := by
          intro e he hek
          have := (h.dense e.1).mpr ⟨e.2, he⟩
          omega
        rw [assocInsert_fresh ref hfr]
        simp [Threaded.pushState, hctr]
      · left
        have hfull : t.N ≤ t.ctr := by omega
        have hlen : t.strs.length = t.N := by
          rcases h.ctr with hc | hc
          · have := h.lenLe; omega
          · exact hc.2
        obtain ⟨hi, hf, hb⟩ := Threaded.burn_inv h hwf' hmono hfull
        refine ⟨hlen, ?_, hi, fun k y => ⟨hf k y, hb k y⟩⟩
        simp [hlt]


/-- Complete case analysis of `ThreadedRodeo::try_get_or_intern_static` used from one thread. -/
theorem Threaded.tryInternStatic_spec {env : Env} {t : Threaded} (h : t.Inv env) (i : Nat) (x : Bytes)
    (hp : env.pool[i]? = some x) :
    (∃ k, t.str env k = some x ∧ t.tryInternStatic env i = (t, .ok k)) ∨
    ((∀ k, t.str env k ≠ some x) ∧
      ((t.strs.length = t.N ∧ t.tryInternStatic env i = ({ t with ctr := t.ctr + 1 }, .err .keySpace) ∧
          ({ t with ctr := t.ctr + 1 } : Threaded).Inv env ∧
          (∀ k y, t.str env k = some y ↔ ({ t with ctr := t.ctr + 1 } : Threaded).str env k = some y)) ∨
       (t.strs.length < t.N ∧ t.tryInternStatic env i = (t.pushState t.arena (.static i), .ok t.strs.length) ∧
          Threaded.Pushed env t (t.pushState t.arena (.static i)) x (.static i)))) := by
  unfold Threaded.tryInternStatic
  simp only [hp]
  cases hg : t.get env x with
  | some k =>
    left
    exact ⟨k, (Threaded.get_spec h x k).mp hg, rfl⟩
  | none =>
    right
    have hnew : ∀ k, t.str env k ≠ some x := by
      intro k hk
      have := (Threaded.get_spec h x k).mpr hk
      rw [hg] at this; simp at this
    refine ⟨hnew, ?_⟩
    simp only
    have hmono : ∀ l y, t.arena.read l = some y → t.arena.read l = some y := fun _ _ h => h
    unfold keyOfIndex
    by_cases hlt : t.ctr < t.N
    · right
      have hctr : t.ctr = t.strs.length := by
        rcases h.ctr with hc | hc
        · exact hc
        · omega
      have hil : i < env.pool.length := (List.getElem?_eq_some_iff.mp hp).1
      have hc : contentOf env t.arena.read (.static i) = some x := by simp [contentOf, hp]
      have hpsh := Threaded.push_inv (ref := .static i) h h.wf hmono hc hnew hctr (by omega) (by simp) (by simp; exact hil) rfl
      refine ⟨by omega, ?_, hpsh⟩
      simp only [hlt, ↓reduceIte]
      have hfr : ∀ e ∈ t.strs, e.1 ≠ t.ctr := by
        intro e he hek
        have := (h.dense e.1).mpr ⟨e.2, he⟩
        omega
      rw [assocInsert_fresh _ hfr]
      simp [Threaded.pushState, hctr]
    · left
      have hfull : t.N ≤ t.ctr := by omega
      have hlen : t.strs.length = t.N := by
        rcases h.ctr with hc | hc
        · have := h.lenLe; omega
        · exact hc.2
      obtain ⟨hi, hf, hb⟩ := Threaded.burn_inv (a' := t.arena) h h.wf hmono hfull
      refine ⟨hlen, ?_, hi, fun k y => ⟨hf k y, hb k y⟩⟩
      simp [hlt]

theorem Threaded.setLimit_inv {env : Env} {t : Threaded} (h : t.Inv env) (m : Nat) : (t.setLimit m).Inv env := by
  obtain ⟨h1, h2, h3, h4, h4b, h5, h6, h7, h8, h9, h10, h11⟩ := h
  have hwf : ({ t.arena with max := m } : LArena).WF := by
    obtain ⟨a1, a2, a3, a4, a5⟩ := h1
    exact ⟨a1, a2, a3, a4, a5⟩
  exact ⟨hwf, h2, h3, h4, h4b, h5, h6, h7, h8, h9, h10, h11⟩

end Lasso
