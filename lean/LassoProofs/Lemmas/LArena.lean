import LassoProofs.Lemmas.Arena
/-
  Helper lemmas about the lock-free arena used from one thread.
-/
namespace Lasso
set_option linter.unusedSimpArgs false

structure LArena.WF (a : LArena) : Prop where
  fits : ∀ b ∈ a.buckets, b.data.length ≤ b.cap
  ids : (a.buckets.map (·.id)).Nodup
  fresh : ∀ b ∈ a.buckets, b.id < a.nextId
  usage_eq : a.usage = sumCaps a.buckets
  capPos : 0 < a.bucketCap

def LArena.valid (a : LArena) (l : Loc) : Prop := ∃ b ∈ a.buckets, b.id = l.bid ∧ l.off + l.len ≤ b.data.length

theorem LArena.new_wf (cap max : Nat) (h : 0 < cap) : (LArena.new cap max).WF := by
  constructor <;> simp [LArena.new, sumCaps, sumNat, h]

/-- What a successful first-fit does to the list. -/
theorem fitIn_spec {s : Bytes} {bs bs' : List Bucket} {loc : Loc} (h : LArena.fitIn s bs = some (bs', loc)) :
    ∃ pre b post, bs = pre ++ b :: post ∧ bs' = pre ++ { b with data := b.data ++ s } :: post ∧
      b.data.length + s.length ≤ b.cap ∧ loc = { bid := b.id, off := b.data.length, len := s.length } := by
  induction bs generalizing bs' loc with
  | nil => simp [LArena.fitIn] at h
  | cons c rest ih =>
    unfold LArena.fitIn at h
    split at h
    · simp at h
      obtain ⟨rfl, rfl⟩ := h
      exact ⟨[], c, rest, rfl, rfl, by assumption, rfl⟩
    · split at h <;> simp at h
      next r l heq =>
        obtain ⟨rfl, rfl⟩ := h
        obtain ⟨pre, b, post, h1, h2, h3, h4⟩ := ih heq
        exact ⟨c :: pre, b, post, by simp [h1], by simp [h2], h3, h4⟩

theorem fitIn_none {s : Bytes} {bs : List Bucket} (h : LArena.fitIn s bs = none) :
    ∀ b ∈ bs, b.cap < b.data.length + s.length := by
  induction bs with
  | nil => simp
  | cons c rest ih =>
    unfold LArena.fitIn at h
    split at h
    · simp at h
    · split at h <;> simp at h
      next heq =>
        intro b hb
        simp only [List.mem_cons] at hb
        rcases hb with rfl | hb
        · omega
        · exact ih heq b hb

theorem sumCaps_update (pre post : List Bucket) (b b' : Bucket) (h : b'.cap = b.cap) :
    sumCaps (pre ++ b' :: post) = sumCaps (pre ++ b :: post) := by
  simp [sumCaps_append, sumCaps_cons, h]

theorem LArena.store_def (a : LArena) (s : Bytes) : a.store s =
    (if s.length = 0 then .ok (a, .empty) else
     match LArena.fitIn s a.buckets with
     | some (bs, loc) => .ok ({ a with buckets := bs }, .arena loc)
     | none => a.grow s) := rfl

theorem LArena.store_no_panic {a : LArena} (s : Bytes) : a.store s ≠ .panic := by
  unfold LArena.store LArena.grow
  grind

theorem LArena.store_no_fault {a : LArena} (s : Bytes) (f : Fault) : a.store s ≠ .fault f := by
  unfold LArena.store LArena.grow
  grind

theorem LArena.grow_wf {a a' : LArena} {s : Bytes} {r : StrRef} (h : a.WF) (hs : a.grow s = .ok (a', r)) : a'.WF := by
  obtain ⟨h1, h2, h3, h4, h5⟩ := h
  unfold LArena.grow at hs
  constructor <;>
    simp only [List.mem_cons, List.map_cons, List.nodup_cons, List.mem_map] at * <;>
    grind [sumCaps_cons]

theorem LArena.store_wf {a a' : LArena} {s : Bytes} {r : StrRef} (h : a.WF) (hs : a.store s = .ok (a', r)) : a'.WF := by
  rw [LArena.store_def] at hs
  split at hs
  · simp at hs; obtain ⟨rfl, _⟩ := hs; exact h
  split at hs
  next bs loc heq =>
    obtain ⟨h1, h2, h3, h4, h5⟩ := h
    simp at hs
    obtain ⟨rfl, _⟩ := hs
    obtain ⟨pre, b, post, e1, e2, hle, _⟩ := fitIn_spec heq
    constructor
    · intro c hc
      simp only [e2, List.mem_append, List.mem_cons] at hc
      simp only [e1, List.mem_append, List.mem_cons] at h1
      rcases hc with hc | rfl | hc
      · exact h1 c (Or.inl hc)
      · simp; omega
      · exact h1 c (Or.inr (Or.inr hc))
    · simpa [e1, e2] using h2
    · intro c hc
      simp only [e2, List.mem_append, List.mem_cons] at hc
      simp only [e1, List.mem_append, List.mem_cons] at h3
      rcases hc with hc | rfl | hc
      · exact h3 c (Or.inl hc)
      · exact h3 b (Or.inr (Or.inl rfl))
      · exact h3 c (Or.inr (Or.inr hc))
    · simp only [e1] at h4
      simp only [e2]
      rw [h4]; simp [sumCaps_append, sumCaps_cons]
    · exact h5
  · exact LArena.grow_wf h hs

theorem LArena.store_usage {a a' : LArena} {s : Bytes} {r : StrRef} (hs : a.store s = .ok (a', r)) :
    a'.max = a.max ∧ (a'.usage = a.usage ∨ (a.usage < a'.usage ∧ a'.usage ≤ a.max)) := by
  unfold LArena.store LArena.grow at hs
  grind

theorem LArena.store_err {a : LArena} {s : Bytes} {e : Err} (hs : a.store s = .err e) :
    e = .memoryLimit ∧ s.length ≠ 0 ∧ a.usage + s.length > a.max ∧ LArena.fitIn s a.buckets = none := by
  unfold LArena.store LArena.grow at hs
  grind

theorem LArena.store_err_of {a : LArena} {s : Bytes} (h0 : s.length ≠ 0) (h1 : LArena.fitIn s a.buckets = none)
    (h2 : a.usage + s.length > a.max) : a.store s = .err .memoryLimit := by
  unfold LArena.store LArena.grow
  simp only [h0, h1, ↓reduceIte]
  grind

theorem LArena.store_nonempty_ref {a a' : LArena} {s : Bytes} {r : StrRef} (hs : a.store s = .ok (a', r)) :
    (s.length = 0 ∧ r = .empty ∧ a' = a) ∨ (s.length ≠ 0 ∧ ∃ loc, r = .arena loc ∧ loc.len = s.length) := by
  rw [LArena.store_def] at hs
  split at hs
  · simp at hs; left; exact ⟨by assumption, hs.2.symm, hs.1.symm⟩
  right
  refine ⟨by assumption, ?_⟩
  split at hs
  next bs loc heq =>
    simp at hs
    obtain ⟨pre, b, post, _, _, _, e4⟩ := fitIn_spec heq
    exact ⟨loc, hs.2.symm, by simp [e4]⟩
  · unfold LArena.grow at hs
    grind

theorem LArena.valid_iff_read {a : LArena} (h : a.WF) (l : Loc) : a.valid l ↔ ∃ x, a.read l = some x := by
  constructor
  · rintro ⟨b, hb, hid, hle⟩
    refine ⟨(b.data.drop l.off).take l.len, ?_⟩
    unfold LArena.read
    rw [readIn_of_mem h.ids hb l hid]
    simp [Bucket.readAt, hle]
  · rintro ⟨x, hx⟩
    obtain ⟨c, hc, hid, hrd⟩ := readIn_some_mem hx
    refine ⟨c, hc, hid, ?_⟩
    unfold Bucket.readAt at hrd
    split at hrd <;> simp_all

theorem LArena.store_read_new {a a' : LArena} {s : Bytes} {loc : Loc} (h : a.WF)
    (hs : a.store s = .ok (a', .arena loc)) : a'.read loc = some s := by
  have hwf' := LArena.store_wf h hs
  rw [LArena.store_def] at hs
  split at hs
  · simp at hs
  split at hs
  next bs loc' heq =>
    simp at hs
    obtain ⟨rfl, rfl⟩ := hs
    obtain ⟨pre, b, post, e1, e2, hle, e4⟩ := fitIn_spec heq
    unfold LArena.read
    rw [readIn_of_mem hwf'.ids (b := { b with data := b.data ++ s }) (by simp [e2]) loc' (by simp [e4])]
    simp [e4, Bucket.readAt]
  · unfold LArena.grow at hs
    unfold LArena.read
    simp only at hs
    split at hs
    · split at hs <;> simp at hs
      obtain ⟨rfl, rfl⟩ := hs
      simp [readIn_cons, Bucket.readAt]
    · split at hs
      · split at hs <;> try simp at hs
        split at hs <;> try simp at hs
        split at hs <;> try simp at hs
        split at hs <;> simp at hs
        obtain ⟨rfl, rfl⟩ := hs
        simp [readIn_cons, Bucket.readAt]
      · split at hs <;> simp at hs
        obtain ⟨rfl, rfl⟩ := hs
        simp [readIn_cons, Bucket.readAt]

theorem LArena.store_read_old {a a' : LArena} {s : Bytes} {r : StrRef} (h : a.WF)
    (hs : a.store s = .ok (a', r)) (l : Loc) (x : Bytes) (hr : a.read l = some x) : a'.read l = some x := by
  have hwf' := LArena.store_wf h hs
  obtain ⟨c, hc, hid, hrd⟩ := readIn_some_mem hr
  have hlt : c.id < a.nextId := h.fresh c hc
  rw [LArena.store_def] at hs
  split at hs
  · simp at hs; obtain ⟨rfl, _⟩ := hs; exact hr
  split at hs
  next bs loc' heq =>
    simp at hs
    obtain ⟨rfl, _⟩ := hs
    obtain ⟨pre, b, post, e1, e2, hle, e4⟩ := fitIn_spec heq
    unfold LArena.read
    simp only [e1, List.mem_append, List.mem_cons] at hc
    rcases hc with hc | rfl | hc
    · rw [readIn_of_mem hwf'.ids (b := c) (by simp [e2, hc]) l hid]; exact hrd
    · rw [readIn_of_mem hwf'.ids (b := { c with data := c.data ++ s }) (by simp [e2]) l hid]
      exact Bucket.readAt_append s hrd
    · rw [readIn_of_mem hwf'.ids (b := c) (by simp [e2, hc]) l hid]; exact hrd
  · have hmem : c ∈ a'.buckets := by
      unfold LArena.grow at hs
      grind
    unfold LArena.read
    rw [readIn_of_mem hwf'.ids hmem l hid]; exact hrd

theorem LArena.store_disjoint {a a' : LArena} {s : Bytes} {loc : Loc} (h : a.WF)
    (hs : a.store s = .ok (a', .arena loc)) (l : Loc) (hv : a.valid l) : l.disjoint loc := by
  obtain ⟨c, hc, hid, hle⟩ := hv
  have hlt : c.id < a.nextId := h.fresh c hc
  rw [LArena.store_def] at hs
  split at hs
  · simp at hs
  split at hs
  next bs loc' heq =>
    simp at hs
    obtain ⟨_, rfl⟩ := hs
    obtain ⟨pre, b, post, e1, e2, hle', e4⟩ := fitIn_spec heq
    unfold Loc.disjoint
    by_cases hb : l.bid = loc'.bid
    · right; left
      have hbm : b ∈ a.buckets := by simp [e1]
      have : c = b := by
        have hnd := h.ids
        have h1 : readIn a.buckets ⟨c.id, 0, 0⟩ = c.readAt 0 0 := readIn_of_mem hnd hc _ rfl
        have h2 : readIn a.buckets ⟨c.id, 0, 0⟩ = b.readAt 0 0 := readIn_of_mem hnd hbm _ (by simp [e4] at hb; simp; omega)
        -- ids are unique: same id, same bucket
        clear h1 h2
        rw [e1] at hnd hc
        simp only [List.map_append, List.map_cons, List.nodup_append, List.nodup_cons, List.mem_map, List.mem_append, List.mem_cons] at hnd hc
        have hid2 : c.id = b.id := by simp [e4] at hb; omega
        grind
      subst this
      simp [e4]; omega
    · left; exact hb
  · unfold LArena.grow at hs
    unfold Loc.disjoint
    grind

end Lasso
