import LassoProofs.Lemmas.Rodeo
/-
  Histories of state-changing calls on a `Rodeo`, and the lift of the one-step facts to every
  reachable state.  Queries do not change the state (they are functions of it), so a history of
  arbitrary API calls is, as far as the state goes, the list of its mutating calls.
-/
namespace Lasso

/-- The mutating calls of `Rodeo`. `grow` is the table-growth oracle of that call. -/
inductive ROp where
  | intern (x : Bytes) (grow : Bool)          -- try_get_or_intern / get_or_intern
  | internStatic (i : Nat) (grow : Bool)      -- try_get_or_intern_static / get_or_intern_static
  | setLimit (m : Nat)
  | clear
  deriving Repr

def ROp.isClear : ROp → Bool
  | .clear => true
  | _ => false

/-- State after one call; a failing call leaves the state as it was. -/
def Rodeo.apply (env : Env) (r : Rodeo) : ROp → Rodeo
  | .intern x g => match r.tryIntern env x g with
    | .ok (r', _) => r'
    | _ => r
  | .internStatic i g => match r.tryInternStatic env i g with
    | .ok (r', _) => r'
    | _ => r
  | .setLimit m => r.setLimit m
  | .clear => r.clear

def Rodeo.run (env : Env) (r : Rodeo) (ops : List ROp) : Rodeo := ops.foldl (Rodeo.apply env) r

/-- Static operations of a history only name pool strings that exist (what the type `&'static str`
guarantees to the real code). -/
def ROp.wellFormed (env : Env) : ROp → Prop
  | .internStatic i _ => i < env.pool.length
  | _ => True

theorem Rodeo.apply_inv {env : Env} {r : Rodeo} (h : r.Inv env) (op : ROp) (hw : op.wellFormed env) :
    (r.apply env op).Inv env := by
  cases op with
  | intern x g =>
    simp only [Rodeo.apply]
    rcases Rodeo.tryIntern_spec h x g with ⟨k, _, he⟩ | ⟨_, ⟨_, he⟩ | ⟨_, ⟨_, he⟩ | ⟨r', ref, he, _, hp⟩⟩⟩
    · rw [he]; exact h
    · rw [he]; exact h
    · rw [he]; exact h
    · rw [he]; exact hp.inv
  | internStatic i g =>
    simp only [Rodeo.apply]
    have hi : env.pool[i]? = some env.pool[i] := List.getElem?_eq_getElem hw
    rcases Rodeo.tryInternStatic_spec h i _ hi g with ⟨k, _, he⟩ | ⟨_, ⟨_, he⟩ | ⟨_, r', he, _, hp⟩⟩
    · rw [he]; exact h
    · rw [he]; exact h
    · rw [he]; exact hp.inv
  | setLimit m => exact Rodeo.setLimit_inv h m
  | clear => exact Rodeo.clear_inv h

theorem Rodeo.run_inv {env : Env} {r : Rodeo} (h : r.Inv env) (ops : List ROp)
    (hw : ∀ op ∈ ops, op.wellFormed env) : (r.run env ops).Inv env := by
  induction ops generalizing r with
  | nil => exact h
  | cons op rest ih =>
    simp only [Rodeo.run, List.foldl_cons]
    exact ih (Rodeo.apply_inv h op (hw op (by simp))) (fun o ho => hw o (by simp [ho]))

/-- One call that is not `clear` keeps every key -> string association. -/
theorem Rodeo.apply_keeps {env : Env} {r : Rodeo} (h : r.Inv env) (op : ROp) (hw : op.wellFormed env)
    (hc : op.isClear = false) (k : Nat) (y : Bytes) (hk : r.str env k = some y) :
    (r.apply env op).str env k = some y := by
  cases op with
  | intern x g =>
    simp only [Rodeo.apply]
    rcases Rodeo.tryIntern_spec h x g with ⟨_, _, he⟩ | ⟨_, ⟨_, he⟩ | ⟨_, ⟨_, he⟩ | ⟨r', ref, he, _, hp⟩⟩⟩
    · rw [he]; exact hk
    · rw [he]; exact hk
    · rw [he]; exact hk
    · rw [he]; exact hp.old k y hk
  | internStatic i g =>
    simp only [Rodeo.apply]
    have hi : env.pool[i]? = some env.pool[i] := List.getElem?_eq_getElem hw
    rcases Rodeo.tryInternStatic_spec h i _ hi g with ⟨_, _, he⟩ | ⟨_, ⟨_, he⟩ | ⟨_, r', he, _, hp⟩⟩
    · rw [he]; exact hk
    · rw [he]; exact hk
    · rw [he]; exact hp.old k y hk
  | setLimit m => exact hk
  | clear => simp [ROp.isClear] at hc

theorem Rodeo.run_keeps {env : Env} {r : Rodeo} (h : r.Inv env) (ops : List ROp)
    (hw : ∀ op ∈ ops, op.wellFormed env) (hc : ∀ op ∈ ops, op.isClear = false)
    (k : Nat) (y : Bytes) (hk : r.str env k = some y) : (r.run env ops).str env k = some y := by
  induction ops generalizing r with
  | nil => exact hk
  | cons op rest ih =>
    simp only [Rodeo.run, List.foldl_cons]
    exact ih (Rodeo.apply_inv h op (hw op (by simp))) (fun o ho => hw o (by simp [ho]))
      (fun o ho => hc o (by simp [ho])) (Rodeo.apply_keeps h op (hw op (by simp)) (hc op (by simp)) k y hk)

end Lasso
