import LassoProofs.Lemmas.Conc
import LassoModel.Extracted
/-
  The transitions of the interleaving machine are the source's effectful operations, in the source's
  order.  `Extracted.internEffects` / `internStaticEffects` are regenerated from the bodies of
  `ThreadedRodeo::try_get_or_intern` / `try_get_or_intern_static` on every run (evaluation order).
-/
namespace Lasso.Conc
open Lasso Lasso.Source

/-- The source operations performed by the step a thread takes from program counter `pc`
(`st`: the call is `try_get_or_intern_static`). -/
def effectsOfStep : PC → List Effect
  | .idle => [.fastGet]
  | .wantLock _ false => [.lockShard, .recheck]
  | .wantLock _ true => [.lockEntry]
  | .locked _ true => [.store]
  | .locked _ false => [.keyFetch, .keyCheck]
  | .haveKey _ _ => [.stringsInsert]
  | .inserted _ _ => [.mapInsert]

/-- The program counters a thread goes through, recorded before each of its steps. -/
def pcsAlong (sh : Bytes → Nat) (N : Nat) (s : CS) (t : Nat) : Nat → List PC
  | 0 => []
  | n + 1 =>
    match s.ts[t]? with
    | none => []
    | some th =>
      match step sh N s t with
      | some s' => th.pc :: pcsAlong sh N s' t n
      | none => []

end Lasso.Conc

namespace Lasso.Conc
open Lasso Lasso.Source

/-- One thread, a fresh interner, one new string that fits the first block: the copying call goes
through fast lookup, lock + second lookup, store, key fetch + check, key->string insert, string->key
insert — and these are, in this order, the operations of the source. -/
theorem solo_intern_effects (sh : Bytes → Nat) (N cap max : Nat) (x : Bytes) (hN : 0 < N) (hx : 0 < x.length) (hc : x.length ≤ cap) :
    ((pcsAlong sh N (init cap max [[.intern x]]) 0 6).flatMap effectsOfStep) = Extracted.internEffects := by
  have hk : keyOfIndex N 0 = some 1 := by simp [keyOfIndex, hN]
  have hne : ¬ x.length = 0 := by omega
  simp [pcsAlong, init, step, lockOwner, mapGet, setThread, LArena.new, LArena.store, LArena.fitIn, hne, hc, hk,
    effectsOfStep, Extracted.internEffects]

theorem solo_intern_static_effects (sh : Bytes → Nat) (N cap max : Nat) (x : Bytes) (hN : 0 < N) :
    ((pcsAlong sh N (init cap max [[.internStatic x]]) 0 5).flatMap effectsOfStep) = Extracted.internStaticEffects := by
  have hk : keyOfIndex N 0 = some 1 := by simp [keyOfIndex, hN]
  simp [pcsAlong, init, step, lockOwner, mapGet, setThread, hk, effectsOfStep, Extracted.internStaticEffects]

end Lasso.Conc
