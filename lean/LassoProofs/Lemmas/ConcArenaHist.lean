import LassoProofs.Lemmas.ConcArena
/-
  History facts about the arena machine: what one step may do to the block list and the log, and what
  follows for every continuation of a schedule (results stay, blocks stay, the walk order of published
  blocks never changes, every successful call was given a different region).
-/
namespace Lasso.CA
open Lasso

/-- What one step may do to the block list and the log. -/
structure Shape (s s' : AS) (t : Nat) : Prop where
  blocks : s'.buckets = s.buckets ∨
    (∃ (b : Nat) (f : ABucket → ABucket), (∀ k, (f k).id = k.id ∧ (f k).cap = k.cap) ∧ s'.buckets = updB s.buckets b f) ∨
    (∃ (th : AThread) (x : Bytes) (nb : ABucket), s.ts[t]? = some th ∧ ownsB th.pc = some (x, nb) ∧ s'.buckets = nb :: s.buckets)
  log : s'.log = s.log ∨ (∃ x, s'.log = (t, x, .empty) :: s.log) ∨ (∃ x, s'.log = (t, x, .err) :: s.log) ∨
    (∃ (th : AThread) (x : Bytes) (b off : Nat), s.ts[t]? = some th ∧ th.pc = .copy x b off ∧ s'.log = (t, x, .ok b off) :: s.log) ∨
    (∃ (th : AThread) (x : Bytes) (nb : ABucket) (hd : Option Nat), s.ts[t]? = some th ∧ th.pc = .pushCas x nb hd ∧
      s'.log = (t, x, .ok nb.id 0) :: s.log ∧ s'.buckets = nb :: s.buckets)

theorem step_shape {s s' : AS} {t : Nat} {sp : Bool} (hs : step s t sp = some s') : Shape s s' t := by
  unfold step at hs
  split at hs
  · simp at hs
  next th ht =>
  split at hs <;> (try dsimp only at hs) <;> (repeat' (split at hs)) <;> (try (simp at hs; done)) <;>
    (injection hs with hs; subst hs; constructor
     · first
       | exact Or.inl rfl
       | (refine Or.inr (Or.inl ⟨_, _, ?_, rfl⟩); intro k; exact ⟨rfl, rfl⟩)
       | (refine Or.inr (Or.inr ⟨th, ?x, _, ht, ?h, rfl⟩); case h => simp only [*]; rfl)
     · simp [setPc, done, *])

/-- The region a successful call was given. -/
def locOf (e : Nat × Bytes × ARes) : Option (Nat × Nat) :=
  match e.2.2 with
  | .ok b o => some (b, o)
  | _ => none

def LogNd (s : AS) : Prop := (s.log.filterMap locOf).Nodup

theorem locOf_some {e : Nat × Bytes × ARes} {b o : Nat} (h : locOf e = some (b, o)) : e.2.2 = .ok b o := by
  unfold locOf at h
  split at h
  · simp only [Option.some.injEq, Prod.mk.injEq] at h; obtain ⟨rfl, rfl⟩ := h; assumption
  · simp at h

theorem step_logNd {cap0 : Nat} {s s' : AS} {t : Nat} {sp : Bool} (h : AInv cap0 s) (hn : LogNd s)
    (hs : step s t sp = some s') : LogNd s' := by
  have sh := (step_shape hs).log
  unfold LogNd at *
  rcases sh with e | ⟨x, e⟩ | ⟨x, e⟩ | ⟨th, x, b, off, ht, hpc, e⟩ | ⟨th, x, nb, hd, ht, hpc, e, _⟩
  · rw [e]; exact hn
  · rw [e]; simpa [List.filterMap_cons, locOf] using hn
  · rw [e]; simpa [List.filterMap_cons, locOf] using hn
  · rw [e]
    simp only [List.filterMap_cons, locOf, List.nodup_cons]
    refine ⟨?_, hn⟩
    intro hmem
    obtain ⟨e0, he0, hl⟩ := List.mem_filterMap.mp hmem
    have hres := locOf_some hl
    have hlg := h.logOk e0 he0
    unfold logged at hlg
    rw [hres] at hlg
    obtain ⟨bk, hbk, hid, hc⟩ := hlg
    obtain ⟨bk', hbk', hid', hc'⟩ := (h.pcOk t th ht).copyClaim x b off (by rw [hpc]; rfl)
    have : bk = bk' := id_unique h.ids hbk hbk' (hid.trans hid'.symm)
    subst this
    have := tiled_off_unique (h.tiled bk hbk) hc hc' rfl
    simp [Claim.mk.injEq] at this
  · rw [e]
    simp only [List.filterMap_cons, locOf, List.nodup_cons]
    refine ⟨?_, hn⟩
    intro hmem
    obtain ⟨e0, he0, hl⟩ := List.mem_filterMap.mp hmem
    have hres := locOf_some hl
    have hlg := h.logOk e0 he0
    unfold logged at hlg
    rw [hres] at hlg
    obtain ⟨bk, hbk, hid, _⟩ := hlg
    exact ((h.pcOk t th ht).ownOk x nb (by rw [hpc]; rfl)).2.2.2.1 bk hbk hid

theorem step_log_suffix {s s' : AS} {t : Nat} {sp : Bool} (hs : step s t sp = some s') : s.log <:+ s'.log := by
  rcases (step_shape hs).log with e | ⟨x, e⟩ | ⟨x, e⟩ | ⟨th, x, b, off, ht, hpc, e⟩ | ⟨th, x, nb, hd, ht, hpc, e, _⟩ <;> rw [e]
  · exact List.suffix_refl _
  all_goals exact List.suffix_cons _ _

theorem run_log_suffix (sched : List (Nat × Bool)) (s : AS) : s.log <:+ (run s sched).log := by
  induction sched generalizing s with
  | nil => exact List.suffix_refl _
  | cons e rest ih =>
    obtain ⟨t, sp⟩ := e
    unfold run
    split
    next s' hs => exact List.IsSuffix.trans (step_log_suffix hs) (ih s')
    · exact ih s

theorem run_logNd {cap0 : Nat} (sched : List (Nat × Bool)) {s : AS} (h : AInv cap0 s) (hn : LogNd s) : LogNd (run s sched) := by
  induction sched generalizing s with
  | nil => exact hn
  | cons e rest ih =>
    obtain ⟨t, sp⟩ := e
    unfold run
    split
    next s' hs => exact ih (step_inv h hs) (step_logNd h hn hs)
    · exact ih h hn

/-- Every published block is still published (same identity, same capacity). -/
def Keeps (s s' : AS) : Prop := ∀ b ∈ s.buckets, ∃ b' ∈ s'.buckets, b'.id = b.id ∧ b'.cap = b.cap

theorem step_keeps {s s' : AS} {t : Nat} {sp : Bool} (hs : step s t sp = some s') : Keeps s s' := by
  intro b hb
  rcases (step_shape hs).blocks with e | ⟨bid, f, hf, e⟩ | ⟨th, x, nb, _, _, e⟩ <;> rw [e]
  · exact ⟨b, hb, rfl, rfl⟩
  · refine ⟨_, mem_updB.mpr ⟨b, hb, rfl⟩, ?_, ?_⟩ <;> split <;> simp [(hf b).1, (hf b).2]
  · exact ⟨b, List.mem_cons_of_mem _ hb, rfl, rfl⟩

theorem run_keeps (sched : List (Nat × Bool)) (s : AS) : Keeps s (run s sched) := by
  induction sched generalizing s with
  | nil => intro b hb; exact ⟨b, hb, rfl, rfl⟩
  | cons e rest ih =>
    obtain ⟨t, sp⟩ := e
    unfold run
    split
    next s' hs =>
      intro b hb
      obtain ⟨b1, hb1, h1, h2⟩ := step_keeps hs b hb
      obtain ⟨b2, hb2, h3, h4⟩ := ih s' b1 hb1
      exact ⟨b2, hb2, h3.trans h1, h4.trans h2⟩
    · exact ih s

theorem headId_updB (bs : List ABucket) (b : Nat) (f : ABucket → ABucket) (hf : ∀ k, (f k).id = k.id) :
    headId (updB bs b f) = headId bs := by
  cases bs with
  | nil => rfl
  | cons a r => simp only [updB, headId, List.map_cons, List.head?_cons, Option.map_some]; split <;> simp [hf]

theorem succOf_updB (bs : List ABucket) (b : Nat) (f : ABucket → ABucket) (hf : ∀ k, (f k).id = k.id) (c : Nat) :
    succOf (updB bs b f) c = succOf bs c := by
  induction bs with
  | nil => rfl
  | cons a r ih =>
    have e : updB (a :: r) b f = (if a.id = b then f a else a) :: updB r b f := rfl
    rw [e]
    have hid : (if a.id = b then f a else a).id = a.id := by split <;> simp [hf]
    simp only [succOf, hid, headId_updB r b f hf, ih]

/-- The successor of a published block in the walk order never changes. -/
theorem step_walk {cap0 : Nat} {s s' : AS} {t : Nat} {sp : Bool} (h : AInv cap0 s) (hs : step s t sp = some s')
    (c : Nat) (hc : ∃ b ∈ s.buckets, b.id = c) : succOf s'.buckets c = succOf s.buckets c := by
  rcases (step_shape hs).blocks with e | ⟨bid, f, hf, e⟩ | ⟨th, x, nb, ht, ho, e⟩ <;> rw [e]
  · exact succOf_updB _ _ _ (fun k => (hf k).1) c
  · obtain ⟨b, hb, hbc⟩ := hc
    have hne : nb.id ≠ c := fun he => ((h.pcOk t th ht).ownOk x nb ho).2.2.2.1 b hb (hbc.trans he.symm)
    simp [succOf, hne]

theorem run_walk {cap0 : Nat} (sched : List (Nat × Bool)) {s : AS} (h : AInv cap0 s)
    (c : Nat) (hc : ∃ b ∈ s.buckets, b.id = c) : succOf (run s sched).buckets c = succOf s.buckets c := by
  induction sched generalizing s with
  | nil => rfl
  | cons e rest ih =>
    obtain ⟨t, sp⟩ := e
    unfold run
    split
    next s' hs =>
      have hc' : ∃ b ∈ s'.buckets, b.id = c := by
        obtain ⟨b, hb, hbc⟩ := hc
        obtain ⟨b', hb', hid, _⟩ := step_keeps hs b hb
        exact ⟨b', hb', hid.trans hbc⟩
      rw [ih (step_inv h hs) hc', step_walk h hs c hc]
    · exact ih h hc

/-! ### The limit and its ghost maximum -/

/-- A thread step changes neither the limit nor the highest limit ever in force. -/
theorem step_limits {s s' : AS} {t : Nat} {sp : Bool} (hs : step s t sp = some s') : s'.max = s.max ∧ s'.hi = s.hi := by
  unfold step at hs
  split at hs
  · simp at hs
  · split at hs <;> (try dsimp only at hs) <;> (repeat' (split at hs)) <;> (try (simp at hs; done)) <;>
      (injection hs with hs; subst hs; exact ⟨rfl, rfl⟩)

theorem run_limits (sched : List (Nat × Bool)) (s : AS) : (run s sched).max = s.max ∧ (run s sched).hi = s.hi := by
  induction sched generalizing s with
  | nil => exact ⟨rfl, rfl⟩
  | cons e rest ih =>
    obtain ⟨t, sp⟩ := e
    unfold run
    split
    next s' hs =>
      have h1 := step_limits hs
      have h2 := ih s'
      exact ⟨h2.1.trans h1.1, h2.2.trans h1.2⟩
    · exact ih s

/-- Changing the limit (from outside the interning paths) preserves the invariant. -/
theorem inv_setMax {cap0 : Nat} {s : AS} (h : AInv cap0 s) (m : Nat) : AInv cap0 (setMax s m) := by
  obtain ⟨h1, h2, h3, h4, h5, h6, h7, h9, h11, h11b, h12⟩ := h
  have hle : s.hi ≤ Nat.max s.hi m := Nat.le_max_left _ _
  constructor
  · exact h1
  · exact h2
  · exact h3
  · exact h4
  · intro t th ht
    obtain ⟨a, b, c, d, d', e, f⟩ := h5 t th ht
    exact ⟨a, b, fun mx hm => Nat.le_trans (c mx hm) hle, d, d', e, f⟩
  · exact h6
  · exact h7
  · exact h9
  · exact Nat.le_trans h11 (by simp only [setMax]; exact Nat.max_le.mpr ⟨Nat.le_max_left _ _, Nat.le_trans hle (Nat.le_max_right _ _)⟩)
  · exact Nat.le_max_right _ _
  · exact h12

theorem runE_inv {cap0 : Nat} (evs : List Ev) {s : AS} (h : AInv cap0 s) : AInv cap0 (runE s evs) := by
  induction evs generalizing s with
  | nil => exact h
  | cons e rest ih =>
    cases e with
    | th t sp =>
      simp only [runE]
      split
      next s' hs => exact ih (step_inv h hs)
      · exact ih h
    | setMax m => exact ih (inv_setMax h m)

theorem runE_acct {cap0 : Nat} (evs : List Ev) {s : AS} (h : AInv cap0 s) (hA : Acct s) : Acct (runE s evs) := by
  induction evs generalizing s with
  | nil => exact hA
  | cons e rest ih =>
    cases e with
    | th t sp =>
      simp only [runE]
      split
      next s' hs => exact ih (step_inv h hs) (step_acct h hA hs)
      · exact ih h hA
    | setMax m => exact ih (inv_setMax h m) hA

/-- The ghost maximum is what it says: never below a limit that was in force. -/
theorem runE_hi_le (evs : List Ev) (s : AS) (B : Nat) (h0 : s.hi ≤ B) (hall : ∀ m, Ev.setMax m ∈ evs → m ≤ B) :
    (runE s evs).hi ≤ B := by
  induction evs generalizing s with
  | nil => exact h0
  | cons e rest ih =>
    cases e with
    | th t sp =>
      simp only [runE]
      split
      next s' hs =>
        exact ih s' (by rw [(step_limits hs).2]; exact h0) (fun m hm => hall m (List.mem_cons_of_mem _ hm))
      · exact ih s h0 (fun m hm => hall m (List.mem_cons_of_mem _ hm))
    | setMax m =>
      exact ih (setMax s m) (by simp only [setMax]; exact Nat.max_le.mpr ⟨h0, hall m (List.mem_cons_self ..)⟩)
        (fun m' hm => hall m' (List.mem_cons_of_mem _ hm))

end Lasso.CA
