import LassoModel.Extracted
/-
  One body of code for every feature configuration.

  The harness builds the crate with `multi-threaded,serialize`, the pinned suite with default features; model
  and theorems describe one body of code.  The extractor lists every use of conditional compilation outside
  test modules and verification hooks (`Extracted.cfgGates`, classified; `Extracted.bodyGates` for gates inside
  function bodies).  Today these are import blocks, whole serde impls, optional-dependency impls, declarations of
  feature-only modules and one empty impl; nothing inside a function body.  Any other gate - code that is
  different under another feature set - makes this fail, for every property.
-/
namespace Lasso
open Lasso.Source

theorem one_code_base_for_all_configurations :
    (Extracted.cfgGates.all fun g => g.kind != .other) = true ∧ Extracted.bodyGates.isEmpty = true := by
  decide

end Lasso
