import LassoModel.TInternInterp
namespace Lasso
open Lasso.Source

theorem interp_tintern_is_model (env : Env) (t : Threaded) (x : Bytes) :
    interpTIntern env Extracted.internEffects t x = t.tryIntern env x := by
  have he : Extracted.internEffects =
      [.fastGet, .lockShard, .recheck, .store, .keyFetch, .keyCheck, .stringsInsert, .mapInsert] := by decide
  unfold interpTIntern Threaded.tryIntern
  rw [he]
  simp only [runTEffects, Effect.run]
  cases hg : t.get env x with
  | some k => simp
  | none =>
    simp only [hg]
    cases hst : t.arena.store x with
    | ok p =>
      obtain ⟨a', ref⟩ := p
      simp only []
      have hg' : Threaded.get env t x = none := hg
      cases hk : keyOfIndex t.N t.ctr with
      | none => simp
      | some raw => simp
    | err e => simp
    | panic => simp
    | fault f => simp

theorem interp_tintern_static_is_model (env : Env) (t : Threaded) (i : Nat) :
    interpTInternStatic env Extracted.internStaticEffects t i = t.tryInternStatic env i := by
  have he : Extracted.internStaticEffects =
      [.fastGet, .lockEntry, .keyFetch, .keyCheck, .stringsInsert, .mapInsert] := by decide
  unfold interpTInternStatic Threaded.tryInternStatic
  rw [he]
  cases hp : env.pool[i]? with
  | none => simp
  | some x =>
    simp only [runTEffects, Effect.run]
    cases hg : t.get env x with
    | some k => simp
    | none =>
      simp only [hg]
      cases hk : keyOfIndex t.N t.ctr with
      | none => simp
      | some raw => simp

end Lasso
