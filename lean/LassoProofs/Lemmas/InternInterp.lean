import LassoModel.InternInterp
namespace Lasso
open Lasso.Source

theorem interp_intern_is_model (env : Env) (r : Rodeo) (x : Bytes) (grow : Bool) :
    interpIntern env Extracted.rodeoInternEffects r x grow = r.tryIntern env x grow := by
  have he : Extracted.rodeoInternEffects = [.hashOne, .probe, .keyCheck, .store, .stringsPush, .tableInsert] := by decide
  unfold interpIntern Rodeo.tryIntern
  rw [he]
  simp only [runREffects, REffect.run]
  cases hg : r.get env x with
  | ok o =>
    cases o with
    | some k => simp
    | none =>
      simp only []
      cases hk : keyOfIndex r.N r.strings.length with
      | none => simp
      | some raw =>
        simp only []
        cases hst : r.arena.store x with
        | ok p =>
          obtain ⟨a', ref⟩ := p
          simp only [Bool.and_self, List.length_append, List.length_cons, List.length_nil, Nat.zero_add, Nat.add_sub_cancel]
          cases hi : tableInsert r.table (env.hash x) r.strings.length grow (rehashFn env a'.read (r.strings ++ [ref])) with
          | ok t' => simp
          | err e => simp
          | panic => simp
          | fault f => simp
        | err e => simp
        | panic => simp
        | fault f => simp
  | err e => simp
  | panic => simp
  | fault f => simp

theorem interp_intern_static_is_model (env : Env) (r : Rodeo) (i : Nat) (grow : Bool) :
    interpInternStatic env Extracted.rodeoInternStaticEffects r i grow = r.tryInternStatic env i grow := by
  have he : Extracted.rodeoInternStaticEffects = [.hashOne, .probe, .keyCheck, .stringsPush, .tableInsert] := by decide
  unfold interpInternStatic Rodeo.tryInternStatic
  rw [he]
  cases hp : env.pool[i]? with
  | none => simp
  | some x =>
    simp only [runREffects, REffect.run]
    cases hg : r.get env x with
    | ok o =>
      cases o with
      | some k => simp
      | none =>
        simp only []
        cases hk : keyOfIndex r.N r.strings.length with
        | none => simp
        | some raw =>
          simp only [Bool.and_self, List.length_append, List.length_cons, List.length_nil, Nat.zero_add, Nat.add_sub_cancel]
          cases hi : tableInsert r.table (env.hash x) r.strings.length grow (rehashFn env r.arena.read (r.strings ++ [StrRef.static i])) with
          | ok t' => simp
          | err e => simp
          | panic => simp
          | fault f => simp
    | err e => simp
    | panic => simp
    | fault f => simp

end Lasso
