import LassoModel.DeserInterp
/-
  Running the effect sequence regenerated from `Rodeo::deserialize` / `RodeoReader::deserialize` is the model's
  `deListLoop`, for every document, start index, table, vector and arena.
-/
namespace Lasso
open Lasso.Source

theorem deRodeo_loopBody :
    loopBody Extracted.deRodeoEffects =
      [.store, .expectStored, .hashOne, .probe, .reject, .keyCheck .loopIndex, .reject, .stringsPush, .tableInsert] := by
  decide

theorem deRodeo_mayGrow : mayGrow Extracted.deRodeoEffects = false := by decide

theorem interp_deRodeo_is_model (env : Env) (N : Nat) (doc : List Bytes) :
    ∀ (idx : Nat) (t : Table) (ss : List StrRef) (a : Arena),
      interpListLoop env N Extracted.deRodeoEffects doc idx t ss a = deListLoop env N doc idx t ss a := by
  induction doc with
  | nil => intro idx t ss a; simp [interpListLoop, deListLoop]
  | cons x rest ih =>
    intro idx t ss a
    unfold interpListLoop deListLoop
    rw [deRodeo_loopBody, deRodeo_mayGrow]
    simp only [runEffects, DEffect.run, DReg.start]
    cases hst : a.store x with
    | ok p =>
      obtain ⟨a', ref⟩ := p
      simp only []
      cases hf : tableFind env a'.read ss t x with
      | ok o =>
        cases o with
        | some k => simp
        | none =>
          simp only [Option.isSome_none]
          cases hk : keyOfIndex N idx with
          | none => simp
          | some raw =>
            simp only [Option.isNone_some, Option.isSome_some]
            cases hi : tableInsert t (env.hash x) idx false (rehashFn env a'.read (ss ++ [ref])) with
            | ok t' => simp [ih]
            | err e => simp
            | panic => simp
            | fault f => simp
      | err e => simp
      | panic => simp
      | fault f => simp
    | err e => simp
    | panic => simp
    | fault f => simp

theorem interp_deReader_is_model (env : Env) (N : Nat) (doc : List Bytes) (idx : Nat) (t : Table) (ss : List StrRef)
    (a : Arena) (h : Extracted.deReaderEffects = Extracted.deRodeoEffects) :
    interpListLoop env N Extracted.deReaderEffects doc idx t ss a = deListLoop env N doc idx t ss a := by
  rw [h]; exact interp_deRodeo_is_model env N doc idx t ss a

end Lasso

namespace Lasso
open Lasso.Source

theorem deResolver_loopBody :
    loopBody Extracted.deResolverEffects = [.store, .expectStored, .stringsPush] := by decide

theorem interp_deResolver_is_model (doc : List Bytes) :
    ∀ (ss : List StrRef) (a : Arena),
      interpResolverLoop Extracted.deResolverEffects doc ss a = deResolverLoop doc ss a := by
  induction doc with
  | nil => intro ss a; simp [interpResolverLoop, deResolverLoop]
  | cons x rest ih =>
    intro ss a
    unfold interpResolverLoop deResolverLoop
    rw [deResolver_loopBody]
    simp only [runEffectsR, DEffect.runR]
    cases hst : a.store x with
    | ok p => obtain ⟨a', ref⟩ := p; simp [ih]
    | err e => simp
    | panic => simp
    | fault f => simp

/-- The resolver's check before the loop is the one the model makes: refuse iff the list is not empty and its
last position has no key. -/
theorem deResolver_precheck (N n : Nat) :
    resolverPrecheck N Extracted.deResolverEffects n = some (decide (n ≠ 0 ∧ (keyOfIndex N (n - 1)).isNone)) := by
  unfold resolverPrecheck
  have : (Extracted.deResolverEffects.takeWhile (· != .loopBegin)).filter
      (fun e => e == .keyCheck .lenMinusOne || e == .keyCheck .len || e == .keyCheck .loopIndex || e == .keyCheck .other || e == .reject)
      = [.keyCheck .lenMinusOne, .reject] := by decide
  rw [this]

theorem deThreaded_loopBody :
    loopBody Extracted.deThreadedEffects = [.counterMax, .store, .expectStored, .mapInsert, .stringsInsert] := by decide

theorem interp_deThreaded_is_model (doc : List (Bytes × Nat)) :
    ∀ (t : Threaded), interpThreadedLoop Extracted.deThreadedEffects doc t = deThreadedLoop doc t := by
  induction doc with
  | nil => intro t; simp [interpThreadedLoop, deThreadedLoop]
  | cons e rest ih =>
    intro t
    obtain ⟨x, raw⟩ := e
    unfold interpThreadedLoop deThreadedLoop
    rw [deThreaded_loopBody]
    simp only [runEffectsT, DEffect.runT]
    cases hst : t.arena.store x with
    | ok p => obtain ⟨a', ref⟩ := p; simp [ih]
    | err e => simp
    | panic => simp
    | fault f => simp

theorem deThreaded_postcheck : threadedPostcheck Extracted.deThreadedEffects = true := by decide

end Lasso
