import LassoProofs.Lemmas.History
/-
  The resolution paths (checked, fallible, unchecked / indexing, iteration) all read `strAt`.
-/
namespace Lasso

theorem iterIn_spec (env : Env) (read : Loc → Option Bytes) (N : Nat) (ss : List StrRef) (i : Nat)
    (hN : i + ss.length ≤ N) (hc : ∀ ref ∈ ss, ∃ y, contentOf env read ref = some y) :
    ∃ l, iterIn env read N ss i = .ok l ∧ l.length = ss.length ∧
      ∀ j y, strAt env read ss j = some y → l[j]? = some (i + j, y) := by
  induction ss generalizing i with
  | nil => exact ⟨[], rfl, rfl, by intro j y h; simp [strAt] at h⟩
  | cons r rest ih =>
    obtain ⟨y0, hy0⟩ := hc r (by simp)
    simp only [List.length_cons] at hN
    obtain ⟨l, hl, hlen, hget⟩ := ih (i + 1) (by omega) (fun ref hr => hc ref (by simp [hr]))
    have hk : keyOfIndex N i = some (i + 1) := by simp [keyOfIndex]; omega
    refine ⟨(i, y0) :: l, ?_, by simp [hlen], ?_⟩
    · simp only [iterIn, hk, hy0, hl]
    · intro j y hj
      cases j with
      | zero =>
        simp only [strAt, List.getElem?_cons_zero] at hj
        rw [hy0] at hj; injection hj with hj; subst hj; simp
      | succ j' =>
        have : strAt env read rest j' = some y := by simpa [strAt] using hj
        have := hget j' y this
        simp only [List.getElem?_cons_succ, this]
        congr 2; omega

/-- In a well-formed interner every resolution path returns the bytes `str` denotes, and none faults. -/
theorem Rodeo.paths {env : Env} {r : Rodeo} (h : r.Inv env) (k : Nat) (x : Bytes) (hk : r.str env k = some x) :
    r.resolve env k = .ok x ∧ r.tryResolve env k = .ok (some x) ∧ r.resolveUnchecked env k = .ok x ∧
    ∃ l, r.iter env = .ok l ∧ l.length = r.strings.length ∧ l[k]? = some (k, x) := by
  have hl := Rodeo.Inv.str_lt hk
  have hk' : strAt env r.arena.read r.strings k = some x := hk
  refine ⟨by simp [Rodeo.resolve, resolveIn, hl, hk'], by simp [Rodeo.tryResolve, tryResolveIn, hl, hk'],
          by simp [Rodeo.resolveUnchecked, resolveUncheckedIn, hk'], ?_⟩
  obtain ⟨l, h1, h2, h3⟩ := iterIn_spec env r.arena.read r.N r.strings 0 (by have := h.lenLe; omega)
    (fun ref hr => h.content_some ref hr)
  exact ⟨l, h1, h2, by simpa using h3 k x hk'⟩

/-- Keys that were never minted are unknown to the safe paths (and `resolve` panics, as documented). -/
theorem Rodeo.unknown_key (env : Env) (r : Rodeo) (k : Nat) (hk : r.strings.length ≤ k) :
    r.resolve env k = .panic ∧ r.tryResolve env k = .ok none ∧ r.containsKey k = false := by
  have : ¬ k < r.strings.length := by omega
  simp [Rodeo.resolve, resolveIn, Rodeo.tryResolve, tryResolveIn, Rodeo.containsKey, this]

end Lasso
