import LassoModel.Ctor
/-
  Constructors: the interpretation of the regenerated constructor / builder tables equals the documented
  closed form, for every constructor of both interners, every `Capacity` and `MemoryLimits` builder and
  all numeric arguments.
-/
namespace Lasso
open Lasso.Source

theorem capOf_is_documented (name : BuilderName) (strings bytes : Nat) :
    capOf name strings bytes = capDoc name strings bytes := by
  cases name <;> rfl

theorem limOf_is_documented (name : BuilderName) (limit : Nat) :
    limOf name limit = limDoc name limit := by
  cases name <;> rfl

/-- For both interners: what `Owner::<c>(Capacity::<capB>(strings, bytes), MemoryLimits::<limB>(limit), ..)`
builds - first block, limit, pre-sizing - is the documented configuration. -/
theorem ctorConfig_is_documented (owner : Wrapper) (ho : owner = .rodeo ∨ owner = .threaded)
    (c : CtorName) (capB : BuilderName) (strings bytes : Nat) (limB : BuilderName) (limit : Nat) :
    ctorConfig owner c capB strings bytes limB limit = ctorConfigDoc c capB strings bytes limB limit := by
  rcases ho with rfl | rfl <;> cases c <;> cases capB <;> cases limB <;> rfl

end Lasso
