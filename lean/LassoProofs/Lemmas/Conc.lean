import LassoModel.Conc
/-
  Invariant of the interleaving semantics of `ThreadedRodeo` and its preservation by every step of
  every thread — for any number of threads, any programs, any shard function, any key capacity.
-/
namespace Lasso.Conc
open Lasso
set_option linter.unusedSimpArgs false
set_option linter.unusedVariables false

/-- String whose shard write-lock the thread holds (it has seen that string vacant under the lock). -/
def holds : PC → Option Bytes
  | .locked x _ => some x
  | .haveKey x _ => some x
  | .inserted x _ => some x
  | _ => none

/-- Index fetched from the counter, not yet in the key->string map. -/
def owns : PC → Option Nat
  | .haveKey _ k => some k
  | _ => none

/-- Pair already in the key->string map, not yet in the string->key map. -/
def pend : PC → Option (Nat × Bytes)
  | .inserted x k => some (k, x)
  | _ => none

theorem getElem?_set_iff {ts : List Thread} {t u : Nat} {new th : Thread} :
    (ts.set t new)[u]? = some th ↔ (u = t ∧ th = new ∧ t < ts.length) ∨ (u ≠ t ∧ ts[u]? = some th) := by
  by_cases h : u = t
  · subst h
    by_cases hl : u < ts.length
    · simp [List.getElem?_set_self hl, hl]; exact eq_comm
    · simp [hl, List.getElem?_eq_none (by simp; omega : (ts.set u new).length ≤ u)]
  · simp [h, List.getElem?_set_ne (Ne.symm h)]

structure Inv (sh : Bytes → Nat) (N : Nat) (s : CS) : Prop where
  mapStr : ∀ (x : Bytes) (k : Nat), (x, k) ∈ s.map → (k, x) ∈ s.strs
  mapNd : (s.map.map (·.1)).Nodup
  strNd : (s.strs.map (·.1)).Nodup
  strLt : ∀ (k : Nat) (x : Bytes), (k, x) ∈ s.strs → k < s.ctr ∧ k < N
  strSrc : ∀ (k : Nat) (x : Bytes), (k, x) ∈ s.strs →
    (x, k) ∈ s.map ∨ ∃ (t : Nat) (th : Thread), s.ts[t]? = some th ∧ pend th.pc = some (k, x)
  lockOf : ∀ (t : Nat) (th : Thread) (x : Bytes), s.ts[t]? = some th → holds th.pc = some x → (sh x, t) ∈ s.locks
  lockBy : ∀ (i t : Nat), (i, t) ∈ s.locks → ∃ (th : Thread) (x : Bytes), s.ts[t]? = some th ∧ holds th.pc = some x ∧ sh x = i
  lockNd : (s.locks.map (·.1)).Nodup
  vacant : ∀ (t : Nat) (th : Thread) (x : Bytes), s.ts[t]? = some th → holds th.pc = some x → ∀ k : Nat, (x, k) ∉ s.map
  keyOwn : ∀ (t : Nat) (th : Thread) (k : Nat), s.ts[t]? = some th → owns th.pc = some k →
    k < s.ctr ∧ k < N ∧ ∀ y : Bytes, (k, y) ∉ s.strs
  keyDis : ∀ (t u : Nat) (p q : Thread) (k : Nat), t ≠ u → s.ts[t]? = some p → s.ts[u]? = some q →
    owns p.pc = some k → owns q.pc = some k → False
  insStr : ∀ (t : Nat) (th : Thread) (e : Nat × Bytes), s.ts[t]? = some th → pend th.pc = some e → e ∈ s.strs
  dense : ∀ k : Nat, k < s.ctr → k < N →
    (∃ x : Bytes, (k, x) ∈ s.strs) ∨ ∃ (t : Nat) (th : Thread), s.ts[t]? = some th ∧ owns th.pc = some k

theorem init_pc {cap max : Nat} {programs : List (List Call)} {t : Nat} {th : Thread}
    (h : (init cap max programs).ts[t]? = some th) : th.pc = .idle := by
  simp only [init, List.getElem?_map, Option.map_eq_some_iff] at h
  obtain ⟨p, _, rfl⟩ := h
  rfl

theorem init_inv (sh : Bytes → Nat) (N cap max : Nat) (programs : List (List Call)) : Inv sh N (init cap max programs) := by
  constructor
  · intro x k h; simp [init] at h
  · simp [init]
  · simp [init]
  · intro k x h; simp [init] at h
  · intro k x h; simp [init] at h
  · intro t th x h hh; rw [init_pc h] at hh; simp [holds] at hh
  · intro i t h; simp [init] at h
  · simp [init]
  · intro t th x h hh; rw [init_pc h] at hh; simp [holds] at hh
  · intro t th k h hh; rw [init_pc h] at hh; simp [owns] at hh
  · intro t u p q k _ hp _ ho _; rw [init_pc hp] at ho; simp [owns] at ho
  · intro t th e h hh; rw [init_pc h] at hh; simp [pend] at hh
  · intro k hk; simp [init] at hk

theorem lockOwner_none {locks : List (Nat × Nat)} {i : Nat} (h : lockOwner locks i = none) : ∀ t, (i, t) ∉ locks := by
  intro t hm
  unfold lockOwner at h
  simp only [Option.map_eq_none_iff, List.find?_eq_none] at h
  have := h (i, t) hm
  simp at this

theorem mapGet_none {m : List (Bytes × Nat)} {x : Bytes} (h : mapGet m x = none) : ∀ k, (x, k) ∉ m := by
  intro k hm
  unfold mapGet at h
  simp only [Option.map_eq_none_iff, List.find?_eq_none] at h
  have := h (x, k) hm
  simp at this

theorem mapGet_some {m : List (Bytes × Nat)} {x : Bytes} {k : Nat} (h : mapGet m x = some k) : (x, k) ∈ m := by
  unfold mapGet at h
  simp only [Option.map_eq_some_iff] at h
  obtain ⟨e, he, rfl⟩ := h
  have hm := List.mem_of_find?_eq_some he
  have hp := List.find?_some he
  simp only [beq_iff_eq] at hp
  cases e; simp_all

theorem mem_unlock {locks : List (Nat × Nat)} {i : Nat} {l : Nat × Nat} : l ∈ unlock locks i ↔ l ∈ locks ∧ l.1 ≠ i := by
  unfold unlock
  simp [List.mem_filter]

theorem mem_strInsert {k : Nat} {x : Bytes} {s : List (Nat × Bytes)} {e : Nat × Bytes} :
    e ∈ strInsert k x s ↔ e = (k, x) ∨ (e ∈ s ∧ e.1 ≠ k) := by
  unfold strInsert
  simp [List.mem_filter]

theorem strInsert_nodup {k : Nat} {x : Bytes} {s : List (Nat × Bytes)} (h : (s.map (·.1)).Nodup) :
    ((strInsert k x s).map (·.1)).Nodup := by
  unfold strInsert
  simp only [List.map_cons, List.nodup_cons, List.mem_map, List.mem_filter]
  refine ⟨?_, (List.Sublist.map _ List.filter_sublist).nodup h⟩
  rintro ⟨e, ⟨_, he⟩, hk⟩
  simp [hk] at he

theorem unlock_nodup {locks : List (Nat × Nat)} {i : Nat} (h : (locks.map (·.1)).Nodup) :
    ((unlock locks i).map (·.1)).Nodup :=
  (List.Sublist.map _ List.filter_sublist).nodup h


/-- (a) A thread whose old and new program counters hold nothing changes its pc (and the log). -/
theorem inv_pc_neutral {sh : Bytes → Nat} {N : Nat} {s : CS} (h : Inv sh N s) (t : Nat) (th new : Thread)
    (ht : s.ts[t]? = some th) (lg : List (Nat × Call × Res))
    (ho : holds th.pc = none ∧ owns th.pc = none ∧ pend th.pc = none)
    (hn : holds new.pc = none ∧ owns new.pc = none ∧ pend new.pc = none) :
    Inv sh N { s with ts := s.ts.set t new, log := lg } := by
  obtain ⟨h1, h2, h3, h4, h5, h6, h7, h8, h9, h10, h11, h12, h13⟩ := h
  constructor <;> simp only [getElem?_set_iff] <;> grind

/-- (b) Taking the shard lock after seeing `x` vacant. -/
theorem inv_lock {sh : Bytes → Nat} {N : Nat} {s : CS} (h : Inv sh N s) (t : Nat) (th : Thread) (x : Bytes) (b : Bool)
    (ht : s.ts[t]? = some th) (ho : holds th.pc = none ∧ owns th.pc = none ∧ pend th.pc = none)
    (hfree : ∀ u, (sh x, u) ∉ s.locks) (hvac : ∀ k, (x, k) ∉ s.map) :
    Inv sh N { s with locks := (sh x, t) :: s.locks, ts := s.ts.set t { th with pc := .locked x b } } := by
  obtain ⟨h1, h2, h3, h4, h5, h6, h7, h8, h9, h10, h11, h12, h13⟩ := h
  have hlt : t < s.ts.length := (List.getElem?_eq_some_iff.mp ht).1
  constructor <;>
    simp only [getElem?_set_iff, List.mem_cons, List.map_cons, List.nodup_cons, List.mem_map, Prod.mk.injEq] <;>
    grind [holds, owns, pend]


/-- (c) A step that keeps what the thread holds (the arena call of the copying path). -/
theorem inv_same_holds {sh : Bytes → Nat} {N : Nat} {s : CS} (h : Inv sh N s) (t : Nat) (th : Thread) (x : Bytes) (b b' : Bool)
    (ht : s.ts[t]? = some th) (hpc : th.pc = .locked x b) (a' : LArena) :
    Inv sh N { s with arena := a', ts := s.ts.set t { th with pc := .locked x b' } } := by
  obtain ⟨h1, h2, h3, h4, h5, h6, h7, h8, h9, h10, h11, h12, h13⟩ := h
  have a6 := h6 t th x ht (by rw [hpc]; rfl)
  have a9 := h9 t th x ht (by rw [hpc]; rfl)
  constructor <;> simp only [getElem?_set_iff] <;> grind [holds, owns, pend]

/-- (d) Giving up while holding only the lock (memory error; key-space error with the counter bumped). -/
theorem inv_abort {sh : Bytes → Nat} {N : Nat} {s : CS} (h : Inv sh N s) (t : Nat) (th new : Thread) (x : Bytes) (b : Bool)
    (ht : s.ts[t]? = some th) (hpc : th.pc = .locked x b) (hn : new.pc = .idle) (lg : List (Nat × Call × Res))
    (c' : Nat) (hc : c' = s.ctr ∨ (c' = s.ctr + 1 ∧ N ≤ s.ctr)) :
    Inv sh N { s with ctr := c', ts := s.ts.set t new, log := lg, locks := unlock s.locks (sh x) } := by
  obtain ⟨h1, h2, h3, h4, h5, h6, h7, h8, h9, h10, h11, h12, h13⟩ := h
  have a6 := h6 t th x ht (by rw [hpc]; rfl)
  have hlt : t < s.ts.length := (List.getElem?_eq_some_iff.mp ht).1
  have hnd := unlock_nodup (i := sh x) h8
  have hown : ∀ u, (sh x, u) ∈ s.locks → u = t := by
    intro u hu
    have := inj_of_nodup_fst h8 hu a6
    exact this
  constructor <;> simp only [getElem?_set_iff, mem_unlock] <;> grind [holds, owns, pend]
where
  inj_of_nodup_fst {l : List (Nat × Nat)} (h : (l.map (·.1)).Nodup) {i a b : Nat} (ha : (i, a) ∈ l) (hb : (i, b) ∈ l) : a = b := by
    induction l with
    | nil => simp at ha
    | cons e rest ih =>
      simp only [List.map_cons, List.nodup_cons, List.mem_map] at h
      simp only [List.mem_cons] at ha hb
      rcases ha with rfl | ha <;> rcases hb with hb | hb
      · injection hb with _ h2; exact h2.symm
      · exact absurd ⟨(i, b), hb, rfl⟩ h.1
      · subst hb; exact absurd ⟨(i, a), ha, rfl⟩ h.1
      · exact ih h.2 ha hb


/-- (e) `fetch_add` gives a valid key: the thread owns an index nobody else has. -/
theorem inv_fetch {sh : Bytes → Nat} {N : Nat} {s : CS} (h : Inv sh N s) (t : Nat) (th : Thread) (x : Bytes) (b : Bool)
    (ht : s.ts[t]? = some th) (hpc : th.pc = .locked x b) (hN : s.ctr < N) :
    Inv sh N { s with ctr := s.ctr + 1, ts := s.ts.set t { th with pc := .haveKey x s.ctr } } := by
  obtain ⟨h1, h2, h3, h4, h5, h6, h7, h8, h9, h10, h11, h12, h13⟩ := h
  have a6 := h6 t th x ht (by rw [hpc]; rfl)
  have a9 := h9 t th x ht (by rw [hpc]; rfl)
  have hlt : t < s.ts.length := (List.getElem?_eq_some_iff.mp ht).1
  constructor <;> simp only [getElem?_set_iff] <;> grind [holds, owns, pend]

/-- (g) Inserting the owned key into the key->string map. -/
theorem inv_strs_insert {sh : Bytes → Nat} {N : Nat} {s : CS} (h : Inv sh N s) (t : Nat) (th : Thread) (x : Bytes) (k : Nat)
    (ht : s.ts[t]? = some th) (hpc : th.pc = .haveKey x k) :
    Inv sh N { s with strs := strInsert k x s.strs, ts := s.ts.set t { th with pc := .inserted x k } } := by
  obtain ⟨h1, h2, h3, h4, h5, h6, h7, h8, h9, h10, h11, h12, h13⟩ := h
  have a6 := h6 t th x ht (by rw [hpc]; rfl)
  have a9 := h9 t th x ht (by rw [hpc]; rfl)
  have a10 := h10 t th k ht (by rw [hpc]; rfl)
  have hlt : t < s.ts.length := (List.getElem?_eq_some_iff.mp ht).1
  have hnd := strInsert_nodup (k := k) (x := x) h3
  constructor
  all_goals (try (simp only [getElem?_set_iff, mem_strInsert]; grind [holds, owns, pend]))
  -- dense
  intro k1 hk1 hk1N
  by_cases hk : k1 = k
  · left; exact ⟨x, by rw [mem_strInsert]; exact Or.inl (by rw [hk])⟩
  · rcases h13 k1 hk1 hk1N with ⟨x', hx'⟩ | ⟨u, thu, hu, hou⟩
    · left; exact ⟨x', by rw [mem_strInsert]; exact Or.inr ⟨hx', hk⟩⟩
    · right
      have hut : u ≠ t := by
        intro e; subst e
        rw [ht] at hu; injection hu with hu; subst hu
        rw [hpc] at hou; simp [owns] at hou; exact hk hou.symm
      exact ⟨u, thu, by rw [getElem?_set_iff]; exact Or.inr ⟨hut, hu⟩, hou⟩

/-- (h) Publishing the string->key entry and releasing the lock. -/
theorem inv_publish {sh : Bytes → Nat} {N : Nat} {s : CS} (h : Inv sh N s) (t : Nat) (th new : Thread) (x : Bytes) (k : Nat)
    (ht : s.ts[t]? = some th) (hpc : th.pc = .inserted x k) (hn : new.pc = .idle) (lg : List (Nat × Call × Res)) :
    Inv sh N { s with ts := s.ts.set t new, log := lg, map := s.map ++ [(x, k)], locks := unlock s.locks (sh x) } := by
  obtain ⟨h1, h2, h3, h4, h5, h6, h7, h8, h9, h10, h11, h12, h13⟩ := h
  have a6 := h6 t th x ht (by rw [hpc]; rfl)
  have a9 := h9 t th x ht (by rw [hpc]; rfl)
  have a12 := h12 t th (k, x) ht (by rw [hpc]; rfl)
  have hlt : t < s.ts.length := (List.getElem?_eq_some_iff.mp ht).1
  have hnd := unlock_nodup (i := sh x) h8
  have hown : ∀ u, (sh x, u) ∈ s.locks → u = t := fun u hu => inv_abort.inj_of_nodup_fst h8 hu a6
  constructor <;>
    simp only [getElem?_set_iff, mem_unlock, List.mem_append, List.mem_singleton, List.map_append, List.map_cons, List.map_nil,
      List.nodup_append, List.mem_map, Prod.mk.injEq] <;>
    grind [holds, owns, pend]


theorem lockOwner_isSome_false {locks : List (Nat × Nat)} {i : Nat} (h : ¬ (lockOwner locks i).isSome = true) :
    ∀ t, (i, t) ∉ locks := by
  apply lockOwner_none
  cases hl : lockOwner locks i with
  | none => rfl
  | some v => simp [hl] at h

/-- Every step of every thread preserves the invariant. -/
theorem step_inv {sh : Bytes → Nat} {N : Nat} {s s' : CS} (h : Inv sh N s) (t : Nat) (hs : step sh N s t = some s') :
    Inv sh N s' := by
  unfold step at hs
  cases ht : s.ts[t]? with
  | none => simp [ht] at hs
  | some th =>
    simp only [ht] at hs
    cases hpc : th.pc with
    | idle =>
      have hnone : holds th.pc = none ∧ owns th.pc = none ∧ pend th.pc = none := by rw [hpc]; exact ⟨rfl, rfl, rfl⟩
      simp only [hpc] at hs
      cases htd : th.todo with
      | nil => simp [htd] at hs
      | cons c rest =>
        simp only [htd] at hs
        cases c with
        | get x =>
          simp only at hs
          split at hs
          · simp at hs
          · injection hs with hs; subst hs
            exact inv_pc_neutral h t th _ ht _ hnone ⟨rfl, rfl, rfl⟩
        | tryResolve k => injection hs with hs; subst hs; exact inv_pc_neutral h t th _ ht _ hnone ⟨rfl, rfl, rfl⟩
        | containsKey k => injection hs with hs; subst hs; exact inv_pc_neutral h t th _ ht _ hnone ⟨rfl, rfl, rfl⟩
        | len => injection hs with hs; subst hs; exact inv_pc_neutral h t th _ ht _ hnone ⟨rfl, rfl, rfl⟩
        | intern x =>
          simp only at hs
          split at hs
          · simp at hs
          · split at hs
            · injection hs with hs; subst hs
              exact inv_pc_neutral h t th _ ht _ hnone ⟨rfl, rfl, rfl⟩
            · injection hs with hs; subst hs
              have := inv_pc_neutral h t th { pc := .wantLock x false, todo := rest } ht s.log hnone ⟨rfl, rfl, rfl⟩
              exact this
        | internStatic x =>
          simp only at hs
          split at hs
          · simp at hs
          · split at hs
            · injection hs with hs; subst hs
              exact inv_pc_neutral h t th _ ht _ hnone ⟨rfl, rfl, rfl⟩
            · injection hs with hs; subst hs
              have := inv_pc_neutral h t th { pc := .wantLock x true, todo := rest } ht s.log hnone ⟨rfl, rfl, rfl⟩
              exact this
    | wantLock x st =>
      have hnone : holds th.pc = none ∧ owns th.pc = none ∧ pend th.pc = none := by rw [hpc]; exact ⟨rfl, rfl, rfl⟩
      simp only [hpc] at hs
      split at hs
      · simp at hs
      next hfree =>
        split at hs
        · injection hs with hs; subst hs
          exact inv_pc_neutral h t th _ ht _ hnone ⟨rfl, rfl, rfl⟩
        next hvac =>
          injection hs with hs; subst hs
          exact inv_lock h t th x (!st) ht hnone (lockOwner_isSome_false hfree) (mapGet_none hvac)
    | locked x b =>
      simp only [hpc] at hs
      cases b with
      | true =>
        simp only at hs
        split at hs
        · injection hs with hs; subst hs
          exact inv_same_holds h t th x true false ht hpc _
        · injection hs with hs; subst hs
          exact inv_abort h t th _ x true ht hpc rfl _ s.ctr (Or.inl rfl)
        · simp at hs
      | false =>
        simp only at hs
        split at hs
        next hk =>
          injection hs with hs; subst hs
          have hN : s.ctr < N := by
            unfold keyOfIndex at hk
            split at hk <;> simp_all
          exact inv_fetch h t th x false ht hpc hN
        next hk =>
          injection hs with hs; subst hs
          have hN : N ≤ s.ctr := by
            unfold keyOfIndex at hk
            split at hk
            · simp at hk
            · omega
          exact inv_abort h t th _ x false ht hpc rfl _ (s.ctr + 1) (Or.inr ⟨rfl, hN⟩)
    | haveKey x k =>
      simp only [hpc] at hs
      injection hs with hs; subst hs
      exact inv_strs_insert h t th x k ht hpc
    | inserted x k =>
      simp only [hpc] at hs
      injection hs with hs; subst hs
      exact inv_publish h t th _ x k ht hpc rfl _

theorem run_inv {sh : Bytes → Nat} {N : Nat} (sched : List Nat) : ∀ {s : CS}, Inv sh N s → Inv sh N (run sh N s sched) := by
  induction sched with
  | nil => intro s h; exact h
  | cons t rest ih =>
    intro s h
    unfold run
    cases hs : step sh N s t with
    | none => exact ih h
    | some s' => exact ih (step_inv h t hs)


/-! ### Monotonicity: published associations are never removed or changed -/

macro "mono_tac" : tactic =>
  `(tactic| (refine ⟨?_, ?_, ?_⟩ <;> intro e he <;>
      simp only [finish, setThread, List.mem_cons, List.mem_append] <;> first | exact he | grind))

theorem step_mono {sh : Bytes → Nat} {N : Nat} {s s' : CS} (h : Inv sh N s) (t : Nat) (hs : step sh N s t = some s') :
    (∀ e ∈ s.map, e ∈ s'.map) ∧ (∀ e ∈ s.strs, e ∈ s'.strs) ∧ (∀ e ∈ s.log, e ∈ s'.log) := by
  unfold step at hs
  cases ht : s.ts[t]? with
  | none => simp [ht] at hs
  | some th =>
    simp only [ht] at hs
    cases hpc : th.pc with
    | idle =>
      simp only [hpc] at hs
      cases htd : th.todo with
      | nil => simp [htd] at hs
      | cons c rest =>
        simp only [htd] at hs
        cases c with
        | get x =>
          simp only at hs
          split at hs
          · simp at hs
          · injection hs with hs; subst hs; mono_tac
        | tryResolve k => injection hs with hs; subst hs; mono_tac
        | containsKey k => injection hs with hs; subst hs; mono_tac
        | len => injection hs with hs; subst hs; mono_tac
        | intern x =>
          simp only at hs
          split at hs
          · simp at hs
          · split at hs <;> (injection hs with hs; subst hs; mono_tac)
        | internStatic x =>
          simp only at hs
          split at hs
          · simp at hs
          · split at hs <;> (injection hs with hs; subst hs; mono_tac)
    | wantLock x st =>
      simp only [hpc] at hs
      split at hs
      · simp at hs
      · split at hs <;> (injection hs with hs; subst hs; mono_tac)
    | locked x b =>
      simp only [hpc] at hs
      cases b with
      | true =>
        simp only at hs
        split at hs
        · injection hs with hs; subst hs; mono_tac
        · injection hs with hs; subst hs; mono_tac
        · simp at hs
      | false =>
        simp only at hs
        split at hs <;> (injection hs with hs; subst hs; mono_tac)
    | haveKey x k =>
      simp only [hpc] at hs
      injection hs with hs; subst hs
      refine ⟨fun e he => he, ?_, fun e he => he⟩
      intro e he
      have hown := (h.keyOwn t th k ht (by rw [hpc]; rfl)).2.2
      rw [mem_strInsert]
      right
      refine ⟨he, ?_⟩
      intro hk
      cases e with
      | mk k' y => simp at hk; subst hk; exact hown y he
    | inserted x k =>
      simp only [hpc] at hs
      injection hs with hs; subst hs; mono_tac

theorem run_mono {sh : Bytes → Nat} {N : Nat} (sched : List Nat) : ∀ {s : CS}, Inv sh N s →
    (∀ e ∈ s.map, e ∈ (run sh N s sched).map) ∧ (∀ e ∈ s.strs, e ∈ (run sh N s sched).strs) ∧
    (∀ e ∈ s.log, e ∈ (run sh N s sched).log) := by
  induction sched with
  | nil => intro s _; exact ⟨fun _ h => h, fun _ h => h, fun _ h => h⟩
  | cons t rest ih =>
    intro s h
    unfold run
    cases hs : step sh N s t with
    | none => exact ih h
    | some s' =>
      obtain ⟨a1, a2, a3⟩ := step_mono h t hs
      obtain ⟨b1, b2, b3⟩ := ih (step_inv h t hs)
      exact ⟨fun e he => b1 e (a1 e he), fun e he => b2 e (a2 e he), fun e he => b3 e (a3 e he)⟩

/-- What a logged result says about the shared maps at the moment it is logged (and, by
monotonicity, ever after). -/
def entryOk (s : CS) (e : Nat × Call × Res) : Prop :=
  match e.2.1, e.2.2 with
  | .intern x, .key k => (x, k) ∈ s.map
  | .internStatic x, .key k => (x, k) ∈ s.map
  | .get x, .optKey (some k) => (x, k) ∈ s.map
  | .tryResolve k, .optStr (some y) => (k, y) ∈ s.strs
  | _, _ => True

def LogOk (s : CS) : Prop := ∀ e ∈ s.log, entryOk s e

theorem entryOk_mono {s s' : CS} (hm : ∀ e ∈ s.map, e ∈ s'.map) (hst : ∀ e ∈ s.strs, e ∈ s'.strs) (e : Nat × Call × Res)
    (h : entryOk s e) : entryOk s' e := by
  unfold entryOk at *
  split <;> simp_all

theorem strGet_some {l : List (Nat × Bytes)} {k : Nat} {y : Bytes} (h : strGet l k = some y) : (k, y) ∈ l := by
  unfold strGet at h
  simp only [Option.map_eq_some_iff] at h
  obtain ⟨e, he, rfl⟩ := h
  have hm := List.mem_of_find?_eq_some he
  have hp := List.find?_some he
  simp only [beq_iff_eq] at hp
  cases e; simp_all

theorem step_logOk {sh : Bytes → Nat} {N : Nat} {s s' : CS} (h : Inv sh N s) (hl : LogOk s) (t : Nat)
    (hs : step sh N s t = some s') : LogOk s' := by
  obtain ⟨m1, m2, _⟩ := step_mono h t hs
  have hold : ∀ e ∈ s.log, entryOk s' e := fun e he => entryOk_mono m1 m2 e (hl e he)
  unfold step at hs
  cases ht : s.ts[t]? with
  | none => simp [ht] at hs
  | some th =>
    simp only [ht] at hs
    cases hpc : th.pc with
    | idle =>
      simp only [hpc] at hs
      cases htd : th.todo with
      | nil => simp [htd] at hs
      | cons c rest =>
        simp only [htd] at hs
        cases c with
        | get x =>
          simp only at hs
          split at hs
          · simp at hs
          · injection hs with hs; subst hs
            intro e he
            simp only [finish, List.mem_cons] at he
            rcases he with rfl | he
            · unfold entryOk; simp only
              cases hg : mapGet s.map x with
              | none => trivial
              | some k => exact mapGet_some hg
            · exact hold e he
        | tryResolve k =>
          injection hs with hs; subst hs
          intro e he
          simp only [finish, List.mem_cons] at he
          rcases he with rfl | he
          · unfold entryOk; simp only
            cases hg : strGet s.strs k with
            | none => trivial
            | some y => exact strGet_some hg
          · exact hold e he
        | containsKey k =>
          injection hs with hs; subst hs
          intro e he
          simp only [finish, List.mem_cons] at he
          rcases he with rfl | he
          · unfold entryOk; trivial
          · exact hold e he
        | len =>
          injection hs with hs; subst hs
          intro e he
          simp only [finish, List.mem_cons] at he
          rcases he with rfl | he
          · unfold entryOk; trivial
          · exact hold e he
        | intern x =>
          simp only at hs
          split at hs
          · simp at hs
          · split at hs
            next k hg =>
              injection hs with hs; subst hs
              intro e he
              simp only [finish, List.mem_cons] at he
              rcases he with rfl | he
              · unfold entryOk; exact mapGet_some hg
              · exact hold e he
            · injection hs with hs; subst hs
              intro e he; exact hold e he
        | internStatic x =>
          simp only at hs
          split at hs
          · simp at hs
          · split at hs
            next k hg =>
              injection hs with hs; subst hs
              intro e he
              simp only [finish, List.mem_cons] at he
              rcases he with rfl | he
              · unfold entryOk; exact mapGet_some hg
              · exact hold e he
            · injection hs with hs; subst hs
              intro e he; exact hold e he
    | wantLock x st =>
      simp only [hpc] at hs
      split at hs
      · simp at hs
      · split at hs
        next k hg =>
          injection hs with hs; subst hs
          intro e he
          simp only [finish, List.mem_cons] at he
          rcases he with rfl | he
          · unfold entryOk callOf; cases st <;> exact mapGet_some hg
          · exact hold e he
        · injection hs with hs; subst hs
          intro e he; exact hold e he
    | locked x b =>
      simp only [hpc] at hs
      cases b with
      | true =>
        simp only at hs
        split at hs
        · injection hs with hs; subst hs; intro e he; exact hold e he
        · injection hs with hs; subst hs
          intro e he
          simp only [finish, List.mem_cons] at he
          rcases he with rfl | he
          · unfold entryOk; trivial
          · exact hold e he
        · simp at hs
      | false =>
        simp only at hs
        split at hs
        · injection hs with hs; subst hs; intro e he; exact hold e he
        · injection hs with hs; subst hs
          intro e he
          simp only [finish, List.mem_cons] at he
          rcases he with rfl | he
          · unfold entryOk; trivial
          · exact hold e he
    | haveKey x k =>
      simp only [hpc] at hs
      injection hs with hs; subst hs
      intro e he; exact hold e he
    | inserted x k =>
      simp only [hpc] at hs
      injection hs with hs; subst hs
      intro e he
      simp only [finish, List.mem_cons] at he
      rcases he with rfl | he
      · unfold entryOk; simp
      · exact hold e he

theorem run_logOk {sh : Bytes → Nat} {N : Nat} (sched : List Nat) : ∀ {s : CS}, Inv sh N s → LogOk s → LogOk (run sh N s sched) := by
  induction sched with
  | nil => intro s _ hl; exact hl
  | cons t rest ih =>
    intro s h hl
    unfold run
    cases hs : step sh N s t with
    | none => exact ih h hl
    | some s' => exact ih (step_inv h t hs) (step_logOk h hl t hs)

end Lasso.Conc
